(** The packed queue words of channel.rs (DESIGN 5.6): for every VALID queue content (a
    duplicate-free list of slot indices 1..SLOTS, hence at most SLOTS = 5 entries - there are
    326 of them) the translated code of get/set/enqueue/dequeue computes exactly the list
    operations "append at the back" and "remove the head".  Proved by an exhaustive
    vm_compute sweep over the 326 lists, lifted to the Prop-level statement by
    forallb_forall + a completeness lemma for the enumeration. *)
From Coq Require Import List NArith Bool Lia Arith Permutation.
From SH Require Import gen.Extracted_channel channel.Defs.
Import ListNotations.
Local Open Scope N_scope.

Definition valid (l : list N) : Prop := NoDup l /\ incl l idxs.

(** * The enumeration is complete *)

Lemma remove_n_in v x l : In x (remove_n v l) <-> In x l /\ x <> v.
Proof.
  induction l as [|h t IH]; simpl; [tauto|].
  destruct (N.eqb_spec h v) as [->|Hne]; simpl; rewrite IH; intuition congruence.
Qed.

Lemma seqs_complete k : forall avail l, NoDup l -> incl l avail -> (length l <= k)%nat -> In l (seqs k avail).
Proof.
  induction k as [|k IH]; intros avail l Hnd Hin Hlen.
  - destruct l; simpl in *; [auto|lia].
  - destruct l as [|v t]; simpl; [auto|]. right.
    apply in_flat_map. exists v. split; [apply Hin; left; reflexivity|].
    apply in_map. inversion Hnd; subst. apply IH; auto; [|simpl in Hlen; lia].
    intros x Hx. apply remove_n_in. split; [apply Hin; right; exact Hx|]. intros ->. contradiction.
Qed.

Lemma idxs_eq : idxs = [1; 2; 3; 4; 5].
Proof. reflexivity. Qed.

Lemma valid_length l : valid l -> (length l <= 5)%nat.
Proof.
  intros [Hnd Hin]. change 5%nat with (length idxs). apply NoDup_incl_length; assumption.
Qed.

Lemma valid_enumerated l : valid l -> In l valid_lists.
Proof.
  intros H. apply seqs_complete; try apply H. apply valid_length. exact H.
Qed.

Lemma valid_lists_count : length valid_lists = 326%nat.
Proof. vm_compute. reflexivity. Qed.

Lemma list_eqb_eq a : forall b, list_eqb a b = true -> a = b.
Proof.
  induction a as [|x a IH]; intros [|y b] H; simpl in H; try discriminate; auto.
  apply andb_true_iff in H. destruct H as [H1 H2]. apply N.eqb_eq in H1. f_equal; auto.
Qed.

Lemma memb_in v l : memb v l = true <-> In v l.
Proof.
  induction l as [|h t IH]; simpl; [split; [discriminate|tauto]|].
  rewrite orb_true_iff, IH, N.eqb_eq. tauto.
Qed.

(** * The sweep *)

Definition opt_eqb (a b : option N) : bool :=
  match a, b with Some x, Some y => x =? y | None, None => true | _, _ => false end.

Definition deq_ok (l : list N) : bool :=
  match dequeue_word (encode l), l with
  | None, [] => true
  | Some (h', w'), h :: t => (h' =? h) && (w' =? encode t)
  | _, _ => false
  end.

Definition enq_ok (l : list N) : bool :=
  if (length l <? 5)%nat
  then opt_eqb (enq_find (encode l)) (Some (N.of_nat (length l)))
       && forallb (fun v => memb v l || opt_eqb (enqueue_word (encode l) v) (Some (encode (l ++ [v])))) idxs
  else opt_eqb (enq_find (encode l)) None.

Definition word_ok (l : list N) : bool :=
  list_eqb (decode (encode l)) l && (encode l <? 32768) && deq_ok l && enq_ok l.

Lemma sweep : forallb word_ok valid_lists = true.
Proof. vm_compute. reflexivity. Qed.

Lemma word_ok_valid l : valid l -> word_ok l = true.
Proof. intro H. exact (proj1 (forallb_forall word_ok valid_lists) sweep l (valid_enumerated l H)). Qed.

(** * The statements (for all valid queue contents; bound: entries in 1..SLOTS, SLOTS = 5) *)

Theorem decode_encode l : valid l -> decode (encode l) = l.
Proof.
  intro H. pose proof (word_ok_valid l H) as W. unfold word_ok in W.
  rewrite !andb_true_iff in W. apply list_eqb_eq. tauto.
Qed.

Theorem encode_fits l : valid l -> encode l < 32768.
Proof.
  intro H. pose proof (word_ok_valid l H) as W. unfold word_ok in W.
  rewrite !andb_true_iff in W. apply N.ltb_lt. tauto.
Qed.

Theorem dequeue_word_spec l : valid l ->
  dequeue_word (encode l) = match l with [] => None | h :: t => Some (h, encode t) end.
Proof.
  intro H. pose proof (word_ok_valid l H) as W. unfold word_ok in W.
  rewrite !andb_true_iff in W. destruct W as [[_ D] _]. unfold deq_ok in D.
  destruct (dequeue_word (encode l)) as [[h' w']|]; destruct l as [|h t]; try discriminate; auto.
  apply andb_true_iff in D. destruct D as [D1 D2]. apply N.eqb_eq in D1, D2. congruence.
Qed.

Theorem enq_find_spec l : valid l ->
  enq_find (encode l) = if (length l <? 5)%nat then Some (N.of_nat (length l)) else None.
Proof.
  intro H. pose proof (word_ok_valid l H) as W. unfold word_ok in W.
  rewrite !andb_true_iff in W. destruct W as [_ E]. unfold enq_ok in E.
  destruct (length l <? 5)%nat.
  - apply andb_true_iff in E. destruct E as [E _].
    destruct (enq_find (encode l)); simpl in E; try discriminate. apply N.eqb_eq in E. congruence.
  - destruct (enq_find (encode l)); simpl in E; try discriminate. reflexivity.
Qed.

(** find-zero exists iff fewer than SLOTS entries *)
Corollary enq_find_some_iff l : valid l -> (enq_find (encode l) <> None <-> (length l < 5)%nat).
Proof.
  intro H. rewrite (enq_find_spec l H). destruct (Nat.ltb_spec (length l) 5); split; intros; try lia; congruence.
Qed.

Theorem enqueue_word_spec l v : valid l -> (length l < 5)%nat -> In v idxs -> ~ In v l ->
  enqueue_word (encode l) v = Some (encode (l ++ [v])).
Proof.
  intros H Hlen Hv Hnin. pose proof (word_ok_valid l H) as W. unfold word_ok in W.
  rewrite !andb_true_iff in W. destruct W as [_ E]. unfold enq_ok in E.
  apply Nat.ltb_lt in Hlen. rewrite Hlen in E. apply andb_true_iff in E. destruct E as [_ E].
  pose proof (proj1 (forallb_forall _ _) E v Hv) as Ev. simpl in Ev.
  apply orb_true_iff in Ev. destruct Ev as [Ev|Ev].
  - apply memb_in in Ev. contradiction.
  - destruct (enqueue_word (encode l) v); simpl in Ev; try discriminate. apply N.eqb_eq in Ev. congruence.
Qed.

Theorem enqueue_word_full l v : valid l -> length l = 5%nat -> enqueue_word (encode l) v = None.
Proof.
  intros H Hlen. unfold enqueue_word. rewrite (enq_find_spec l H), Hlen. reflexivity.
Qed.

(** No shift amount reaches the width of u16 and `BITS * idx` does not overflow for the
    positions the code uses (so the debug-build overflow checks of Rust cannot fire and the
    `mod 2^16` inserted by the translator around them is the identity there). *)
Lemma shifts_in_range : forallb (fun i => (BITS * i <? 16)) (nrange enq_lo (N.to_nat (enq_hi - enq_lo))) = true.
Proof. vm_compute. reflexivity. Qed.

(** new() leaves `empty` = [1;2;3;4;5] and `full` = []. *)
Lemma new_words_spec : new_words = Some (encode idxs, encode []).
Proof. vm_compute. reflexivity. Qed.

(** * Facts about valid lists used by the invariants *)

Lemma valid_nil : valid [].
Proof. split; [constructor|intros x []]. Qed.

Lemma valid_idxs : valid idxs.
Proof. split; [|apply incl_refl]. rewrite idxs_eq. repeat constructor; simpl; intuition discriminate. Qed.

Lemma valid_tl h t : valid (h :: t) -> valid t.
Proof. intros [Hnd Hin]. split; [inversion Hnd; auto|intros x Hx; apply Hin; right; exact Hx]. Qed.

Lemma nodup_snoc (l : list N) v : NoDup l -> ~ In v l -> NoDup (l ++ [v]).
Proof.
  induction l as [|h t IH]; intros Hnd Hn; simpl.
  - constructor; [intros []|constructor].
  - inversion Hnd; subst. constructor.
    + intro Hx. apply in_app_or in Hx. destruct Hx as [Hx|[<-|[]]]; [contradiction|]. apply Hn. left. reflexivity.
    + apply IH; auto. intro Hx. apply Hn. right. exact Hx.
Qed.

Lemma valid_snoc l v : valid l -> In v idxs -> ~ In v l -> valid (l ++ [v]).
Proof.
  intros [Hnd Hin] Hv Hn. split.
  - apply nodup_snoc; auto.
  - intros x Hx. apply in_app_or in Hx. destruct Hx as [Hx|[<-|[]]]; auto.
Qed.

Lemma decode_nil : decode 0 = [].
Proof. reflexivity. Qed.

Lemma encode_nil_iff l : valid l -> (encode l = 0 <-> l = []).
Proof.
  intro H. split; [|intros ->; reflexivity]. intro E.
  rewrite <- (decode_encode l H), E. reflexivity.
Qed.
