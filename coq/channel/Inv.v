(** Ownership invariant of the SC channel model, for every schedule (DESIGN 5.6-5.8):
    both queue words are valid; every slot index 1..5 is in exactly one of: the `empty` queue,
    the `full` queue, the hands of exactly one in-flight operation; a cell is None while its
    index is in `empty` or held by a sender that has not written yet or by a receiver that has
    taken, Some while in `full` / written / not yet taken; no frame is in a panic state. *)
From Coq Require Import List Arith NArith ZArith Bool Lia.
From SH Require Import base.Pool gen.Extracted_channel channel.Defs channel.Word channel.Model.
Import ListNotations.
Local Open Scope N_scope.

Definition holds (f : frame) : option N :=
  match fpc f with PCell | PEnqLoad | PEnqCas => Some (idx f) | _ => None end.
Definition holdsb (i : N) (f : frame) : bool :=
  match holds f with Some j => j =? i | None => false end.
Definition holding (f : frame) : bool := match holds f with Some _ => true | None => false end.

Definition occ (i : N) (l : list N) : nat := count_occ N.eq_dec l i.

Definition WordOk (w : N) : Prop := valid (decode w) /\ encode (decode w) = w.

Definition frame_ok (s : shared) (f : frame) : Prop :=
  match fpc f with
  | PDeqLoad | PDone => True
  | PDeqCas => dequeue_word (cur f) <> None
  | PCell => In (idx f) idxs /\
             match fkind f with KSend _ => cells s (idx f) = None | KRecv => cells s (idx f) <> None end
  | PEnqLoad => In (idx f) idxs /\
                match fkind f with KSend v => cells s (idx f) = Some v | KRecv => cells s (idx f) = None end
  | PEnqCas => In (idx f) idxs /\ enq_find (cur f) <> None /\
               match fkind f with KSend v => cells s (idx f) = Some v | KRecv => cells s (idx f) = None end
  | PPanic _ => False
  end.

Record Inv (s : shared) (fs : list frame) : Prop := {
  i_we : WordOk (qe s);
  i_wf : WordOk (qf s);
  i_own : forall i, In i idxs -> (occ i (decode (qe s)) + occ i (decode (qf s)) + cnt (holdsb i) fs = 1)%nat;
  i_total : (length (decode (qe s)) + length (decode (qf s)) + cnt holding fs = 5)%nat;
  i_fr : forall k f, nth_error fs k = Some f -> frame_ok s f;
  i_ce : forall i, In i (decode (qe s)) -> cells s i = None;
  i_cf : forall i, In i (decode (qf s)) -> cells s i <> None;
  i_clob : clobbered s = []
}.

(** * Small facts *)

Lemma occ_app i l1 l2 : occ i (l1 ++ l2) = (occ i l1 + occ i l2)%nat.
Proof. apply count_occ_app. Qed.

Lemma occ_in i l : (occ i l > 0)%nat <-> In i l.
Proof. unfold occ. symmetry. apply count_occ_In. Qed.

Lemma occ_notin i l : occ i l = 0%nat <-> ~ In i l.
Proof. unfold occ. symmetry. apply count_occ_not_In. Qed.

Lemma occ_cons i h t : occ i (h :: t) = (b2n (h =? i)%N + occ i t)%nat.
Proof.
  unfold occ. simpl. destruct (N.eq_dec h i) as [->|Hne].
  - rewrite N.eqb_refl. reflexivity.
  - apply N.eqb_neq in Hne. rewrite Hne. reflexivity.
Qed.

Lemma occ_snoc i l v : occ i (l ++ [v]) = (occ i l + b2n (v =? i)%N)%nat.
Proof. rewrite occ_app, occ_cons. change (occ i []) with 0%nat. lia. Qed.

Lemma in_range_idxs i : In i idxs -> in_range i = true.
Proof.
  rewrite idxs_eq. simpl. intros [<-|[<-|[<-|[<-|[<-|[]]]]]]; reflexivity.
Qed.

Lemma init_words : qe init_shared = encode idxs /\ qf init_shared = encode [].
Proof. unfold init_shared. rewrite new_words_spec. split; reflexivity. Qed.

Lemma wordok_encode l : valid l -> WordOk (encode l).
Proof. intro H. unfold WordOk. rewrite (decode_encode l H). auto. Qed.

Lemma wordok_deq w : WordOk w ->
  dequeue_word w = match decode w with [] => None | h :: t => Some (h, encode t) end.
Proof. intros [Hv He]. rewrite <- He at 1. apply dequeue_word_spec. exact Hv. Qed.

Lemma wordok_zero w : WordOk w -> dequeue_word w = None -> w = 0.
Proof.
  intros Hw Hd. rewrite (wordok_deq w Hw) in Hd. destruct (decode w) eqn:E; [|discriminate].
  destruct Hw as [_ He]. rewrite E in He. simpl in He. congruence.
Qed.

(** A valid list that misses one index has room. *)
Lemma valid_room l i : valid l -> In i idxs -> ~ In i l -> (length l < 5)%nat.
Proof.
  intros Hv Hi Hn. pose proof (valid_length _ (valid_snoc l i Hv Hi Hn)) as H.
  rewrite app_length in H. simpl in H. lia.
Qed.

Lemma wordok_enq w i : WordOk w -> In i idxs -> ~ In i (decode w) ->
  enq_find w <> None /\ enqueue_word w i = Some (encode (decode w ++ [i])).
Proof.
  intros [Hv He] Hi Hn. pose proof (valid_room _ _ Hv Hi Hn) as Hlen. rewrite <- He at 1 2.
  split.
  - apply enq_find_some_iff; assumption.
  - apply enqueue_word_spec; assumption.
Qed.

(** * Frame bookkeeping *)

Lemma frame_ok_cells s s' f : (forall i, cells s' i = cells s i) -> frame_ok s f -> frame_ok s' f.
Proof.
  intros Hc. unfold frame_ok. destruct (fpc f); auto; rewrite !Hc; auto.
Qed.

Lemma holdsb_holds i f : holdsb i f = true -> holds f = Some i.
Proof. unfold holdsb. destruct (holds f); [|discriminate]. intro H. apply N.eqb_eq in H. congruence. Qed.

(** Two different frames never hold the same index. *)
Lemma holders_distinct s fs j k f g i :
  Inv s fs -> In i idxs -> j <> k -> nth_error fs j = Some f -> nth_error fs k = Some g ->
  holds f = Some i -> holds g = Some i -> False.
Proof.
  intros I Hi Hne Hj Hk Hf Hg.
  assert (2 <= cnt (holdsb i) fs)%nat.
  { eapply cnt_two; eauto; unfold holdsb; [rewrite Hf|rewrite Hg]; apply N.eqb_refl. }
  pose proof (i_own _ _ I i Hi). lia.
Qed.

(** An index held by a frame is in neither queue. *)
Lemma held_not_queued s fs k f i :
  Inv s fs -> In i idxs -> nth_error fs k = Some f -> holds f = Some i ->
  ~ In i (decode (qe s)) /\ ~ In i (decode (qf s)).
Proof.
  intros I Hi Hk Hf.
  assert (1 <= cnt (holdsb i) fs)%nat.
  { eapply cnt_pos; eauto. unfold holdsb. rewrite Hf. apply N.eqb_refl. }
  pose proof (i_own _ _ I i Hi). split; apply occ_notin; lia.
Qed.

(** * The generic update lemma: what a step has to establish *)

Lemma inv_update s fs k f s' f' :
  Inv s fs -> nth_error fs k = Some f ->
  WordOk (qe s') -> WordOk (qf s') ->
  (forall i, In i idxs ->
     (occ i (decode (qe s')) + occ i (decode (qf s')) + b2n (holdsb i f') =
      occ i (decode (qe s)) + occ i (decode (qf s)) + b2n (holdsb i f))%nat) ->
  (length (decode (qe s')) + length (decode (qf s')) + b2n (holding f') =
   length (decode (qe s)) + length (decode (qf s)) + b2n (holding f))%nat ->
  frame_ok s' f' ->
  (forall j g, j <> k -> nth_error fs j = Some g -> frame_ok s g -> frame_ok s' g) ->
  (forall i, In i (decode (qe s')) -> cells s' i = None) ->
  (forall i, In i (decode (qf s')) -> cells s' i <> None) ->
  clobbered s' = [] ->
  Inv s' (upd fs k f').
Proof.
  intros I Hk We Wf Hown Htot Hf' Hoth Hce Hcf Hcl.
  constructor; auto.
  - intros i Hi. pose proof (cnt_upd (holdsb i) fs k f f' Hk). pose proof (i_own _ _ I i Hi). specialize (Hown i Hi). lia.
  - pose proof (cnt_upd holding fs k f f' Hk). pose proof (i_total _ _ I). lia.
  - intros j g Hj. apply nth_upd_cases in Hj. destruct Hj as [(-> & _ & ->)|[Hne Hj]]; auto.
    eapply Hoth; eauto. eapply i_fr; eauto.
Qed.

(** A step that changes neither the words nor the cells nor what the frame holds. *)
Lemma inv_same s fs k f s' f' :
  Inv s fs -> nth_error fs k = Some f ->
  qe s' = qe s -> qf s' = qf s -> (forall i, cells s' i = cells s i) -> clobbered s' = clobbered s ->
  holds f' = holds f -> frame_ok s' f' ->
  Inv s' (upd fs k f').
Proof.
  intros I Hk He Hf Hc Hcl Hh Hok.
  apply (inv_update s fs k f); auto; rewrite ?He, ?Hf; try apply I.
  - intros i _. unfold holdsb. rewrite Hh. reflexivity.
  - unfold holding. rewrite Hh. reflexivity.
  - intros j g _ _. apply frame_ok_cells. exact Hc.
  - intros i Hi. rewrite Hc. apply (i_ce _ _ I). exact Hi.
  - intros i Hi. rewrite Hc. apply (i_cf _ _ I). exact Hi.
  - rewrite Hcl. apply I.
Qed.

(** * The two read decisions *)

Lemma after_deq_read_spec s f m s' f' es :
  after_deq_read s f m = (s', f', es) ->
  qe s' = qe s /\ qf s' = qf s /\ cells s' = cells s /\ clobbered s' = clobbered s /\
  g_in s' = g_in s /\ g_out s' = g_out s /\
  ((dequeue_word m <> None /\ f' = set_cur f m PDeqCas /\ dropped s' = dropped s /\ es = []) \/
   (dequeue_word m = None /\ f' = set_cur f m PDone /\ es = [ev_ret 0] /\
    match fkind f with KSend v => dropped s' = dropped s ++ [v] | KRecv => dropped s' = dropped s end)).
Proof.
  unfold after_deq_read. destruct (dequeue_word m) as [p|] eqn:E.
  - intro H. inversion H; subst. repeat split; auto. left. repeat split; auto. discriminate.
  - destruct (fkind f) eqn:K; intro H; inversion H; subst; simpl; repeat split; auto; right; repeat split; auto.
Qed.

Lemma after_enq_read_spec s f m s' f' es :
  after_enq_read s f m = (s', f', es) ->
  s' = s /\ es = [] /\
  ((enq_find m <> None /\ f' = set_cur f m PEnqCas) \/ (enq_find m = None /\ f' = set_cur f m (PPanic 1))).
Proof.
  unfold after_enq_read. destruct (enq_find m) eqn:E; intro H; inversion H; subst; repeat split; auto.
  left. split; auto. discriminate.
Qed.

Lemma deq_read_inv s fs k f m s' f' es :
  Inv s fs -> nth_error fs k = Some f -> (fpc f = PDeqLoad \/ fpc f = PDeqCas) ->
  after_deq_read s f m = (s', f', es) -> Inv s' (upd fs k f').
Proof.
  intros I Hk Hpc H. apply after_deq_read_spec in H.
  destruct H as (He & Hf & Hc & Hcl & _ & _ & H).
  apply (inv_same s fs k f); auto.
  - intro i. rewrite Hc. reflexivity.
  - destruct H as [(_ & -> & _)|(_ & -> & _)]; unfold holds; simpl; destruct Hpc as [-> | ->]; reflexivity.
  - destruct H as [(Hd & -> & _)|(_ & -> & _)]; unfold frame_ok; simpl; auto.
Qed.

Lemma enq_read_inv s fs k f s' f' es :
  Inv s fs -> nth_error fs k = Some f -> (fpc f = PEnqLoad \/ fpc f = PEnqCas) ->
  after_enq_read s f (qget s (enq_q (fkind f))) = (s', f', es) -> Inv s' (upd fs k f').
Proof.
  intros I Hk Hpc H. apply after_enq_read_spec in H. destruct H as (-> & _ & H).
  pose proof (i_fr _ _ I k f Hk) as Fok.
  assert (Hidx : In (idx f) idxs /\ match fkind f with KSend v => cells s (idx f) = Some v | KRecv => cells s (idx f) = None end).
  { unfold frame_ok in Fok. destruct Hpc as [E|E]; rewrite E in Fok; tauto. }
  destruct Hidx as [Hi Hcell].
  assert (Hh : holds f = Some (idx f)) by (unfold holds; destruct Hpc as [-> | ->]; reflexivity).
  destruct (held_not_queued s fs k f (idx f) I Hi Hk Hh) as [Hne Hnf].
  assert (Hfind : enq_find (qget s (enq_q (fkind f))) <> None).
  { destruct (fkind f); simpl; [apply (wordok_enq (qf s) (idx f))|apply (wordok_enq (qe s) (idx f))]; auto; apply I. }
  destruct H as [(_ & ->)|(Hnone & _)]; [|contradiction].
  apply (inv_same s fs k f); auto.
  unfold frame_ok; simpl. auto.
Qed.

(** * One step of any frame preserves the invariant *)

Lemma b2n_eqb_sym (a b : N) : b2n (a =? b) = b2n (b =? a).
Proof. rewrite N.eqb_sym. reflexivity. Qed.

Ltac hb Hpc := unfold holdsb, holding, holds; cbn [fpc idx set_pc set_cur]; rewrite ?Hpc; cbn [b2n].
Ltac red_s := cbn [qe qf cells clobbered qset set_cell].

Lemma inv_step s fs k f c s' f' es :
  Inv s fs -> nth_error fs k = Some f -> fstep s f c = (s', f', es) -> Inv s' (upd fs k f').
Proof.
  intros I Hk Hs.
  pose proof (i_fr _ _ I k f Hk) as Fok.
  unfold fstep in Hs. destruct (fpc f) eqn:Hpc.
  - (* PDeqLoad *)
    destruct (after_deq_read s f (qget s (deq_q (fkind f)))) as [[s1 f1] e1] eqn:E.
    inversion Hs; subst. eapply deq_read_inv; eauto.
  - (* PDeqCas *)
    unfold frame_ok in Fok. rewrite Hpc in Fok.
    destruct (dequeue_word (cur f)) as [[i w']|] eqn:Ed; [|contradiction].
    destruct (Nat.eqb c 1 || negb (qget s (deq_q (fkind f)) =? cur f)) eqn:Efail.
    + destruct (after_deq_read s f (qget s (deq_q (fkind f)))) as [[s1 f1] e1] eqn:E.
      inversion Hs; subst. eapply deq_read_inv; eauto.
    + apply orb_false_iff in Efail. destruct Efail as [_ Em]. apply negb_false_iff in Em. apply N.eqb_eq in Em.
      (* success: the word read is the current one *)
      assert (Hw : WordOk (cur f)) by (rewrite <- Em; destruct (fkind f); apply I).
      rewrite (wordok_deq _ Hw) in Ed. destruct (decode (cur f)) as [|h t] eqn:El; [discriminate|].
      inversion Ed; subst i w'; clear Ed.
      assert (Hvl : valid (h :: t)) by (rewrite <- El; apply Hw).
      assert (Hvt : valid t) by (eapply valid_tl; eauto).
      assert (Hh : In h idxs) by (apply Hvl; left; reflexivity).
      destruct (fkind f) eqn:K; cbn [deq_q qget] in Em; inversion Hs; subst s' f' es; clear Hs.
      * (* send: dequeue(empty) *)
        assert (Hd : decode (qe s) = h :: t) by congruence.
        apply (inv_update s fs k f _ _ I Hk); red_s.
        -- apply wordok_encode; auto.
        -- apply I.
        -- intros i Hi. rewrite (decode_encode t Hvt), Hd, occ_cons. hb Hpc. lia.
        -- rewrite (decode_encode t Hvt), Hd. hb Hpc. simpl. lia.
        -- unfold frame_ok. cbn [fpc fkind idx cells qset]. split; auto. apply (i_ce _ _ I). rewrite Hd. left. reflexivity.
        -- intros j g _ _. apply frame_ok_cells. reflexivity.
        -- intros i Hi. rewrite (decode_encode t Hvt) in Hi. apply (i_ce _ _ I). rewrite Hd. right. exact Hi.
        -- apply I.
        -- apply I.
      * (* recv: dequeue(full) *)
        assert (Hd : decode (qf s) = h :: t) by congruence.
        apply (inv_update s fs k f _ _ I Hk); red_s.
        -- apply I.
        -- apply wordok_encode; auto.
        -- intros i Hi. rewrite (decode_encode t Hvt), Hd, occ_cons. hb Hpc. lia.
        -- rewrite (decode_encode t Hvt), Hd. hb Hpc. simpl. lia.
        -- unfold frame_ok. cbn [fpc fkind idx cells qset]. split; auto. apply (i_cf _ _ I). rewrite Hd. left. reflexivity.
        -- intros j g _ _. apply frame_ok_cells. reflexivity.
        -- apply I.
        -- intros i Hi. rewrite (decode_encode t Hvt) in Hi. apply (i_cf _ _ I). rewrite Hd. right. exact Hi.
        -- apply I.
  - (* PCell *)
    unfold frame_ok in Fok. rewrite Hpc in Fok. destruct Fok as [Hi Hcell].
    assert (Hh : holds f = Some (idx f)) by (unfold holds; rewrite Hpc; reflexivity).
    destruct (held_not_queued s fs k f (idx f) I Hi Hk Hh) as [Hne Hnf].
    rewrite (in_range_idxs _ Hi) in Hs.
    assert (Hother : forall x j g, j <> k -> nth_error fs j = Some g -> frame_ok s g -> frame_ok (set_cell s (idx f) x) g).
    { intros x j g Hjk Hj Hg.
      destruct (holds g) as [ig|] eqn:Hhg.
      - assert (ig <> idx f).
        { intro Heq. subst ig.
          eapply (holders_distinct s fs j k g f (idx f)); eauto. }
        unfold frame_ok in *. unfold holds in Hhg.
        destruct (fpc g); try discriminate; inversion Hhg; subst ig; cbn [cells set_cell];
          (destruct (N.eqb_spec (idx g) (idx f)); [contradiction|exact Hg]).
      - unfold frame_ok in *. unfold holds in Hhg. destruct (fpc g); try discriminate; auto. }
    destruct (fkind f) eqn:K.
    + (* send writes its value *)
      rewrite Hcell in Hs. inversion Hs; subst s' f' es; clear Hs.
      apply (inv_update s fs k f _ _ I Hk); red_s.
      * apply I.
      * apply I.
      * intros i _. hb Hpc. reflexivity.
      * hb Hpc. reflexivity.
      * unfold frame_ok. cbn [fpc fkind idx cells set_pc set_cell]. rewrite ?K, N.eqb_refl. auto.
      * intros j g Hj Hg Hok. apply (Hother (Some v) j g Hj Hg Hok).
      * intros i Hin. destruct (N.eqb_spec i (idx f)) as [->|_]; [contradiction|]. apply (i_ce _ _ I). exact Hin.
      * intros i Hin. destruct (N.eqb_spec i (idx f)) as [->|_]; [discriminate|]. apply (i_cf _ _ I). exact Hin.
      * apply I.
    + (* recv takes the value *)
      destruct (cells s (idx f)) as [x|] eqn:Ec; [|contradiction].
      inversion Hs; subst s' f' es; clear Hs.
      apply (inv_update s fs k f _ _ I Hk); red_s.
      * apply I.
      * apply I.
      * intros i _. hb Hpc. reflexivity.
      * hb Hpc. reflexivity.
      * unfold frame_ok. cbn [fpc fkind idx cells set_cell]. rewrite ?K, N.eqb_refl. auto.
      * intros j g Hj Hg Hok. apply (Hother None j g Hj Hg Hok).
      * intros i Hin. destruct (N.eqb_spec i (idx f)) as [->|_]; [reflexivity|]. apply (i_ce _ _ I). exact Hin.
      * intros i Hin. destruct (N.eqb_spec i (idx f)) as [->|_]; [contradiction|]. apply (i_cf _ _ I). exact Hin.
      * apply I.
  - (* PEnqLoad *)
    destruct (after_enq_read s f (qget s (enq_q (fkind f)))) as [[s1 f1] e1] eqn:E.
    inversion Hs; subst. eapply enq_read_inv; eauto.
  - (* PEnqCas *)
    unfold frame_ok in Fok. rewrite Hpc in Fok. destruct Fok as (Hi & Hfind & Hcell).
    assert (Hh : holds f = Some (idx f)) by (unfold holds; rewrite Hpc; reflexivity).
    destruct (held_not_queued s fs k f (idx f) I Hi Hk Hh) as [Hne Hnf].
    destruct (enqueue_word (cur f) (idx f)) as [w'|] eqn:Ee.
    2:{ inversion Hs; subst. rewrite upd_same by assumption. exact I. }
    destruct (Nat.eqb c 1 || negb (qget s (enq_q (fkind f)) =? cur f)) eqn:Efail.
    + destruct (after_enq_read s f (qget s (enq_q (fkind f)))) as [[s1 f1] e1] eqn:E.
      inversion Hs; subst. eapply enq_read_inv; eauto.
    + apply orb_false_iff in Efail. destruct Efail as [_ Em]. apply negb_false_iff in Em. apply N.eqb_eq in Em.
      destruct (fkind f) eqn:K; cbn [enq_q qget] in Em; inversion Hs; subst s' f' es; clear Hs.
      * (* send: enqueue(full) *)
        assert (Hw : WordOk (qf s)) by apply I.
        destruct (wordok_enq (qf s) (idx f) Hw Hi Hnf) as [_ Hen]. rewrite <- Em in Ee. rewrite Ee in Hen. inversion Hen; subst w'; clear Hen.
        assert (Hv' : valid (decode (qf s) ++ [idx f])) by (apply valid_snoc; auto; apply Hw).
        apply (inv_update s fs k f _ _ I Hk); red_s.
        -- apply I.
        -- apply wordok_encode; auto.
        -- intros i Hii. rewrite (decode_encode _ Hv'), occ_snoc. hb Hpc. lia.
        -- rewrite (decode_encode _ Hv'), app_length. hb Hpc. simpl. lia.
        -- unfold frame_ok. cbn [fpc]. exact Logic.I.
        -- intros j g _ _. apply frame_ok_cells. reflexivity.
        -- apply I.
        -- intros i Hin. rewrite (decode_encode _ Hv') in Hin. apply in_app_or in Hin.
           destruct Hin as [Hin|[<-|[]]]; [apply (i_cf _ _ I); exact Hin|rewrite Hcell; discriminate].
        -- apply I.
      * (* recv: enqueue(empty) *)
        assert (Hw : WordOk (qe s)) by apply I.
        destruct (wordok_enq (qe s) (idx f) Hw Hi Hne) as [_ Hen]. rewrite <- Em in Ee. rewrite Ee in Hen. inversion Hen; subst w'; clear Hen.
        assert (Hv' : valid (decode (qe s) ++ [idx f])) by (apply valid_snoc; auto; apply Hw).
        apply (inv_update s fs k f _ _ I Hk); red_s.
        -- apply wordok_encode; auto.
        -- apply I.
        -- intros i Hii. rewrite (decode_encode _ Hv'), occ_snoc. hb Hpc. lia.
        -- rewrite (decode_encode _ Hv'), app_length. hb Hpc. simpl. lia.
        -- unfold frame_ok. cbn [fpc set_pc]. exact Logic.I.
        -- intros j g _ _. apply frame_ok_cells. reflexivity.
        -- intros i Hin. rewrite (decode_encode _ Hv') in Hin. apply in_app_or in Hin.
           destruct Hin as [Hin|[<-|[]]]; [apply (i_ce _ _ I); exact Hin|exact Hcell].
        -- apply I.
        -- apply I.
  - inversion Hs; subst. rewrite upd_same by assumption. exact I.
  - inversion Hs; subst. rewrite upd_same by assumption. exact I.
Qed.

(** * Initial state, spawning, runs *)

Lemma inv_init : Inv init_shared [].
Proof.
  destruct init_words as [He Hf].
  assert (Hde : decode (qe init_shared) = idxs) by (rewrite He; apply decode_encode, valid_idxs).
  assert (Hdf : decode (qf init_shared) = []) by (rewrite Hf; reflexivity).
  constructor.
  - rewrite He. apply wordok_encode, valid_idxs.
  - rewrite Hf. apply wordok_encode, valid_nil.
  - intros i Hi. rewrite Hde, Hdf. rewrite idxs_eq in *. simpl in Hi.
    destruct Hi as [<-|[<-|[<-|[<-|[<-|[]]]]]]; reflexivity.
  - rewrite Hde, Hdf. reflexivity.
  - intros [|k] f H; discriminate.
  - reflexivity.
  - rewrite Hdf. intros i [].
  - reflexivity.
Qed.

Lemma inv_spawn s fs k : Inv s fs -> Inv s (fs ++ [mk_frame k]).
Proof.
  intros I. constructor; try apply I.
  - intros i Hi. rewrite cnt_app. pose proof (i_own _ _ I i Hi). unfold cnt at 2. simpl. lia.
  - rewrite cnt_app. pose proof (i_total _ _ I). unfold cnt at 2. simpl. lia.
  - intros j f Hj. apply nth_app_cases in Hj. destruct Hj as [Hj|[_ ->]]; [eapply i_fr; eauto|exact Logic.I].
Qed.

Lemma inv_wstep w l w' es : Inv (fst w) (snd w) -> wstep w l = (w', es) -> Inv (fst w') (snd w').
Proof.
  destruct w as [s fs]. simpl. intros I Hs. destruct l as [k c|kd]; simpl in Hs.
  - destruct (nth_error fs k) as [f|] eqn:Hn.
    + destruct (fstep s f c) as [[s1 f1] e1] eqn:Hf. inversion Hs; subst. simpl. eapply inv_step; eauto.
    + inversion Hs; subst. exact I.
  - inversion Hs; subst. simpl. apply inv_spawn. exact I.
Qed.

Lemma inv_run ls : forall w w' es, Inv (fst w) (snd w) -> run w ls = (w', es) -> Inv (fst w') (snd w').
Proof.
  induction ls as [|l r IH]; intros w w' es I Hr; simpl in Hr.
  - inversion Hr; subst. exact I.
  - destruct (wstep w l) as [w1 e1] eqn:Hw. destruct (run w1 r) as [w2 e2] eqn:Hr2.
    inversion Hr; subst. eapply IH; [|eauto]. eapply inv_wstep; eauto.
Qed.

Theorem reachable_inv ls s fs es : run init_world ls = ((s, fs), es) -> Inv s fs.
Proof. intro H. apply (inv_run ls init_world (s, fs) es); [apply inv_init|exact H]. Qed.

(** * C08: no panic *)

Theorem no_panic ls s fs es :
  run init_world ls = ((s, fs), es) -> forall k f, nth_error fs k = Some f -> forall why, fpc f <> PPanic why.
Proof.
  intros Hr k f Hk why Hp. pose proof (i_fr _ _ (reachable_inv _ _ _ _ Hr) k f Hk) as H.
  unfold frame_ok in H. rewrite Hp in H. exact H.
Qed.

(** The assignment in `send` never overwrites a live value. *)
Theorem no_clobber ls s fs es : run init_world ls = ((s, fs), es) -> clobbered s = [].
Proof. intro Hr. apply (i_clob _ _ (reachable_inv _ _ _ _ Hr)). Qed.
