(** C08: from every reachable world a send/recv frame run alone completes within 5 + k of its
    own steps if at most k of its weak CASes fail spuriously; every step that is not a
    spurious failure strictly decreases a measure, so no step waits for another activity.
    The other frames may be parked anywhere (the flat pool), e.g. between the two queue
    operations of a send/recv on the same thread. *)
From Coq Require Import List Arith NArith ZArith Bool Lia.
From SH Require Import base.Pool gen.Extracted_channel channel.Defs channel.Word channel.Model channel.Inv.
Import ListNotations.
Local Open Scope N_scope.

(** Steps the frame still needs when nothing else runs and no CAS fails spuriously.  A frame
    parked at a CAS with a stale `current` needs one extra (failing) attempt. *)
Definition mu (s : shared) (f : frame) : nat :=
  match fpc f with
  | PDeqLoad => 5
  | PDeqCas => if cur f =? qget s (deq_q (fkind f)) then 4 else 5
  | PCell => 3
  | PEnqLoad => 2
  | PEnqCas => if cur f =? qget s (enq_q (fkind f)) then 1 else 2
  | PDone | PPanic _ => 0
  end.

Lemma mu_unfold s f : mu s f =
  match fpc f with
  | PDeqLoad => 5%nat
  | PDeqCas => if cur f =? qget s (deq_q (fkind f)) then 4%nat else 5%nat
  | PCell => 3%nat
  | PEnqLoad => 2%nat
  | PEnqCas => if cur f =? qget s (enq_q (fkind f)) then 1%nat else 2%nat
  | PDone | PPanic _ => 0%nat
  end.
Proof. reflexivity. Qed.

Lemma mu_le5 s f : (mu s f <= 5)%nat.
Proof. unfold mu. destruct (fpc f); try lia; destruct (_ =? _); lia. Qed.

Lemma qget_same s s' q : qe s' = qe s -> qf s' = qf s -> qget s' q = qget s q.
Proof. intros He Hf. destruct q; simpl; congruence. Qed.

Lemma mu_after_deq s f m s' f' es :
  m = qget s (deq_q (fkind f)) -> after_deq_read s f m = (s', f', es) -> (mu s' f' <= 4)%nat.
Proof.
  intros Hm H. apply after_deq_read_spec in H. destruct H as (He & Hf & _ & _ & _ & _ & H).
  destruct H as [(_ & -> & _)|(_ & -> & _)]; unfold mu; simpl; [|lia].
  rewrite (qget_same s s' _ He Hf), <- Hm, N.eqb_refl. lia.
Qed.

Lemma mu_after_enq s f m s' f' es :
  m = qget s (enq_q (fkind f)) -> after_enq_read s f m = (s', f', es) -> (mu s' f' <= 1)%nat.
Proof.
  intros Hm H. apply after_enq_read_spec in H. destruct H as (-> & _ & H).
  destruct H as [(_ & ->)|(_ & ->)]; unfold mu; simpl; [|lia].
  rewrite <- Hm, N.eqb_refl. lia.
Qed.

Lemma mu_step s fs k f c s' f' es :
  Inv s fs -> nth_error fs k = Some f -> fstep s f c = (s', f', es) ->
  (mu s' f' <= mu s f)%nat /\ (c <> 1%nat -> mu s f <> 0%nat -> mu s' f' < mu s f)%nat.
Proof.
  intros I Hk Hs. pose proof (i_fr _ _ I k f Hk) as Fok.
  unfold fstep in Hs. rewrite (mu_unfold s f). destruct (fpc f) eqn:Hpc.
  - destruct (after_deq_read s f _) as [[s1 f1] e1] eqn:E. inversion Hs; subst.
    pose proof (mu_after_deq _ _ _ _ _ _ eq_refl E). lia.
  - unfold frame_ok in Fok. rewrite Hpc in Fok.
    destruct (dequeue_word (cur f)) as [[i w']|] eqn:Ed; [|contradiction].
    destruct (Nat.eqb_spec c 1) as [->|Hc]; simpl in Hs.
    + destruct (after_deq_read s f _) as [[s1 f1] e1] eqn:E. inversion Hs; subst.
      pose proof (mu_after_deq _ _ _ _ _ _ eq_refl E). destruct (_ =? _); lia.
    + rewrite (N.eqb_sym (qget s (deq_q (fkind f)))) in Hs. destruct (cur f =? qget s (deq_q (fkind f))); simpl in Hs.
      * destruct (fkind f); inversion Hs; subst; unfold mu; simpl; lia.
      * destruct (after_deq_read s f _) as [[s1 f1] e1] eqn:E. inversion Hs; subst.
        pose proof (mu_after_deq _ _ _ _ _ _ eq_refl E). lia.
  - unfold frame_ok in Fok. rewrite Hpc in Fok. destruct Fok as [Hi Hcell].
    rewrite (in_range_idxs _ Hi) in Hs. destruct (fkind f).
    + inversion Hs; subst. unfold mu; simpl. lia.
    + destruct (cells s (idx f)); [|contradiction]. inversion Hs; subst. unfold mu; simpl. lia.
  - destruct (after_enq_read s f _) as [[s1 f1] e1] eqn:E. inversion Hs; subst.
    pose proof (mu_after_enq _ _ _ _ _ _ eq_refl E). lia.
  - unfold frame_ok in Fok. rewrite Hpc in Fok. destruct Fok as (Hi & Hfind & Hcell).
    assert (Hh : holds f = Some (idx f)) by (unfold holds; rewrite Hpc; reflexivity).
    destruct (enqueue_word (cur f) (idx f)) as [w'|] eqn:Ee.
    2:{ exfalso. unfold enqueue_word in Ee. destruct (enq_find (cur f)); [discriminate|contradiction]. }
    destruct (Nat.eqb_spec c 1) as [->|Hc]; simpl in Hs.
    + destruct (after_enq_read s f _) as [[s1 f1] e1] eqn:E. inversion Hs; subst.
      pose proof (mu_after_enq _ _ _ _ _ _ eq_refl E). destruct (_ =? _); lia.
    + rewrite (N.eqb_sym (qget s (enq_q (fkind f)))) in Hs. destruct (cur f =? qget s (enq_q (fkind f))); simpl in Hs.
      * destruct (fkind f); inversion Hs; subst; unfold mu; simpl; lia.
      * destruct (after_enq_read s f _) as [[s1 f1] e1] eqn:E. inversion Hs; subst.
        pose proof (mu_after_enq _ _ _ _ _ _ eq_refl E). lia.
  - inversion Hs; subst. unfold mu. rewrite Hpc. lia.
  - inversion Hs; subst. unfold mu. rewrite Hpc. lia.
Qed.

(** Choices that are not a spurious failure. *)
Definition nonspur (cs : list nat) : nat := length (filter (fun c => negb (Nat.eqb c 1)) cs).
Definition spur (cs : list nat) : nat := length (filter (fun c => Nat.eqb c 1) cs).

Lemma spur_nonspur cs : (spur cs + nonspur cs = length cs)%nat.
Proof.
  unfold spur, nonspur. induction cs as [|c r IH]; simpl; auto. destruct (Nat.eqb c 1); simpl; lia.
Qed.

(** A run in which only frame [j] steps. *)
Definition solo_labels (j : nat) (cs : list nat) : list label := map (LStep j) cs.

Lemma solo_run j cs : forall s fs f s' fs' es,
  Inv s fs -> nth_error fs j = Some f ->
  run (s, fs) (solo_labels j cs) = ((s', fs'), es) ->
  exists f', nth_error fs' j = Some f' /\ (mu s' f' <= mu s f - nonspur cs)%nat /\
             (forall i, i <> j -> nth_error fs' i = nth_error fs i).
Proof.
  induction cs as [|c r IH]; intros s fs f s' fs' es I Hj Hr; simpl in Hr.
  - inversion Hr; subst. exists f. split; auto. split; [unfold nonspur; simpl; lia|auto].
  - rewrite Hj in Hr. destruct (fstep s f c) as [[s1 f1] e1] eqn:Hf.
    destruct (run (s1, upd fs j f1) (solo_labels j r)) as [[s2 fs2] e2] eqn:Hr2.
    inversion Hr; subst s' fs' es; clear Hr.
    assert (Hlen : (j < length fs)%nat) by (apply nth_error_Some; congruence).
    pose proof (inv_step _ _ _ _ _ _ _ _ I Hj Hf) as I1.
    destruct (IH s1 (upd fs j f1) f1 s2 fs2 e2 I1 (nth_upd_eq _ _ _ Hlen) Hr2) as (f' & Hf' & Hmu & Hoth).
    exists f'. split; auto. split.
    + destruct (mu_step _ _ _ _ _ _ _ _ I Hj Hf) as [Hle Hlt].
      unfold nonspur in *. simpl. destruct (Nat.eqb_spec c 1) as [->|Hc]; simpl; [lia|].
      destruct (Nat.eq_dec (mu s f) 0); [lia|]. specialize (Hlt Hc n). lia.
    + intros i Hi. rewrite (Hoth i Hi). apply nth_upd_neq. exact Hi.
Qed.

Theorem bounded_solo ls s fs es j f cs k :
  run init_world ls = ((s, fs), es) -> nth_error fs j = Some f ->
  (spur cs <= k)%nat -> (5 + k <= length cs)%nat ->
  forall s' fs' es', run (s, fs) (solo_labels j cs) = ((s', fs'), es') ->
  exists f', nth_error fs' j = Some f' /\ fpc f' = PDone /\
             (forall i, i <> j -> nth_error fs' i = nth_error fs i).
Proof.
  intros Hr Hj Hsp Hlen s' fs' es' Hsolo.
  pose proof (reachable_inv _ _ _ _ Hr) as I.
  destruct (solo_run j cs s fs f s' fs' es' I Hj Hsolo) as (f' & Hf' & Hmu & Hoth).
  exists f'. split; auto. split; auto.
  pose proof (spur_nonspur cs). pose proof (mu_le5 s f).
  assert (Hz : mu s' f' = 0%nat) by lia.
  assert (I' : Inv s' fs') by (apply (inv_run (solo_labels j cs) (s, fs) (s', fs') es' I Hsolo)).
  pose proof (i_fr _ _ I' j f' Hf') as Fok. unfold frame_ok in Fok.
  unfold mu in Hz. destruct (fpc f'); try discriminate; try reflexivity; try contradiction;
    destruct (_ =? _); discriminate.
Qed.

(** Every step of a frame that is not a spurious failure makes progress by itself. *)
Theorem step_progress ls s fs es j f c s' f' es' :
  run init_world ls = ((s, fs), es) -> nth_error fs j = Some f -> fstep s f c = (s', f', es') ->
  c <> 1%nat -> fpc f <> PDone -> (mu s' f' < mu s f)%nat.
Proof.
  intros Hr Hj Hf Hc Hnd. pose proof (reachable_inv _ _ _ _ Hr) as I.
  apply (mu_step _ _ _ _ _ _ _ _ I Hj Hf); auto.
  pose proof (i_fr _ _ I j f Hj) as Fok. unfold frame_ok in Fok. unfold mu.
  destruct (fpc f); try lia; try contradiction; try congruence; destruct (_ =? _); lia.
Qed.
