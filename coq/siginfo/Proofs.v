(** Proofs about the siginfo model (DESIGN 5.17).

    Both the model ([c_lookup]) and the oracle ([kernel_row]) look at [signo] and [code] only
    through equality tests against finitely many constants (the extracted table's [native] and
    [signal] columns, the oracle's codes, SIGCHLD).  So every pair of integers behaves like its
    normal form: itself when it is one of those constants, a fixed fresh number otherwise.  The
    statements are lifted from a [vm_compute] sweep over the normal forms to all of Z x Z. *)
From Coq Require Import ZArith List String Bool Lia.
From SH Require Import gen.Extracted_platform gen.Extracted_siginfo siginfo.Kernel siginfo.Model.
Import ListNotations. Open Scope Z_scope.

(** * Normal forms *)
Definition memz (x : Z) (l : list Z) : bool := existsb (Z.eqb x) l.
Definition fresh (l : list Z) : Z := fold_right Z.max 0 l + 1.
Definition norm (l : list Z) (x : Z) : Z := if memz x l then x else fresh l.

Lemma memz_In x l : memz x l = true <-> In x l.
Proof.
  unfold memz. rewrite existsb_exists. split.
  - intros [y [Hy E]]. apply Z.eqb_eq in E. now subst.
  - intro H. exists x. split; [assumption|apply Z.eqb_refl].
Qed.

Lemma le_fold_max x l : In x l -> x <= fold_right Z.max 0 l.
Proof. induction l as [|a l IH]; simpl; [tauto|]. intros [->|H]; [lia|]. specialize (IH H). lia. Qed.

Lemma fresh_notin l : ~ In (fresh l) l.
Proof. intro H. apply le_fold_max in H. unfold fresh in H. lia. Qed.

(** A constant of the list cannot tell [x] from its normal form. *)
Lemma eqb_norm l v x : In v l -> (v =? x) = (v =? norm l x).
Proof.
  intro Hv. unfold norm. destruct (memz x l) eqn:E; [reflexivity|].
  assert (v <> x) by (intro; subst; apply memz_In in Hv; congruence).
  assert (v <> fresh l) by (intro; subst; exact (fresh_notin l Hv)).
  rewrite (proj2 (Z.eqb_neq _ _)), (proj2 (Z.eqb_neq _ _)); auto.
Qed.

Lemma norm_in l x : In (norm l x) (fresh l :: l).
Proof. unfold norm. destruct (memz x l) eqn:E; [right; now apply memz_In|now left]. Qed.

(** * The constants signo / code are compared with *)
Definition sig_consts : list Z := k_SIGCHLD :: map row_signal c_consts.
Definition code_consts : list Z := map row_native c_consts ++ map k_code kernel_table.
Definition ns (s : Z) : Z := norm sig_consts s.
Definition nc (c : Z) : Z := norm code_consts c.

Lemma c_lookup_in_congr rows s s' c c' :
  (forall r, In r rows -> (row_native r =? c) = (row_native r =? c')) ->
  (forall r, In r rows -> (row_signal r =? s) = (row_signal r =? s')) ->
  c_lookup_in rows s c = c_lookup_in rows s' c'.
Proof.
  induction rows as [|r rows IH]; intros Hc Hs; simpl; [reflexivity|].
  unfold row_matches. rewrite (Hc r), (Hs r) by (now left).
  rewrite IH; [reflexivity| |]; intros; [apply Hc|apply Hs]; now right.
Qed.

Lemma c_lookup_norm s c : c_lookup s c = c_lookup (ns s) (nc c).
Proof.
  unfold c_lookup. apply c_lookup_in_congr; intros r Hr.
  - apply eqb_norm. unfold code_consts. apply in_or_app. left. now apply in_map.
  - apply eqb_norm. unfold sig_consts. right. now apply in_map.
Qed.

Lemma find_congr {A} (f g : A -> bool) l : (forall x, In x l -> f x = g x) -> find f l = find g l.
Proof.
  induction l as [|a l IH]; intro H; simpl; [reflexivity|].
  rewrite (H a) by (now left). destruct (g a); [reflexivity|]. apply IH. intros; apply H; now right.
Qed.

Lemma kernel_row_norm s c : kernel_row s c = kernel_row (ns s) (nc c).
Proof.
  unfold kernel_row. apply find_congr. intros r Hr. unfold krow_matches. f_equal.
  - apply eqb_norm. unfold code_consts. apply in_or_app. right. now apply in_map.
  - f_equal. apply eqb_norm. now left.
Qed.

Lemma sigchld_norm s : (k_SIGCHLD =? s) = (k_SIGCHLD =? ns s).
Proof. apply eqb_norm. now left. Qed.

(** * The finite sweep *)
Definition cause_eqb (a b : cause) : bool :=
  match a, b with
  | C_Unknown, C_Unknown | C_Kernel, C_Kernel => true
  | C_Sent x, C_Sent y =>
      match x, y with
      | S_User, S_User | S_TKill, S_TKill | S_Queue, S_Queue | S_MesgQ, S_MesgQ => true
      | _, _ => false
      end
  | C_Chld x, C_Chld y =>
      match x, y with
      | H_Exited, H_Exited | H_Killed, H_Killed | H_Dumped, H_Dumped | H_Trapped, H_Trapped
      | H_Stopped, H_Stopped | H_Continued, H_Continued => true
      | _, _ => false
      end
  | _, _ => false
  end.

Lemma cause_eqb_eq a b : cause_eqb a b = true -> a = b.
Proof. destruct a as [| |[]|[]], b as [| |[]|[]]; simpl; intro H; try discriminate; reflexivity. Qed.

Definition is_chld (c : cause) : bool := match c with C_Chld _ => true | _ => false end.

(** Everything the property asks of one (signo, code), as a boolean that depends on them only
    through [c_lookup], [kernel_row] and the test against SIGCHLD. *)
Definition ok_parts (v : Z) (kr : option krow) (is_sigchld : bool) : bool :=
  let kc := match kr with Some r => k_cause r | None => C_Unknown end in
  let kf := match kr with Some r => k_fills r | None => false end in
  match decode v with
  | Invalid => false
  | Valid n =>
      cause_eqb (cause_of n) kc && Bool.eqb (has_process n) kf &&
      (0 <=? v) && (v <=? 11) &&
      (if is_chld (cause_of n) then is_sigchld else true)
  end.

Definition ok (s c : Z) : bool := ok_parts (c_lookup s c) (kernel_row s c) (k_SIGCHLD =? s).

Lemma ok_norm s c : ok s c = ok (ns s) (nc c).
Proof. unfold ok. now rewrite <- c_lookup_norm, <- kernel_row_norm, <- sigchld_norm. Qed.

Lemma sweep :
  forallb (fun s => forallb (fun c => ok s c) (fresh code_consts :: code_consts)) (fresh sig_consts :: sig_consts) = true.
Proof. vm_compute. reflexivity. Qed.

Lemma ok_all s c : ok s c = true.
Proof.
  rewrite ok_norm. pose proof sweep as H. rewrite forallb_forall in H.
  specialize (H (ns s) (norm_in _ _)). rewrite forallb_forall in H. exact (H (nc c) (norm_in _ _)).
Qed.

(** * Consequences for the C function *)
Lemma ok_inv s c :
  exists n, decode (c_lookup s c) = Valid n /\
            cause_of n = kernel_cause s c /\
            has_process n = kernel_fills_process s c /\
            0 <= c_lookup s c <= 11 /\
            (is_chld (cause_of n) = true -> s = k_SIGCHLD).
Proof.
  pose proof (ok_all s c) as H. unfold ok, ok_parts in H.
  destruct (decode (c_lookup s c)) as [n|]; [|discriminate]. exists n.
  repeat (apply andb_prop in H; destruct H as [H ?]).
  split; [reflexivity|]. split; [|split; [|split; [|]]].
  - apply cause_eqb_eq in H. exact H.
  - apply eqb_prop in H3. exact H3.
  - split; [apply Z.leb_le|apply Z.leb_le]; assumption.
  - intro E. rewrite E in H0. apply Z.eqb_eq in H0. now symmetry.
Qed.

Lemma decode_valid_in v n : decode v = Valid n -> In (n, v) icause_discriminants.
Proof.
  unfold decode. destruct (negb _); [discriminate|].
  destruct (find _ _) as [[n' v']|] eqn:E; [|discriminate].
  intro H. injection H as <-. apply find_some in E. destruct E as [Hin Hv]. simpl in Hv.
  apply Z.eqb_eq in Hv. now subst.
Qed.

Lemma c_range s c :
  0 <= c_lookup s c <= 11 /\ decode (c_lookup s c) <> Invalid /\
  exists n, In (n, c_lookup s c) icause_discriminants.
Proof.
  destruct (ok_inv s c) as [n [Hd [_ [_ [Hr _]]]]]. split; [exact Hr|]. split.
  - rewrite Hd. discriminate.
  - exists n. now apply decode_valid_in.
Qed.

(** * Consequences for [Origin::extract] *)
Lemma members :
  (forall i, member c_signo_member i = si_signo i) /\ (forall i, member c_code_member i = si_code i) /\
  (forall i, member ex_signal_member i = si_signo i) /\
  (forall i, accessor ex_pid_fn i = si_pid i) /\ (forall i, accessor ex_uid_fn i = si_uid i).
Proof. repeat split; intro i; vm_compute; reflexivity. Qed.

Lemma extract_spec i :
  exists o, extract i = Extracted o /\
            o_signal o = si_signo i /\
            o_cause o = kernel_cause (si_signo i) (si_code i) /\
            o_process o = (if kernel_fills_process (si_signo i) (si_code i) then Some (si_pid i, si_uid i) else None) /\
            (is_chld (o_cause o) = true -> si_signo i = k_SIGCHLD).
Proof.
  destruct members as [M1 [M2 [M3 [M4 M5]]]].
  destruct (ok_inv (si_signo i) (si_code i)) as [n [Hd [Hc [Hp [_ Hs]]]]].
  unfold extract, sighook_signal_cause. rewrite M1, M2, Hd. eexists. split; [reflexivity|]. simpl.
  rewrite M3, M4, M5, Hc, Hp. rewrite Hc in Hs. auto.
Qed.

Lemma cause_matches_kernel i :
  exists o, extract i = Extracted o /\ o_signal o = si_signo i /\
            o_cause o = kernel_cause (si_signo i) (si_code i).
Proof. destruct (extract_spec i) as [o [H1 [H2 [H3 _]]]]. eauto. Qed.

Lemma process_iff i o :
  extract i = Extracted o ->
  o_process o = if kernel_fills_process (si_signo i) (si_code i) then Some (si_pid i, si_uid i) else None.
Proof.
  intro H. destruct (extract_spec i) as [o' [H1 [_ [_ [H4 _]]]]]. rewrite H in H1. injection H1 as <-. exact H4.
Qed.

Lemma kernel_cause_chld s c x : kernel_cause s c = C_Chld x -> In c chld_codes.
Proof.
  unfold kernel_cause, kernel_row. destruct (find _ _) as [r|] eqn:E; [|discriminate].
  apply find_some in E. destruct E as [Hin Hm]. intro Hc.
  unfold krow_matches in Hm. apply andb_prop in Hm. destruct Hm as [Hk _]. apply Z.eqb_eq in Hk. subst c.
  unfold chld_codes. apply in_map. apply filter_In. split; [assumption|].
  (* finite: every row of the oracle whose cause is a child event is a SIGCHLD-only row *)
  assert (F : forallb (fun r => implb (is_chld (k_cause r)) (k_chld_only r)) kernel_table = true) by (vm_compute; reflexivity).
  rewrite forallb_forall in F. specialize (F r Hin). rewrite Hc in F. exact F.
Qed.

Lemma chld_only_for_sigchld i o x :
  extract i = Extracted o -> o_cause o = C_Chld x -> si_signo i = k_SIGCHLD /\ In (si_code i) chld_codes.
Proof.
  intros H Hc. destruct (extract_spec i) as [o' [H1 [_ [H3 [_ H5]]]]]. rewrite H in H1. injection H1 as <-.
  split.
  - apply H5. now rewrite Hc.
  - rewrite Hc in H3. symmetry in H3. eapply kernel_cause_chld; eauto.
Qed.

Lemma exfiltrator_is_extract i : exfil_load (exfil_store [] i) = Some (extract i, []).
Proof. reflexivity. Qed.

Lemma skeletons :
  model_skeleton = ex_skeleton /\ model_exfil_store_skeleton = exfil_store_skeleton /\
  model_exfil_load_skeleton = exfil_load_skeleton.
Proof. vm_compute. repeat split. Qed.

Lemma sigchld_number : k_SIGCHLD = rust_SIGCHLD /\ In ("SIGCHLD"%string, k_SIGCHLD) platform_signals.
Proof. split; [vm_compute; reflexivity|]. vm_compute. tauto. Qed.

(** every discriminant of ICause other than Unknown is produced by the C table (no dead or
    missing row), and the C table produces nothing else *)
Lemma tables_in_sync :
  forall n d, In (n, d) icause_discriminants ->
    d = c_default \/ exists r, In r c_consts /\ row_translated r = d.
Proof.
  assert (F : forallb (fun p => (snd p =? c_default) || existsb (fun r => row_translated r =? snd p) c_consts) icause_discriminants = true)
    by (vm_compute; reflexivity).
  rewrite forallb_forall in F. intros n d Hin. specialize (F _ Hin). cbv beta in F. change (snd (n, d)) with d in F.
  apply orb_prop in F. destruct F as [F|F]; [left; now apply Z.eqb_eq|right].
  apply existsb_exists in F. destruct F as [r [Hr E]]. exists r. split; [assumption|now apply Z.eqb_eq].
Qed.
