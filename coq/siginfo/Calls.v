(** Complete call lists of the functions component [siginfo] is modelled on, as they were when the
    model was written (translator/calls.py extracts the current ones on every run).  A lemma that
    fails names the function whose calls changed: re-read it, adapt the model if needed, then
    restate the list. *)
From Coq Require Import List String.
From SH Require Import gen.Extracted_calls_siginfo.
Import ListNotations. Open Scope string_scope.

Lemma calls_process_extract_ok : calls_process_extract =
  ["sighook_signal_pid"; "sighook_signal_uid"].
Proof. reflexivity. Qed.

Lemma calls_origin_extract_ok : calls_origin_extract =
  ["sighook_signal_cause"; ".has_process"; "Process::extract"; "cfg!"; ".into"].
Proof. reflexivity. Qed.

Lemma calls_has_process_ok : calls_has_process =
  [].
Proof. reflexivity. Qed.
