(** What Linux puts into [siginfo_t] (sigaction(2), "The siginfo_t argument to a SA_SIGINFO
    handler"; mq_notify(3); kernel/signal.c).  This file is an ORACLE: nothing in it is derived
    from /repo.  The numeric values of the [si_code] macros and of SIGCHLD come from the system C
    headers (gen/Extracted_platform.v, measured with gcc on every run); only the result types
    ([cause], [sent], [chld]) are shared with the extracted code.  Every row is compared with the
    running kernel by the forked probes of checks/c17.py on every run (DESIGN 3.4, 5.17).

    Documented behaviour encoded below
    - [SI_USER]   kill(2) (also what the kernel uses for SIGPIPE/SIGXFSZ sent "from" the caller):
                  si_pid, si_uid filled.
    - [SI_KERNEL] sent by the kernel (interval timers, SIGIO without F_SETSIG, RLIMIT_CPU, tty):
                  no sender; the union is zeroed.
    - [SI_QUEUE]  sigqueue(3): si_pid, si_uid, si_value.
    - [SI_TIMER]  POSIX timer: si_timerid, si_overrun, si_value -- NO si_pid/si_uid (the same
                  bytes hold the timer id and the overrun count).
    - [SI_MESGQ]  mq_notify(3): si_pid = sender of the message, si_uid = its real uid, si_value.
    - [SI_ASYNCIO], [SI_SIGIO]: si_band/si_fd or library-defined: no process.
    - [SI_TKILL]  tkill(2)/tgkill(2) (raise, pthread_kill): si_pid, si_uid.
    - [CLD_*]     only for SIGCHLD: si_pid, si_uid (of the child), si_status, si_utime, si_stime.
                  The same small positive numbers mean something else for every other signal
                  (SEGV_MAPERR, POLL_IN, ...), where the union holds an address or a band; since
                  Linux 4.14 the kernel sends [SI_SIGIO] instead of [POLL_*] when F_SETSIG names a
                  signal with codes of its own, such as SIGCHLD.
    - anything else: unknown to the library, and no promise of a process. *)
From Coq Require Import ZArith List String Bool.
From SH Require Import gen.Extracted_platform gen.Extracted_siginfo.
Import ListNotations. Open Scope Z_scope.

Definition k_SIGCHLD : Z :=
  match find (fun p => String.eqb (fst p) "SIGCHLD") platform_signals with
  | Some p => snd p
  | None => 0
  end.

Record krow := { k_code : Z; k_chld_only : bool; k_cause : cause; k_fills : bool }.
Definition KR c o ca f := {| k_code := c; k_chld_only := o; k_cause := ca; k_fills := f |}.

Definition kernel_table : list krow :=
  [ KR c_SI_USER false (C_Sent S_User) true;
    KR c_SI_KERNEL false C_Kernel false;
    KR c_SI_QUEUE false (C_Sent S_Queue) true;
    KR c_SI_TIMER false C_Unknown false;
    KR c_SI_MESGQ false (C_Sent S_MesgQ) true;
    KR c_SI_ASYNCIO false C_Unknown false;
    KR c_SI_SIGIO false C_Unknown false;
    KR c_SI_TKILL false (C_Sent S_TKill) true;
    KR c_CLD_EXITED true (C_Chld H_Exited) true;
    KR c_CLD_KILLED true (C_Chld H_Killed) true;
    KR c_CLD_DUMPED true (C_Chld H_Dumped) true;
    KR c_CLD_TRAPPED true (C_Chld H_Trapped) true;
    KR c_CLD_STOPPED true (C_Chld H_Stopped) true;
    KR c_CLD_CONTINUED true (C_Chld H_Continued) true ].

Definition krow_matches (signo code : Z) (r : krow) : bool :=
  (k_code r =? code) && (negb (k_chld_only r) || (k_SIGCHLD =? signo)).

Definition kernel_row (signo code : Z) : option krow := find (krow_matches signo code) kernel_table.

(** How the signal was sent, as far as the library's vocabulary goes. *)
Definition kernel_cause (signo code : Z) : cause :=
  match kernel_row signo code with Some r => k_cause r | None => C_Unknown end.

(** Does the kernel store a process id and a user id in this record? *)
Definition kernel_fills_process (signo code : Z) : bool :=
  match kernel_row signo code with Some r => k_fills r | None => false end.

(** The codes the table lists as child events (meaningful for SIGCHLD only). *)
Definition chld_codes : list Z := map k_code (filter k_chld_only kernel_table).
