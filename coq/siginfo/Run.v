(** Entry point of the siginfo model for the correspondence check (integer-list interface). *)
From Coq Require Import ZArith List String Bool.
From SH Require Import gen.Extracted_siginfo siginfo.Kernel siginfo.Model.
Import ListNotations. Open Scope Z_scope.

(** Unknown 0, Kernel 1, Sent(User) 2, TKill 3, Queue 4, MesgQ 5, Chld(Exited) 6, Killed 7,
    Dumped 8, Trapped 9, Stopped 10, Continued 11  (same numbering as harness/src/bin/p_c17.rs). *)
Definition cause_code (c : cause) : Z :=
  match c with
  | C_Unknown => 0
  | C_Kernel => 1
  | C_Sent S_User => 2
  | C_Sent S_TKill => 3
  | C_Sent S_Queue => 4
  | C_Sent S_MesgQ => 5
  | C_Chld H_Exited => 6
  | C_Chld H_Killed => 7
  | C_Chld H_Dumped => 8
  | C_Chld H_Trapped => 9
  | C_Chld H_Stopped => 10
  | C_Chld H_Continued => 11
  end.

Definition bz (b : bool) : Z := if b then 1 else 0.

(** input  [signo; code; pid; uid]
    output [valid; signal; cause; has_process; pid; uid; oracle cause; oracle fills; raw C byte]
    ([valid] = 0: the model says the call is undefined behaviour; the other model fields are 0). *)
Definition run_c17 (inp : list Z) : list Z :=
  match inp with
  | [s; c; p; u] =>
      let i := {| si_signo := s; si_code := c; si_pid := p; si_uid := u; si_other := 1515870810 |} in
      let tail := [cause_code (kernel_cause s c); bz (kernel_fills_process s c); sighook_signal_cause i] in
      match extract i with
      | ExtractUB => [0; 0; 0; 0; 0; 0] ++ tail
      | Extracted o =>
          [1; o_signal o; cause_code (o_cause o)] ++
          match o_process o with Some (a, b) => [1; a; b] | None => [0; 0; 0] end ++ tail
      end
  | _ => [-99]
  end.
