(** Model of src/low_level/extract.c + src/low_level/siginfo.rs ([Origin::extract]) and of the
    [WithOrigin] exfiltrator path (DESIGN 5.17).

    Everything specific to the code comes from the generated [Extracted_siginfo]
    (translator/siginfo.py): the rows of [consts[]] with their macro values, the wildcard and the
    default of the first-match loop, the width of the returned integer, the [ICause]
    discriminants, [has_process], the [From<ICause> for Cause] arms, which siginfo member each C
    accessor reads and which accessor feeds [pid] / [uid].  Written here: how a first-match loop,
    a [repr(u8)] enum and a Rust [match] compute.  No proofs in this file. *)
From Coq Require Import ZArith List String Bool.
From SH Require Import gen.Extracted_siginfo.
Import ListNotations. Open Scope Z_scope.

(** * extract.c *)
Definition row := (string * Z * Z * Z)%type.
Definition row_name (r : row) : string := fst (fst (fst r)).
Definition row_native (r : row) : Z := snd (fst (fst r)).
Definition row_signal (r : row) : Z := snd (fst r).
Definition row_translated (r : row) : Z := snd r.

(** the [translated] column and the return value are [uint8_t] *)
Definition trunc (v : Z) : Z := v mod 2 ^ c_translated_bits.

Definition row_matches (signo code : Z) (r : row) : bool :=
  (row_native r =? code) && ((row_signal r =? c_wildcard) || (row_signal r =? signo)).

(** [for (i = 0; i < len; i++) if (match) return consts[i].translated;  return DEFAULT;] *)
Fixpoint c_lookup_in (rows : list row) (signo code : Z) : Z :=
  match rows with
  | [] => trunc c_default
  | r :: rest => if row_matches signo code r then trunc (row_translated r) else c_lookup_in rest signo code
  end.

Definition c_lookup (signo code : Z) : Z := c_lookup_in c_consts signo code.

(** * siginfo.rs *)
(** The byte returned by C is used as a value of the [repr(u8)] enum [ICause].  A byte that is
    not one of its discriminants (or a C return type of another width) is undefined behaviour:
    [Invalid]. *)
Inductive icause := Valid (name : string) | Invalid.

Definition decode (v : Z) : icause :=
  if negb (c_translated_bits =? icause_repr_bits) then Invalid else
  match find (fun p => snd p =? v) icause_discriminants with
  | Some p => Valid (fst p)
  | None => Invalid
  end.

Definition assoc {A} (n : string) (l : list (string * A)) : option A :=
  option_map snd (find (fun p => String.eqb (fst p) n) l).

Definition has_process (n : string) : bool :=
  match assoc n icause_has_process with Some b => b | None => false end.

Definition cause_of (n : string) : cause :=
  match assoc n cause_arms with Some c => c | None => cause_default end.

(** The part of [siginfo_t] that matters: the two discriminating members, the two members that
    are meaningful only for some codes, and [si_other] standing for every other member of the
    union (si_status, si_timerid, si_band, si_addr, ...), which must never be reported. *)
Record siginfo := { si_signo : Z; si_code : Z; si_pid : Z; si_uid : Z; si_other : Z }.

Definition member (name : string) (i : siginfo) : Z :=
  if String.eqb name "si_signo" then si_signo i
  else if String.eqb name "si_code" then si_code i
  else if String.eqb name "si_pid" then si_pid i
  else if String.eqb name "si_uid" then si_uid i
  else si_other i.

(** [sighook_signal_pid] / [sighook_signal_uid]: read the member the C source names. *)
Definition accessor (fn : string) (i : siginfo) : Z :=
  match assoc fn c_accessors with Some m => member m i | None => si_other i end.

Definition sighook_signal_cause (i : siginfo) : Z :=
  c_lookup (member c_signo_member i) (member c_code_member i).

Record origin := { o_signal : Z; o_process : option (Z * Z); o_cause : cause }.
Inductive result := Extracted (o : origin) | ExtractUB.

(** [Origin::extract] on a non-macos target. *)
Definition extract (i : siginfo) : result :=
  match decode (sighook_signal_cause i) with
  | Invalid => ExtractUB
  | Valid n =>
      Extracted {| o_signal := member ex_signal_member i;
                   o_process := if has_process n then Some (accessor ex_pid_fn i, accessor ex_uid_fn i) else None;
                   o_cause := cause_of n |}
  end.

(** Order of operations the model above follows; compared with the extracted skeleton. *)
Definition model_skeleton : list string :=
  ["call sighook_signal_cause"; "if has_process"; "then Some(Process::extract)"; "else None";
   "signal = si_signo"; "cause.into()"]%string.

(** * The exfiltrator path ([WithOrigin] over [WithRawSiginfo])
    [store] copies the record and sends the copy; [load] receives a record and maps
    [Origin::extract] over it.  The channel is modelled as an unbounded FIFO here: capacity,
    loss and ordering of the real 5-slot channel are property C06's business. *)
Definition exfil_store (ch : list siginfo) (i : siginfo) : list siginfo := ch ++ [i].
Definition exfil_load (ch : list siginfo) : option (result * list siginfo) :=
  match ch with [] => None | i :: rest => Some (extract i, rest) end.
Definition model_exfil_store_skeleton : list string := ["copy_info"; "send_copy"]%string.
Definition model_exfil_load_skeleton : list string := ["recv"; "map_origin_extract"]%string.
