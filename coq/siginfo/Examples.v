(** Non-vacuity: concrete records, one per situation the property names (DESIGN 3.6). *)
From Coq Require Import ZArith List String Bool.
From SH Require Import gen.Extracted_platform gen.Extracted_siginfo siginfo.Kernel siginfo.Model siginfo.Proofs.
Import ListNotations. Open Scope Z_scope.

Definition SI s c p u := {| si_signo := s; si_code := c; si_pid := p; si_uid := u; si_other := 99 |}.
Definition OR s p c := Extracted {| o_signal := s; o_process := p; o_cause := c |}.

(** kill(2) from process 4321 of user 1000, SIGUSR1 *)
Example ex_kill : extract (SI 10 c_SI_USER 4321 1000) = OR 10 (Some (4321, 1000)) (C_Sent S_User).
Proof. vm_compute. reflexivity. Qed.
(** raise / tgkill *)
Example ex_tkill : extract (SI 15 c_SI_TKILL 4321 1000) = OR 15 (Some (4321, 1000)) (C_Sent S_TKill).
Proof. vm_compute. reflexivity. Qed.
(** sigqueue on a real-time signal *)
Example ex_queue : extract (SI 34 c_SI_QUEUE 1 0) = OR 34 (Some (1, 0)) (C_Sent S_Queue).
Proof. vm_compute. reflexivity. Qed.
(** mq_notify *)
Example ex_mesgq : extract (SI 10 c_SI_MESGQ 77 5) = OR 10 (Some (77, 5)) (C_Sent S_MesgQ).
Proof. vm_compute. reflexivity. Qed.
(** the kernel itself (setitimer, SIGIO, RLIMIT_CPU): no process although the bytes are there *)
Example ex_kernel : extract (SI 14 c_SI_KERNEL 4321 1000) = OR 14 None C_Kernel.
Proof. vm_compute. reflexivity. Qed.
(** POSIX timer: the bytes of si_pid/si_uid hold the timer id and the overrun count *)
Example ex_timer : extract (SI 14 c_SI_TIMER 7 3) = OR 14 None C_Unknown.
Proof. vm_compute. reflexivity. Qed.
(** child exited / stopped: SIGCHLD *)
Example ex_chld_exited : extract (SI k_SIGCHLD c_CLD_EXITED 555 1000) = OR k_SIGCHLD (Some (555, 1000)) (C_Chld H_Exited).
Proof. vm_compute. reflexivity. Qed.
Example ex_chld_stopped : extract (SI k_SIGCHLD c_CLD_STOPPED 555 1000) = OR k_SIGCHLD (Some (555, 1000)) (C_Chld H_Stopped).
Proof. vm_compute. reflexivity. Qed.
(** the same number 1 on SIGSEGV (SEGV_MAPERR) or SIGIO (POLL_IN) is not a child event and
    the union holds an address / a band there: nothing is reported *)
Example ex_segv_maperr : extract (SI 11 1 555 1000) = OR 11 None C_Unknown.
Proof. vm_compute. reflexivity. Qed.
Example ex_poll_in : extract (SI 29 1 65 0) = OR 29 None C_Unknown.
Proof. vm_compute. reflexivity. Qed.
(** kill(2) of SIGCHLD is a kill, not a child event *)
Example ex_kill_sigchld : extract (SI k_SIGCHLD c_SI_USER 4321 0) = OR k_SIGCHLD (Some (4321, 0)) (C_Sent S_User).
Proof. vm_compute. reflexivity. Qed.
(** far outside anything known *)
Example ex_far : extract (SI (-5) 123456789 1 2) = OR (-5) None C_Unknown.
Proof. vm_compute. reflexivity. Qed.

(** both sides of the iff occur *)
Example ex_fills : kernel_fills_process 10 c_SI_USER = true /\ kernel_fills_process 10 c_SI_KERNEL = false /\
                   kernel_fills_process 10 c_SI_TIMER = false /\ kernel_fills_process 10 c_CLD_EXITED = false /\
                   kernel_fills_process k_SIGCHLD c_CLD_EXITED = true.
Proof. vm_compute. repeat split. Qed.

(** every ICause variant is reachable through the C function *)
Example ex_all_variants_reached :
  forallb (fun p => existsb (fun s => existsb (fun c => c_lookup s c =? snd p) (fresh code_consts :: code_consts))
                            (fresh sig_consts :: sig_consts)) icause_discriminants = true.
Proof. vm_compute. reflexivity. Qed.

(** what an out-of-range byte would mean *)
Example ex_invalid : decode 12 = Invalid /\ decode 255 = Invalid /\ decode 11 = Valid "Continued".
Proof. vm_compute. repeat split. Qed.
