(** Model of src/low_level/signal_details.rs: [signal_name] and [emulate_default_handler].

    The table, the early-return test and the action list of each match arm come from the
    generated file [Extracted_details] (translator/details.py); nothing about the code is
    written here except how an action list is executed against the process/kernel state. *)
From Coq Require Import ZArith List String Bool.
From SH Require Import gen.Extracted_details details.Kernel.
Import ListNotations. Open Scope Z_scope.

(** What the caller's process looks like when [emulate_default_handler s] is entered:
    is [s] currently blocked (true inside [s]'s own handler installed without SA_NODEFER),
    and is its disposition the default or some handler. *)
Record pstate := { blocked : bool; dfl : bool }.

(** [exec s acts st]: run the actions in order; [None] = fell off the end (function returns
    [Ok(())]/the raise result and the process continues). *)
Fixpoint exec (s : Z) (acts : list action) (st : pstate) : option outcome :=
  match acts with
  | [] => None
  | a :: rest =>
    match a with
    | ARestoreDefault => exec s rest {| blocked := blocked st; dfl := true |}
    | AUnblock => exec s rest {| blocked := false; dfl := dfl st |}
    | ARaiseSelf =>
        (* SIGKILL/SIGSTOP can be neither blocked nor caught *)
        if unblockable s then
          match kernel_default s with Continues => exec s rest st | o => Some o end
        else if blocked st then exec s rest st            (* stays pending *)
        else if dfl st then
          match kernel_default s with Continues => exec s rest st | o => Some o end
        else Some HandlerRuns
    | ARaiseConst c =>
        if unblockable c then
          match kernel_default c with Continues => exec s rest st | o => Some o end
        else Some HandlerRuns   (* not used by the code; conservative *)
    | AAbort => Some (TerminatedBy SIGABRT)
    | AExit => Some Exits
    end
  end.

Definition d_name (d : string * Z * kind) : string := fst (fst d).
Definition d_sig (d : string * Z * kind) : Z := snd (fst d).
Definition d_kind (d : string * Z * kind) : kind := snd d.

Definition lookup (s : Z) : option (string * Z * kind) :=
  find (fun d => d_sig d =? s) details.

Definition signal_name (s : Z) : option string := option_map d_name (lookup s).
Definition known (s : Z) : bool := match lookup s with Some _ => true | None => false end.

Definition arm (k : kind) : list action :=
  match k with Ignore => arm_Ignore | Stop => arm_Stop | Term => arm_Term end.

Definition finish (o : option outcome) : outcome :=
  match o with Some o => o | None => Continues end.

Definition emulate (st : pstate) (s : Z) : outcome :=
  if existsb (Z.eqb s) early_signals then finish (exec s early_actions st)
  else match lookup s with
       | None => Error
       | Some d => finish (exec s (arm (d_kind d)) st)
       end.

(** Encoding of outcomes for the correspondence check (one integer per outcome). *)
Definition outcome_code (o : outcome) : Z :=
  match o with
  | TerminatedBy s => s
  | Continues => 0
  | Stopped => -1
  | Error => -2
  | HandlerRuns => -3
  | Exits => -4
  end.
