(** Proofs about the model of emulate_default_handler (DESIGN 5.16). *)
From Coq Require Import ZArith List String Bool.
From SH Require Import gen.Extracted_details gen.Extracted_platform details.Kernel details.Model.
Import ListNotations. Open Scope Z_scope.

Definition outcome_eqb (a b : outcome) : bool :=
  match a, b with
  | TerminatedBy x, TerminatedBy y => x =? y
  | Stopped, Stopped | Continues, Continues | Error, Error
  | HandlerRuns, HandlerRuns | Exits, Exits => true
  | _, _ => false
  end.

Lemma outcome_eqb_eq a b : outcome_eqb a b = true -> a = b.
Proof.
  destruct a, b; simpl; intro H; try discriminate; try reflexivity.
  apply Z.eqb_eq in H. now subst.
Qed.

Definition check_entry (st : pstate) (d : string * Z * kind) : bool :=
  outcome_eqb (emulate st (d_sig d)) (kernel_default (d_sig d)).

(** Finite sweep over the extracted table (its length is whatever the source says). *)
Lemma all_entries st : forallb (check_entry st) details = true.
Proof. destruct st as [[] []]; vm_compute; reflexivity. Qed.

Lemma lookup_some s d : lookup s = Some d -> In d details /\ d_sig d = s.
Proof.
  unfold lookup. intro H. apply find_some in H. destruct H as [Hin Heq].
  apply Z.eqb_eq in Heq. auto.
Qed.

Lemma matches_kernel st s : known s = true -> emulate st s = kernel_default s.
Proof.
  unfold known. destruct (lookup s) as [d|] eqn:E; [intros _|discriminate].
  apply lookup_some in E. destruct E as [Hin Hs]. subst s.
  pose proof (all_entries st) as H. rewrite forallb_forall in H.
  apply outcome_eqb_eq. exact (H d Hin).
Qed.

Lemma early_known : forallb known early_signals = true.
Proof. vm_compute; reflexivity. Qed.

Lemma unknown_is_error st s : known s = false -> emulate st s = Error.
Proof.
  intro Hk. unfold emulate.
  destruct (existsb (Z.eqb s) early_signals) eqn:E.
  - apply existsb_exists in E. destruct E as [e [Hin He]]. apply Z.eqb_eq in He. subst e.
    pose proof early_known as H. rewrite forallb_forall in H. rewrite (H s Hin) in Hk. discriminate.
  - unfold known in Hk. destruct (lookup s); [discriminate|reflexivity].
Qed.

Definition name_ok (d : string * Z * kind) : bool :=
  existsb (fun p => (String.eqb (fst p) (d_name d)) && (snd p =? d_sig d)) platform_signals.

Lemma all_names : forallb name_ok details = true.
Proof. vm_compute; reflexivity. Qed.

Lemma names_are_platform_names s nm : signal_name s = Some nm -> In (nm, s) platform_signals.
Proof.
  unfold signal_name. destruct (lookup s) as [d|] eqn:E; simpl; [|discriminate].
  intro H. injection H as H. subst nm.
  apply lookup_some in E. destruct E as [Hin Hs]. subst s.
  pose proof all_names as A. rewrite forallb_forall in A. specialize (A d Hin).
  unfold name_ok in A. apply existsb_exists in A. destruct A as [[n v] [Hp Hq]].
  simpl in Hq. apply andb_true_iff in Hq. destruct Hq as [H1 H2].
  apply String.eqb_eq in H1. apply Z.eqb_eq in H2. subst. exact Hp.
Qed.

(** Non-vacuity: a known signal, emulated from inside its own handler (blocked, handler
    installed), really is terminated by that signal in the model. *)
Example in_handler_term :
  known 15 = true /\ emulate {| blocked := true; dfl := false |} 15 = TerminatedBy 15.
Proof. vm_compute. split; reflexivity. Qed.

(** The two halves above glued into one total statement: for EVERY integer and every calling
    context the outcome is the kernel's default when the number is in the table and [Error]
    otherwise; hence the context (inside the signal's own handler or not, disposition already
    default or not) never matters, and the emulation never lets a user handler run nor ends
    the process by a plain exit. *)
Lemma total_spec st s :
  emulate st s = if known s then kernel_default s else Error.
Proof.
  destruct (known s) eqn:K; [apply matches_kernel | apply unknown_is_error]; exact K.
Qed.

Lemma context_independent st st' s : emulate st s = emulate st' s.
Proof. rewrite !total_spec. reflexivity. Qed.

Lemma kernel_default_shape s :
  kernel_default s = Continues \/ kernel_default s = Stopped \/ kernel_default s = TerminatedBy s.
Proof.
  unfold kernel_default. destruct (mem s kernel_ignores); [auto|].
  destruct (mem s kernel_stops); auto.
Qed.

Lemma never_handler_nor_exit st s : emulate st s <> HandlerRuns /\ emulate st s <> Exits.
Proof.
  rewrite total_spec. destruct (known s).
  - destruct (kernel_default_shape s) as [H|[H|H]]; rewrite H; split; discriminate.
  - split; discriminate.
Qed.

(** Only the signal itself can be the cause of death: the emulation never terminates the
    process with a different signal (SIGABRT, SIGKILL, ...) than the one asked for. *)
Lemma terminated_by_itself st s t : emulate st s = TerminatedBy t -> t = s.
Proof.
  rewrite total_spec. destruct (known s); [|discriminate].
  destruct (kernel_default_shape s) as [H|[H|H]]; rewrite H; intro E; try discriminate.
  injection E as E. now subst.
Qed.
