(** Executable entry points of the details model for the correspondence check
    (integer-list interface, see ocaml/main_template.ml). *)
From Coq Require Import ZArith List String Ascii Bool.
From SH Require Import gen.Extracted_details details.Kernel details.Model.
Import ListNotations. Open Scope Z_scope.

Definition zbool (z : Z) : bool := negb (z =? 0).
Definition bz (b : bool) : Z := if b then 1 else 0.

Fixpoint chars (s : string) : list Z :=
  match s with
  | EmptyString => []
  | String c r => Z.of_N (N_of_ascii c) :: chars r
  end.

(** input [blocked; dfl; s]  ->  [emulate code; kernel_default code; known; name chars...] *)
Definition run_c16 (inp : list Z) : list Z :=
  match inp with
  | [b; d; s] =>
      let st := {| blocked := zbool b; dfl := zbool d |} in
      outcome_code (emulate st s) :: outcome_code (kernel_default s) :: bz (known s) ::
      match signal_name s with Some n => chars n | None => [] end
  | _ => [-99]
  end.
