(** The operating system's default dispositions on this platform (Linux, signal(7)).
    This table is an ORACLE: it is not derived from /repo.  Every run validates it against the
    running kernel with forked probes for all numbers 1..64 that can be raised (DESIGN 5.16). *)
From Coq Require Import ZArith List Bool.
Import ListNotations. Open Scope Z_scope.

Inductive outcome :=
| TerminatedBy (s : Z)   (* wait status: killed by signal s *)
| Stopped                (* wait status: stopped *)
| Continues              (* nothing visible happens *)
| Error                  (* the call returns an error and does nothing else *)
| HandlerRuns            (* a user handler would run: outside the scope of the property *)
| Exits.                 (* plain exit: never the right emulation *)

Definition kernel_ignores : list Z := [17; 18; 23; 28].   (* CHLD CONT URG WINCH *)
Definition kernel_stops : list Z := [19; 20; 21; 22].     (* STOP TSTP TTIN TTOU *)

Definition mem (s : Z) (l : list Z) : bool := existsb (Z.eqb s) l.

Definition kernel_default (s : Z) : outcome :=
  if mem s kernel_ignores then Continues
  else if mem s kernel_stops then Stopped
  else TerminatedBy s.

Definition unblockable (s : Z) : bool := (s =? 9) || (s =? 19).
