(** The complete call sequences (after cfg filtering for linux/x86_64) of the functions the
    emulation consists of: [emulate_default_handler], [restore_default], [low_level::raise],
    [low_level::abort].  details/Model.v interprets the action lists [arm_*]; these lemmas pin
    everything else those functions do, so that a call that is added, dropped or replaced
    (kill instead of raise, a look at the current disposition before restoring it) breaks the
    tie even where the action tokens still match. *)
From Coq Require Import List String.
From SH Require Import gen.Extracted_details.
Import ListNotations. Open Scope string_scope.

Lemma calls_emulate_ok : calls_emulate =
  ["return"; "low_level::raise"; ".iter"; ".find"; ".map"; ".ok_or_else"; "Error::from_raw_os_error"; "?"; "low_level::raise"; "restore_default";
   "mem::zeroed"; "prepare_sigset"; "libc::sigemptyset"; "libc::sigaddset"; "prepare_sigset"; "libc::sigprocmask"; "ptr::null_mut";
   "low_level::raise"; "libc::abort"].
Proof. reflexivity. Qed.

Lemma calls_restore_default_ok : calls_restore_default = ["mem::zeroed"; "libc::sigaction"; "ptr::null_mut"; "Error::last_os_error"].
Proof. reflexivity. Qed.

Lemma calls_raise_ok : calls_raise = ["libc::raise"; "Error::last_os_error"].
Proof. reflexivity. Qed.

Lemma calls_abort_ok : calls_abort = ["libc::abort"].
Proof. reflexivity. Qed.
