(** C01 - Removing an action is quiescent: never runs again, freed outside any handler. *)
From Coq Require Import List NArith ZArith Bool.
From SH Require Import base.Pool gen.Extracted_halflock halflock.Model halflock.Skeleton registry.Skeleton
  registry.Model registry.Inv registry.PcInv registry.Events registry.Deliver registry.Content registry.Holder
  registry.Quiesce registry.Returns registry.Examples.
Import ListNotations.

(** No delivery, in any reachable world of any schedule with any number of deliveries and
    mutator calls (also a delivery nested on the thread that is in the middle of a removal: the
    flat pool lets any frame step at any time), holds a registry or fallback snapshot that has
    been released. *)
Theorem C01_no_use_after_free :
  forall (q_ok s_ok : Z -> bool) os0 ls s fs es,
  run q_ok s_ok (sh_init os0, []) ls = ((s, fs), es) ->
  forall k f i p, nth_error fs k = Some f ->
    (vdt f = RHold i p -> ~ In p (freed (dt s))) /\ (vfb f = RHold i p -> ~ In p (freed (fb s))).
Proof. exact no_use_after_free. Qed.

(** Every snapshot is released at most once. *)
Theorem C01_no_double_free :
  forall (q_ok s_ok : Z -> bool) os0 ls s fs es,
  run q_ok s_ok (sh_init os0, []) ls = ((s, fs), es) -> NoDup (freed (dt s)) /\ NoDup (freed (fb s)).
Proof. exact no_double_free. Qed.

(** Releases (operation 11) - of a snapshot and with it of the actions only it still refers to -
    are never performed by a delivery: every step of a delivery consists of handler operations
    only. *)
Theorem C01_released_by_mutators_only :
  forall (q_ok s_ok : Z -> bool) os0 ls s fs es,
  run q_ok s_ok (sh_init os0, []) ls = ((s, fs), es) ->
  forall k f sg s' f' es', nth_error fs k = Some f -> kind f = KDeliver sg ->
    fstep q_ok s_ok s f = (s', f', es') ->
    forallb handler_op es' = true /\ forallb (fun e => negb (forbidden_in_handler e)) es' = true.
Proof. exact delivery_steps_are_handler_ops. Qed.

(** After [unregister(id)] has returned true - in the world of the return and in every world of
    every continuation - no delivery of that signal has the action still to run, and the current
    registry state does not contain it. *)
Theorem C01_unregister_quiescent :
  forall (q_ok s_ok : Z -> bool) os0 ls s fs es,
  run q_ok s_ok (sh_init os0, []) ls = ((s, fs), es) ->
  forall k g sg id, nth_error fs k = Some g -> kind g = KMut (MUnregister sg id) -> fpc g = PDone -> res g = 1%Z ->
    (forall j h, nth_error fs j = Some h -> sig_of (kind h) = sg -> ~ In id (map fst (pending h))) /\
    ~ In id (map fst (slot_acts (cur s) sg)).
Proof. exact unregister_true_is_quiescent. Qed.

(** The same for removal by signal (and thereby for the drop of an owner, which calls
    unregister for each recorded id). *)
Theorem C01_unregister_signal_quiescent :
  forall (q_ok s_ok : Z -> bool) os0 ls s fs es,
  run q_ok s_ok (sh_init os0, []) ls = ((s, fs), es) ->
  forall k g sg id, nth_error fs k = Some g -> kind g = KMut (MUnregSignal sg) -> fpc g = PDone -> In id (removed g) ->
    (forall j h, nth_error fs j = Some h -> sig_of (kind h) = sg -> ~ In id (map fst (pending h))) /\
    ~ In id (map fst (slot_acts (cur s) sg)).
Proof. exact unregister_signal_is_quiescent. Qed.
