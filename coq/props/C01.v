(** C01 - Removing an action is quiescent: never runs again, freed outside any handler. *)
From Coq Require Import List NArith ZArith Bool.
From SH Require Import base.Pool gen.Extracted_halflock halflock.Model halflock.Skeleton registry.Skeleton registry.Model registry.Inv registry.PcInv registry.Events registry.Deliver.
Import ListNotations.

(** No delivery, in any reachable world of any schedule with any number of deliveries and
    mutator calls (also a delivery nested on the thread that is in the middle of a removal: the
    flat pool lets any frame step at any time), holds a registry or fallback snapshot that has
    been released. *)
Theorem C01_no_use_after_free :
  forall (q_ok s_ok : Z -> bool) os0 ls s fs es,
  run q_ok s_ok (sh_init os0, []) ls = ((s, fs), es) ->
  forall k f i p, nth_error fs k = Some f ->
    (vdt f = RHold i p -> ~ In p (freed (dt s))) /\ (vfb f = RHold i p -> ~ In p (freed (fb s))).
Proof. exact no_use_after_free. Qed.

(** Every snapshot is released at most once. *)
Theorem C01_no_double_free :
  forall (q_ok s_ok : Z -> bool) os0 ls s fs es,
  run q_ok s_ok (sh_init os0, []) ls = ((s, fs), es) -> NoDup (freed (dt s)) /\ NoDup (freed (fb s)).
Proof. exact no_double_free. Qed.
