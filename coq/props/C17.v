(** C17 - Reported signal origin equals the kernel's facts, and is absent when unknown. *)
From Coq Require Import ZArith List String.
From SH Require Import gen.Extracted_platform gen.Extracted_siginfo siginfo.Kernel siginfo.Model siginfo.Proofs siginfo.Examples.
Import ListNotations. Open Scope Z_scope.

(** For every record (all signal numbers and all codes in Z): extraction is defined, carries the
    delivered signal number, and its cause is the kernel's (the C table and the Rust enum agree). *)
Theorem C17_cause_matches_kernel :
  forall i : siginfo, exists o : origin,
    extract i = Extracted o /\ o_signal o = si_signo i /\ o_cause o = kernel_cause (si_signo i) (si_code i).
Proof. exact cause_matches_kernel. Qed.

(** The C function only ever returns a discriminant of the repr(u8) enum (0..11). *)
Theorem C17_c_result_is_a_discriminant :
  forall signo code : Z,
    0 <= c_lookup signo code <= 11 /\ decode (c_lookup signo code) <> Invalid /\
    exists n : string, In (n, c_lookup signo code) icause_discriminants.
Proof. exact c_range. Qed.

(** A process is reported exactly when the kernel stores one, and then it is the record's
    si_pid / si_uid; otherwise nothing is reported, whatever the bytes contain. *)
Theorem C17_process_iff :
  forall (i : siginfo) (o : origin), extract i = Extracted o ->
    o_process o = if kernel_fills_process (si_signo i) (si_code i) then Some (si_pid i, si_uid i) else None.
Proof. exact process_iff. Qed.

(** Child events are reported only for SIGCHLD (and only for the CLD_ codes). *)
Theorem C17_chld_only_for_sigchld :
  forall (i : siginfo) (o : origin) (x : chld), extract i = Extracted o -> o_cause o = C_Chld x ->
    si_signo i = k_SIGCHLD /\ In (si_code i) chld_codes.
Proof. exact chld_only_for_sigchld. Qed.

(** Through the exfiltrator = by hand. *)
Theorem C17_exfiltrator_is_extract :
  forall i : siginfo, exfil_load (exfil_store [] i) = Some (extract i, []).
Proof. exact exfiltrator_is_extract. Qed.

(** Every ICause discriminant is the default or some row's translated value. *)
Theorem C17_tables_in_sync :
  forall (n : string) (d : Z), In (n, d) icause_discriminants ->
    d = c_default \/ exists r : row, In r c_consts /\ row_translated r = d.
Proof. exact tables_in_sync. Qed.

(** The model follows the order of operations found in the source. *)
Theorem C17_skeletons :
  model_skeleton = ex_skeleton /\ model_exfil_store_skeleton = exfil_store_skeleton /\
  model_exfil_load_skeleton = exfil_load_skeleton.
Proof. exact skeletons. Qed.

(** SIGCHLD of the C headers = SIGCHLD of the libc crate. *)
Theorem C17_sigchld_number :
  k_SIGCHLD = rust_SIGCHLD /\ In ("SIGCHLD"%string, k_SIGCHLD) platform_signals.
Proof. exact sigchld_number. Qed.
