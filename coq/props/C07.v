(** C07 - Channel cells are never accessed concurrently; values dropped exactly once. *)
From Coq Require Import List Arith NArith ZArith Bool String.
From SH Require Import base.Pool gen.Extracted_channel channel.Defs channel.Word channel.Model channel.Skeleton
  channel.Inv channel.Account channel.Reach channel.ModelRA channel.InvRA channel.Refine.
Import ListNotations.
Local Open Scope N_scope.

(** Under the release/acquire + relaxed view semantics whose orderings are READ from the
    regenerated [Extracted_channel] (channel.rs: Relaxed loads, Release on the successful
    enqueue CAS, Acquire on the successful dequeue CAS; raw.rs: swap(Release) / load(Acquire) of
    the channel pointer), for every schedule, every number of senders/receivers (spawned with a
    bottom view or inheriting the view of any existing operation), and every read-from choice:
    no operation ever accesses a cell without having the cell's previous access in its view
    (reason 2), nor uses the channel without its construction in its view (reason 1).  All cell
    accesses are writes (`= Some(v)`, `take()`), so this is data-race freedom of the cells. *)
Theorem C07_race_free : forall ls k f why,
  nth_error (snd (rrun rinit_world ls)) k = Some f -> rpcf f <> RRace why.
Proof. exact ra_race_free. Qed.

(** The invariant behind it (ownership + what views and messages carry), in every reachable
    world of the view semantics. *)
Theorem C07_ra_invariant : forall ls, RInv (fst (rrun rinit_world ls)) (snd (rrun rinit_world ls)).
Proof. exact ra_reachable_inv. Qed.

(** The SC model (the one validated in lock-step against the real code) is the "read the latest
    message" fragment of the view semantics: every world it reaches corresponds to a reachable
    world of ModelRA (same queue words as last messages, same cells, same frames). *)
Theorem C07_sc_worlds_are_view_worlds : forall ls w es,
  run init_world ls = (w, es) -> exists rls, world_rel w (rrun rinit_world rls).
Proof. exact sc_worlds_are_ra_worlds. Qed.

(** The orderings the proof consumes, as extracted from the source. *)
Theorem C07_orderings :
  has_acq deq_ord_cas_ok = true /\ has_rel enq_ord_cas_ok = true /\
  (forall k, has_acq (slot_ord k) = true) /\ has_rel slot_init_swap_ord = true /\
  channel_unsafe_impls = ["Send: T: Send"; "Sync: T: Send"]%string.
Proof.
  split; [exact deq_acquires|]. split; [exact enq_releases|]. split; [exact slot_acquires|].
  split; [exact slot_releases|apply channel_struct_ok].
Qed.

(** Value accounting (SC interleavings, every schedule): a multiset equation per value, and the
    None/Some discipline of the cells. *)
Theorem C07_drop_once : forall ls s fs es,
  run init_world ls = ((s, fs), es) ->
  (forall x, cnt (is_send x) fs =
             (cnt (in_hand x) fs + occn x (channel_contents s) + cnt (took x) fs + occn x (dropped s))%nat) /\
  clobbered s = [] /\
  (forall i, In i (decode (qe s)) -> cells s i = None) /\
  (forall i, In i (decode (qf s)) -> cells s i <> None) /\
  (forall k f, nth_error fs k = Some f ->
     match fpc f, fkind f with
     | PCell, KSend _ => cells s (idx f) = None
     | PCell, KRecv => cells s (idx f) <> None
     | (PEnqLoad | PEnqCas), KSend v => cells s (idx f) = Some v
     | (PEnqLoad | PEnqCas), KRecv => cells s (idx f) = None
     | _, _ => True
     end).
Proof. exact drop_once. Qed.

(** When every operation has returned (the only time the channel can be dropped: Drop needs
    exclusive ownership): sent = dropped with the channel + received + discarded when full. *)
Theorem C07_drop_once_quiescent : forall ls s fs es,
  run init_world ls = ((s, fs), es) -> (forall k f, nth_error fs k = Some f -> fpc f = PDone) ->
  forall x, cnt (is_send x) fs = (occn x (channel_contents s) + cnt (took x) fs + occn x (dropped s))%nat.
Proof. exact drop_once_quiescent. Qed.

(** Non-vacuity of the view semantics: a receiver reads a STALE `full` (sees nothing although a
    send has completed), a later attempt acquires the value; nobody races. *)
Example C07_example_stale :
  let w := rrun rinit_world
    ([RSpawn (KSend 7) None; RStep 0 1] ++ repeat (RStep 0 0) 5 ++   (* send: reads the pointer, completes *)
     [RSpawn KRecv None; RStep 1 1; RStep 1 0;                 (* recv: pointer, then reads the OLD message of full *)
      RSpawn KRecv None; RStep 2 1; RStep 2 5] ++ repeat (RStep 2 0) 4) in
  (map rpcf (snd w), map rgot (snd w), List.length (mf (fst w))) =
  ([RDone; RDone; RDone], [None; None; Some 7%nat], 3%nat).
Proof. vm_compute. reflexivity. Qed.
