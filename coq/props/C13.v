(** C13 - Self-pipe wake: one non-blocking byte per delivery; fd owned and closed once. *)
From Coq Require Import ZArith List Bool Arith.
From SH Require Import gen.Extracted_pipe pipe.Model pipe.Spec pipe.Theorems.
Import ListNotations.
Open Scope nat_scope.

Theorem C13_one_nonblocking_byte :
  forall accept, accept_empty accept ->
  forall (w : list chan_spec) (h : list op), world_in_bytes w ->
    (forall sig, delivery_ok accept (run accept w h) sig) /\
    (forall ch, chan_ok_full (getc (chans (run accept w h)) ch)).
Proof. exact one_nonblocking_byte. Qed.

Theorem C13_fd_lifecycle :
  forall accept (w : list chan_spec) (h : list op),
    let st := run accept w h in
    let trace := rev (evs st) in
    (forall id r, nth_error (regs st) id = Some r ->
                  count_close id trace = closes_expected (r_status r)) /\
    (forall id, length (regs st) <= id -> count_close id trace = 0) /\
    (forall id pre post, trace = pre ++ EClose id :: post ->
                         forallb (fun e => negb (uses id e)) post = true).
Proof. exact fd_lifecycle. Qed.

Theorem C13_iterator_wake_nonblocking :
  forall accept clk c,
    snd (fst (wake_arm iter_wake_method)) = 1%Z /\
    sys_result accept clk c (fst (fst (wake_arm iter_wake_method))) (snd (fst (wake_arm iter_wake_method)))
               (snd (wake_arm iter_wake_method)) <> WBlocks.
Proof. exact iterator_wake_nonblocking. Qed.
