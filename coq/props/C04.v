(** C04 - A pre-existing handler is chained: once per delivery, first, same arguments. *)
From Coq Require Import List NArith ZArith Bool.
From SH Require Import base.Pool gen.Extracted_halflock halflock.Model halflock.Skeleton registry.Skeleton
  registry.Model registry.Inv registry.PcInv registry.Events registry.Content registry.Holder registry.Chain registry.Examples.
Import ListNotations.

(** For all initial dispositions [os0] (not containing the library's own handler), all
    schedules: a delivery that found the library installed and loads the data snapshot goes on
    to [PPrev si ..] - the call of the previous handler with its convention [si] - exactly when
    the disposition before the take-over was a real handler, and then to the actions of the
    current registry state; otherwise straight to the actions.  Also in the window in which the
    first registration has not completed (fallback) and while other signals are registered. *)
Theorem C04_chained :
  forall (q_ok s_ok : Z -> bool) os0 ls s fs es,
  no_lib os0 ->
  run q_ok s_ok (sh_init os0, []) ls = ((s, fs), es) ->
  forall k d sg s' d' es', nth_error fs k = Some d -> kind d = KDeliver sg -> fpc d = PDtPtr ->
    aborted (dt s) = false -> aborted (fb s) = false ->
    fstep q_ok s_ok s d = (s', d', es') ->
    fpc d' = match is_foreign (os0_get os0 sg) with
             | Some si => PPrev si (slot_acts (cur s) sg)
             | None => after_runs (slot_acts (cur s) sg)
             end.
Proof. exact chained_dispatch. Qed.

(** From [PPrev si acts]: exactly one call (operation 21) with the delivery's signal and the
    convention flag (0: one argument; 1: three arguments with this delivery's info and context),
    before the actions [acts]. *)
Theorem C04_called_once_first :
  forall (q_ok s_ok : Z -> bool) s f si acts,
  fpc f = PPrev si acts -> aborted (dt s) || aborted (fb s) = false ->
  fstep q_ok s_ok s f = (s, set_pc f (after_runs acts), [ev 21 0 (sig_of (kind f)) (bz si) 1]).
Proof. exact prev_called_once_first. Qed.

(** ... and never again in that delivery. *)
Theorem C04_not_called_later :
  forall (q_ok s_ok : Z -> bool) s f s' f' es,
  (exists a, fpc f = PRun a) \/ fpc f = PDtDec \/ fpc f = PFbDec \/ fpc f = PDone ->
  fstep q_ok s_ok s f = (s', f', es) ->
  forallb (fun e => negb (Z.eqb (e_op e) 21)) es = true /\
  ((exists a, fpc f' = PRun a) \/ fpc f' = PDtDec \/ fpc f' = PFbDec \/ fpc f' = PDone).
Proof. exact no_prev_call_later. Qed.
