(** C11 - close() is sticky, unblocks every consumer, and never strands an async poller. *)
From Coq Require Import List Arith ZArith Bool.
From SH Require Import base.Pool gen.Extracted_iter iter.Model iter.Base iter.Skeleton iter.Close iter.Adapter.
Import ListNotations.

(** The closed flag, once set, stays set: for every schedule [ls1] reaching a world where it is
    set and every continuation [ls2] (any number of deliveries, consumer calls, further close()
    and add_signal calls). *)
Theorem C11_sticky :
  forall raw c ls1 ls2,
  closed (w_sh (reach raw c ls1)) = true -> closed (w_sh (reach raw c (ls1 ++ ls2))) = true.
Proof. exact sticky. Qed.

(** ... and it is set as soon as any close() call (any handle clone, any thread) is past its
    store, in particular once it has returned. *)
Theorem C11_close_sets_flag :
  forall raw c ls k p, 1 <= c ->
  nth_error (w_fr (reach raw c ls)) k = Some (mkFrame FK p) -> p <> F0 ->
  closed (w_sh (reach raw c ls)) = true.
Proof. exact close_called_closed. Qed.

(** In every reachable world of every schedule: if the consumer's last call returned Pending,
    that call was poll_signal with the non-blocking callback, the callback was consulted in that
    very call (at least once) and its last answer was "nothing available"; hence a wake-up is
    armed, or it has already fired and is outstanding. *)
Theorem C11_pending_means_armed :
  forall raw c ls, 1 <= c ->
  let w := reach raw c ls in
  cpc_ (w_co w) = CIdle -> cres_ (w_co w) = RPending ->
  cop (w_co w) = OPoll /\ cb_last (w_co w) = Some false /\ 1 <= ncb (w_co w) /\
  (armed (w_sh w) = true \/ notified (w_sh w) = true).
Proof. exact pending_means_armed. Qed.

(** Once some close() call has returned ([closew]), a consumer sitting at its blocking read finds
    a byte: nobody stays blocked. *)
Theorem C11_not_blocked_after_close :
  forall raw c ls, 1 <= c ->
  let w := reach raw c ls in
  closew (w_sh w) = true -> cpc_ (w_co w) = CRead -> 0 < pipe (w_sh w).
Proof. exact not_blocked_after_close. Qed.

(** From every reachable world in which some close() has returned - whatever call the consumer
    is in the middle of (blocked in wait / Forever::next, scanning, at the callback) or has just
    started - the consumer run alone is back in its caller within MAX_SIGNUM + 3 of its own
    steps, and what it then reports is not Pending. *)
Theorem C11_unblocks :
  forall raw c ls, 1 <= c ->
  let w := reach raw c ls in
  closew (w_sh w) = true ->
  exists n, n <= MAX_SIGNUM + 3 /\ cpc_ (w_co (csolo n w)) = CIdle /\
            (n = 0 \/ cres_ (w_co (csolo n w)) <> RPending).
Proof. exact unblocks. Qed.

(** The infinite iterator ends: a Forever::next (or poll_signal) whose first test finds the flag
    set returns None / Closed at that very step. *)
Theorem C11_forever_ends :
  forall w, closed (w_sh w) = true -> cpc_ (w_co w) = CP1 ->
  cpc_ (w_co (cstep_w w)) = CIdle /\ cres_ (w_co (cstep_w w)) = RClosed.
Proof. exact forever_ends. Qed.

(** An asynchronous poller parked after Pending is not stranded by close(): once close() has
    returned its wake-up notification is outstanding. *)
Theorem C11_close_notifies_parked :
  forall raw c ls, 1 <= c ->
  let w := reach raw c ls in
  closew (w_sh w) = true -> cpc_ (w_co w) = CIdle -> cres_ (w_co w) = RPending -> notified (w_sh w) = true.
Proof. exact close_notifies_parked. Qed.

(** Non-vacuity: the four-step schedule of the original defect (closed-load false; close: store,
    wake; poll_pending's closed-load true) now ends in Closed, with the callback never consulted. *)
Example C11_window_example :
  let w := reach false 8 ([LSpawnA 10; LStep 0; LStep 0; LStep 0; LCall OForever; LCons 0; LCall OPoll; LSpawnK] ++ repeat (LCons 0) 129 ++ [LStep 1; LStep 1; LCons 0; LCons 0]) in
  closew (w_sh w) = true /\ cpc_ (w_co w) = CIdle /\ cres_ (w_co w) = RClosed /\ ncb (w_co w) = 0.
Proof. vm_compute. repeat split; reflexivity. Qed.

(** ---- the asynchronous adapters (signal-hook-tokio, signal-hook-async-std) ----
    [adapter_poll_next pm w] is what Stream::poll_next returns: the adapter's extracted
    PollResult -> Poll map applied to the result of its single poll_signal call;
    [adapter_cb cm] is its has_signals: the extracted Poll -> Result<bool> map applied to the
    runtime's [poll_read].  The reactor's contract is the pair of hypotheses on [poll_read]
    (an ASSUMPTION about tokio / async-io): nothing readable => Pending with the task's waker
    registered for readability of the read end; a byte readable => it is read.

    If an adapter's poll_next returns Poll::Pending in a reachable world of any schedule, then in
    that very call the callback was consulted and last answered "nothing"; for this adapter that
    answer means poll_read returned Pending and registered the waker; and the registration is
    still armed or has fired and is outstanding.  For both adapters. *)
Theorem C11_adapter_pending_means_waker_registered :
  forall (poll_read : shared -> rres * shared),
  (forall s, pipe s = 0 -> poll_read s = (RdPending, set_pipe s 0 true (notified s))) ->
  (forall s p, pipe s = S p -> poll_read s = (RdReady 1, set_pipe s p (armed s) (notified s))) ->
  forall pm cm,
  (pm, cm) = (tokio_poll_map, tokio_cb_map) \/ (pm, cm) = (asyncstd_poll_map, asyncstd_cb_map) ->
  forall raw c ls, 1 <= c ->
  let w := reach raw c ls in
  cpc_ (w_co w) = CIdle -> adapter_poll_next pm w = APending ->
  cop (w_co w) = OPoll /\ 1 <= ncb (w_co w) /\ cb_last (w_co w) = Some false /\
  (forall s, fst (adapter_cb poll_read cm s) = Some false ->
             fst (poll_read s) = RdPending /\ armed (snd (poll_read s)) = true) /\
  (armed (w_sh w) = true \/ notified (w_sh w) = true).
Proof.
  intros poll_read H0 H1 pm cm [E|E] raw c ls Hc; inversion E; subst.
  - exact (adapter_pending_means_waker_registered poll_read H0 H1 _ _ raw c ls tokio_good Hc).
  - exact (adapter_pending_means_waker_registered poll_read H0 H1 _ _ raw c ls asyncstd_good Hc).
Qed.

(** Once close() has returned, for both adapters: a poll_next in progress is back within
    MAX_SIGNUM + 3 steps of the polling task with Ready(None) or a last Ready(Some) (never
    Poll::Pending, never a panic); a poll_next that finds the flag set at its first test answers
    Ready(None) at that step - the stream ends; and a task parked on an earlier Poll::Pending has
    its wake-up notification outstanding, so it polls again. *)
Theorem C11_adapter_closed_ends_stream :
  forall pm cm,
  (pm, cm) = (tokio_poll_map, tokio_cb_map) \/ (pm, cm) = (asyncstd_poll_map, asyncstd_cb_map) ->
  forall raw c ls, 1 <= c ->
  let w := reach raw c ls in
  closew (w_sh w) = true ->
  (cop (w_co w) = OPoll -> cpc_ (w_co w) <> CIdle ->
     exists n, 1 <= n /\ n <= MAX_SIGNUM + 3 /\ cpc_ (w_co (csolo n w)) = CIdle /\
               (adapter_poll_next pm (csolo n w) = AReadyNone \/ adapter_poll_next pm (csolo n w) = AReadySome)) /\
  (cpc_ (w_co w) = CP1 -> cpc_ (w_co (cstep_w w)) = CIdle /\ adapter_poll_next pm (cstep_w w) = AReadyNone) /\
  (cpc_ (w_co w) = CIdle -> adapter_poll_next pm w = APending -> notified (w_sh w) = true).
Proof.
  intros pm cm [E|E] raw c ls Hc; inversion E; subst.
  - exact (adapter_closed_ends_stream _ _ raw c ls tokio_good Hc).
  - exact (adapter_closed_ends_stream _ _ raw c ls asyncstd_good Hc).
Qed.

(** The contract is satisfiable (and is what the model's callback step does). *)
Example C11_reactor_contract_example :
  let poll_read := fun s => match pipe s with
                            | O => (RdPending, set_pipe s 0 true (notified s))
                            | S p => (RdReady 1, set_pipe s p (armed s) (notified s))
                            end in
  (forall s, pipe s = 0 -> poll_read s = (RdPending, set_pipe s 0 true (notified s))) /\
  (forall s p, pipe s = S p -> poll_read s = (RdReady 1, set_pipe s p (armed s) (notified s))).
Proof. simpl. split; intros; rewrite H; reflexivity. Qed.
