(** C11 - close() is sticky, unblocks every consumer, and never strands an async poller. *)
From Coq Require Import List Arith ZArith Bool.
From SH Require Import base.Pool gen.Extracted_iter iter.Model iter.Base iter.Skeleton iter.Close.
Import ListNotations.

(** The closed flag, once set, stays set: for every schedule [ls1] reaching a world where it is
    set and every continuation [ls2] (any number of deliveries, consumer calls, further close()
    and add_signal calls). *)
Theorem C11_sticky :
  forall raw c ls1 ls2,
  closed (w_sh (reach raw c ls1)) = true -> closed (w_sh (reach raw c (ls1 ++ ls2))) = true.
Proof. exact sticky. Qed.

(** ... and it is set as soon as any close() call (any handle clone, any thread) is past its
    store, in particular once it has returned. *)
Theorem C11_close_sets_flag :
  forall raw c ls k p, 1 <= c ->
  nth_error (w_fr (reach raw c ls)) k = Some (mkFrame FK p) -> p <> F0 ->
  closed (w_sh (reach raw c ls)) = true.
Proof. exact close_called_closed. Qed.

(** In every reachable world of every schedule: if the consumer's last call returned Pending,
    that call was poll_signal with the non-blocking callback, the callback was consulted in that
    very call (at least once) and its last answer was "nothing available"; hence a wake-up is
    armed, or it has already fired and is outstanding. *)
Theorem C11_pending_means_armed :
  forall raw c ls, 1 <= c ->
  let w := reach raw c ls in
  cpc_ (w_co w) = CIdle -> cres_ (w_co w) = RPending ->
  cop (w_co w) = OPoll /\ cb_last (w_co w) = Some false /\ 1 <= ncb (w_co w) /\
  (armed (w_sh w) = true \/ notified (w_sh w) = true).
Proof. exact pending_means_armed. Qed.

(** Once some close() call has returned ([closew]), a consumer sitting at its blocking read finds
    a byte: nobody stays blocked. *)
Theorem C11_not_blocked_after_close :
  forall raw c ls, 1 <= c ->
  let w := reach raw c ls in
  closew (w_sh w) = true -> cpc_ (w_co w) = CRead -> 0 < pipe (w_sh w).
Proof. exact not_blocked_after_close. Qed.

(** From every reachable world in which some close() has returned - whatever call the consumer
    is in the middle of (blocked in wait / Forever::next, scanning, at the callback) or has just
    started - the consumer run alone is back in its caller within MAX_SIGNUM + 3 of its own
    steps, and what it then reports is not Pending. *)
Theorem C11_unblocks :
  forall raw c ls, 1 <= c ->
  let w := reach raw c ls in
  closew (w_sh w) = true ->
  exists n, n <= MAX_SIGNUM + 3 /\ cpc_ (w_co (csolo n w)) = CIdle /\
            (n = 0 \/ cres_ (w_co (csolo n w)) <> RPending).
Proof. exact unblocks. Qed.

(** The infinite iterator ends: a Forever::next (or poll_signal) whose first test finds the flag
    set returns None / Closed at that very step. *)
Theorem C11_forever_ends :
  forall w, closed (w_sh w) = true -> cpc_ (w_co w) = CP1 ->
  cpc_ (w_co (cstep_w w)) = CIdle /\ cres_ (w_co (cstep_w w)) = RClosed.
Proof. exact forever_ends. Qed.

(** An asynchronous poller parked after Pending is not stranded by close(): once close() has
    returned its wake-up notification is outstanding. *)
Theorem C11_close_notifies_parked :
  forall raw c ls, 1 <= c ->
  let w := reach raw c ls in
  closew (w_sh w) = true -> cpc_ (w_co w) = CIdle -> cres_ (w_co w) = RPending -> notified (w_sh w) = true.
Proof. exact close_notifies_parked. Qed.

(** Non-vacuity: the four-step schedule of the original defect (closed-load false; close: store,
    wake; poll_pending's closed-load true) now ends in Closed, with the callback never consulted. *)
Example C11_window_example :
  let w := reach false 8 ([LSpawnA 10; LStep 0; LStep 0; LStep 0; LCall OForever; LCons 0; LCall OPoll; LSpawnK] ++ repeat (LCons 0) 129 ++ [LStep 1; LStep 1; LCons 0; LCons 0]) in
  closew (w_sh w) = true /\ cpc_ (w_co w) = CIdle /\ cres_ (w_co w) = RClosed /\ ncb (w_co w) = 0.
Proof. vm_compute. repeat split; reflexivity. Qed.
