(** C14 - Forbidden and invalid signals are refused before anything changes (DESIGN 5.14).

    [entry o k f sig st] is the interpreter of entry/Model.v run on the skeleton of entry point [f]
    that translator/entry.py regenerates from /repo on every run; [o] is the operating system's
    verdict (query / set, measured by the probe), [k] the kind of descriptor handed to the pipe
    entry points, [st] ANY state satisfying the invariant [wf] (established by the initial state
    and preserved by every entry point: [C14_invariant]). *)
From Coq Require Import ZArith NArith List.
From SH Require Import gen.Extracted_entry entry.Model entry.Entry.
Import ListNotations. Open Scope Z_scope.

Theorem C14_forbidden_list :
  forall s : Z, is_forbidden s = true <->
                (s = SIGKILL \/ s = SIGSTOP \/ s = SIGILL \/ s = SIGFPE \/ s = SIGSEGV).
Proof. exact forbidden_list. Qed.

Theorem C14_checked :
  forall (o : os) (k : fdkind) (f : fn_id) (sig : Z) (st : state),
  In f checked_eps -> k <> FdBad -> wf o st -> (f = FSignalsNew -> inst st = []) ->
  let r := entry o k f sig st in
  (is_forbidden sig = true -> r_out r = Panic PForbidden /\ refused o f sig st r) /\
  (iterator_ep f = true -> c_int sig -> out_of_table sig = true -> r_out r = Panic PIndex /\ refused o f sig st r) /\
  (f = FFlagCondDefault -> known sig = false ->
     r_out r = Err (EPrecheck EINVAL) /\ r_state r = st /\ refused o f sig st r) /\
  (is_forbidden sig = false -> (iterator_ep f = true -> out_of_table sig = false) ->
   (f = FFlagCondDefault -> known sig = true) ->
     (accepts o sig = false -> r_out r = Err EOs /\ refused o f sig st r) /\
     (accepts o sig = true -> registered f sig st r /\
        (iterator_ep f = false -> r_out r = OkId (next_id st) /\ r_kept r = all_params f))).
Proof. exact checked_all. Qed.

Theorem C14_unchecked_passthrough :
  forall (o : os) (k : fdkind) (f : fn_id) (sig : Z) (st : state),
  In f unchecked_eps -> wf o st ->
  let r := entry o k f sig st in
  (accepts o sig = true -> r_out r = OkId (next_id st) /\ registered f sig st r) /\
  (accepts o sig = false ->
     r_out r = Err EOs /\ same_core st (r_state r) /\
     fallback (r_state r) = (if os_query o sig then Some sig else fallback st) /\
     fallback_inert (r_state r) /\ r_released r = all_params f /\ r_kept r = [] /\ r_leaked r = []).
Proof. exact unchecked_all. Qed.

Theorem C14_unchecked_kill_stop :
  forall (o : os) (k : fdkind) (f : fn_id) (sig : Z) (st : state),
  In f unchecked_eps -> wf o st -> sig = SIGKILL \/ sig = SIGSTOP ->
  os_query o sig = true -> os_set o sig = false ->
  let r := entry o k f sig st in
  is_forbidden sig = true /\ r_out r = Err EOs /\ fallback (r_state r) = Some sig /\
  same_core st (r_state r) /\ fallback_inert (r_state r).
Proof. exact unchecked_kill_stop. Qed.

Theorem C14_invariant :
  (forall (o : os) (d : Z -> disp), (forall s, d s <> Lib) -> wf o (init_state d)) /\
  (forall (o : os) (k : fdkind) (f : fn_id) (sig : Z) (st : state),
     In f (checked_eps ++ unchecked_eps) -> wf o st -> (next_id st + 1 < 2 ^ 128)%N ->
     (f = FSignalsNew -> inst st = []) -> wf o (r_state (entry o k f sig st))).
Proof. exact invariant_all. Qed.
