(** C18 - Registry calls always terminate when overlapping deliveries terminate. *)
From Coq Require Import List NArith ZArith Bool.
From SH Require Import base.Pool gen.Extracted_halflock gen.Extracted_registry halflock.Model halflock.Safety halflock.Skeleton registry.Skeleton
  registry.Model registry.Inv registry.PcInv registry.Events registry.Deliver registry.Progress registry.Fair.
Import ListNotations.

(** Deadlock freedom: in every reachable live world the step of every unfinished activity takes
    effect (its program counter or one of the half-locks changes) - EXCEPT an attempt to take the
    [data] write mutex while it is held, and then the holder is another, unfinished call.
    Deliveries never wait (C03); the [race_fallback] mutex is only taken under [data] and is
    always free when asked for, so there is no lock-order cycle. *)
Theorem C18_no_deadlock :
  forall (q_ok s_ok : Z -> bool) os0 ls s fs es,
  run q_ok s_ok (sh_init os0, []) ls = ((s, fs), es) -> live s ->
  forall k f, nth_error fs k = Some f -> fpc f <> PDone ->
    (fpc (snd (fst (fstep q_ok s_ok s f))) <> fpc f \/ dt (fst (fst (fstep q_ok s_ok s f))) <> dt s \/ fb (fst (fst (fstep q_ok s_ok s f))) <> fb s) \/
    (fpc f = MDtLock /\ crit (dt s) <> CNone /\
     exists j g, j <> k /\ nth_error fs j = Some g /\ vdt g = WIn /\ fpc g <> PDone).
Proof. exact no_deadlock. Qed.

Theorem C18_fallback_mutex_uncontended :
  forall s fs k f, PInv s fs -> nth_error fs k = Some f -> fpc f = MFbLock -> crit (fb s) = CNone.
Proof. exact fb_free_when_asked. Qed.

(** What a spinning writer waits for is a delivery inside a read section - which completes on
    its own within its measure (C03_bounded_solo). *)
Theorem C18_waits_only_for_deliveries :
  forall (q_ok s_ok : Z -> bool) os0 ls s fs es,
  run q_ok s_ok (sh_init os0, []) ls = ((s, fs), es) ->
  forall i, (i < 2)%nat -> cget (dt s) i <> 0%nat ->
    exists j g sg, nth_error fs j = Some g /\ kind g = KDeliver sg /\ in_slot i (vdt g) = true /\ fpc g <> PDone.
Proof. exact barrier_waits_only_for_deliveries. Qed.

(** Once no delivery is inside a read section of either half-lock, a mutator call that is not
    locked out completes on its own within 75 of its own steps, from wherever it is. *)
Theorem C18_completes_alone :
  forall (q_ok s_ok : Z -> bool) os0 ls s fs es,
  run q_ok s_ok (sh_init os0, []) ls = ((s, fs), es) -> live s ->
  forall k f m, nth_error fs k = Some f -> kind f = KMut m ->
    idle (dt s) -> idle (fb s) -> not_locked_out s f ->
    let '(s', f', _) := solo q_ok s_ok 75 s f in fpc f' = PDone.
Proof. exact mutator_completes_alone. Qed.

(** The seen flags are sticky after the generation flip (so the two slots need never be idle
    at the same time). *)
Theorem C18_sticky_seen :
  forall h old st s0 s1 it h' es st' t0 t1 it',
  barrier_step h old st s0 s1 it = (h', es) -> crit h' = CSwapped old st' t0 t1 it' ->
  (st = SFlip \/ st = SHint \/ (st = SPoll0 /\ s0 = false) \/ (st = SPoll1 /\ s1 = false)) ->
  (s0 = true -> t0 = true) /\ (s1 = true -> t1 = true).
Proof. exact barrier_sticky. Qed.

(** A register call for a forbidden signal panics before any lock is taken. *)
Theorem C18_panic_wedges_nobody :
  forall (q_ok s_ok : Z -> bool) s f sg tag s' f' es,
  kind f = KMut (MRegister sg tag) -> fpc f = MStart -> existsb (Z.eqb sg) forbidden = true ->
  fstep q_ok s_ok s f = (s', f', es) ->
  s' = s /\ (aborted (dt s) || aborted (fb s) = false -> fpc f' = PDone /\ vdt f' = vdt f /\ vfb f' = vfb f).
Proof. exact forbidden_register_touches_nothing. Qed.

Local Open Scope nat_scope.
(** Fair termination.  From every reachable live world - any number of deliveries and of
    register / unregister / unregister_signal calls in flight at any points of their code, no
    further activity arriving - and under every schedule made of rounds that each step every
    activity at least once (in any order, with repetitions: any cut of a fair infinite schedule),
    every activity has returned after [D' w + 75 * n] rounds, where [D' w] is the sum of the
    remaining-step measures of the deliveries in [w] and [n] the number of activities. *)
Theorem C18_fair_termination :
  forall (q_ok s_ok : Z -> bool) os0 ls w es,
  run q_ok s_ok (sh_init os0, []) ls = (w, es) -> live (fst w) -> (N.of_nat (length (snd w)) <= MAX_GUARDS)%N ->
  forall rounds, (forall r, In r rounds -> covers (length (snd w)) r) ->
  (D' w + 75 * length (snd w) <= length rounds)%nat ->
  all_done (snd (steps q_ok s_ok w (concat rounds))).
Proof. exact fair_termination_reachable. Qed.

(** The two phases separately: each covering round lowers the deliveries' measure while a
    delivery is unfinished, and - once they are finished - the calls' measure while a call is. *)
Theorem C18_round_deliveries :
  forall (q_ok s_ok : Z -> bool) r w, FInv w ->
  (D' (steps q_ok s_ok w r) <= D' w)%nat /\
  forall k g, In k r -> nth_error (snd w) k = Some g -> del_pending g = true -> (D' (steps q_ok s_ok w r) < D' w)%nat.
Proof. exact D_round. Qed.

Theorem C18_round_calls :
  forall (q_ok s_ok : Z -> bool) r w, P2 w ->
  P2 (steps q_ok s_ok w r) /\ (MM' (steps q_ok s_ok w r) <= MM' w)%nat /\
  forall k g, In k r -> nth_error (snd w) k = Some g -> enabled (fst w) g -> (MM' (steps q_ok s_ok w r) < MM' w)%nat.
Proof. exact MM_round. Qed.
