(** C03 - Dispatch is async-signal-safe: bounded steps, no lock, no wait, no alloc/free. *)
From Coq Require Import List NArith ZArith Bool.
From SH Require Import base.Pool gen.Extracted_halflock halflock.Model halflock.Skeleton registry.Skeleton
  registry.Model registry.Inv registry.PcInv registry.Events registry.Deliver.
Import ListNotations.

(** In every reachable world of every schedule, whatever a delivery does in one step is a load,
    a fetch_add, a fetch_sub, the call of the previous handler or of an action - never a lock or
    unlock, a swap (publication of a fresh allocation), a release, a yield, a spin, a sigaction
    or a panic; and every such operation succeeds at once (ok = 1: nothing is waited for). *)
Theorem C03_handler_ops_only :
  forall (q_ok s_ok : Z -> bool) os0 ls s fs es,
  run q_ok s_ok (sh_init os0, []) ls = ((s, fs), es) ->
  forall k f sg s' f' es', nth_error fs k = Some f -> kind f = KDeliver sg ->
    fstep q_ok s_ok s f = (s', f', es') ->
    forallb handler_op es' = true /\ forallb (fun e => negb (forbidden_in_handler e)) es' = true.
Proof. exact delivery_steps_are_handler_ops. Qed.

(** From every reachable world - i.e. wherever every other activity, including a register or
    unregister call on the very same thread, is paused - a delivery run on its own finishes
    within [rmeasure] of its own steps (at most 12 + the longest action list ever published).
    The pool-size guard excludes the MAX_GUARDS abort of read() (DESIGN 3.7). *)
Theorem C03_bounded_solo :
  forall (q_ok s_ok : Z -> bool) os0 ls s fs es,
  run q_ok s_ok (sh_init os0, []) ls = ((s, fs), es) ->
  forall k f sg, nth_error fs k = Some f -> kind f = KDeliver sg ->
    (N.of_nat (length fs) <= MAX_GUARDS)%N -> live s ->
    let '(s', f', es') := solo q_ok s_ok (rmeasure s f) s f in
    fpc f' = PDone /\ forallb handler_op es' = true.
Proof. exact delivery_completes. Qed.

Theorem C03_bound_is_small :
  forall s f, (rmeasure s f <= 12 + Nat.max (hist_len s) (match fpc f with PPrev _ a | PRun a => length a | _ => 0 end))%nat.
Proof. exact rmeasure_bound. Qed.
