(** C16 - Default-action emulation matches what the kernel would have done. *)
From Coq Require Import ZArith List String.
From SH Require Import gen.Extracted_details gen.Extracted_platform details.Kernel details.Model details.Emulate details.Skeleton.
Open Scope Z_scope.

Theorem C16_matches_kernel :
  forall (st : pstate) (s : Z), known s = true -> emulate st s = kernel_default s.
Proof. exact matches_kernel. Qed.

Theorem C16_unknown_is_error :
  forall (st : pstate) (s : Z), known s = false -> emulate st s = Error.
Proof. exact unknown_is_error. Qed.

Theorem C16_names_are_platform_names :
  forall (s : Z) (nm : string), signal_name s = Some nm -> In (nm, s) platform_signals.
Proof. exact names_are_platform_names. Qed.

Theorem C16_total :
  forall (st : pstate) (s : Z), emulate st s = if known s then kernel_default s else Error.
Proof. exact total_spec. Qed.

Theorem C16_context_independent :
  forall (st st' : pstate) (s : Z), emulate st s = emulate st' s.
Proof. exact context_independent. Qed.

Theorem C16_never_handler_nor_exit :
  forall (st : pstate) (s : Z), emulate st s <> HandlerRuns /\ emulate st s <> Exits.
Proof. exact never_handler_nor_exit. Qed.

Theorem C16_terminated_by_itself :
  forall (st : pstate) (s t : Z), emulate st s = TerminatedBy t -> t = s.
Proof. exact terminated_by_itself. Qed.
