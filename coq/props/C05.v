(** C05 - Registry behaves as independent per-signal ordered multisets with unique ids.

    [c_run] / [c_step] : the concrete model (coq/seqreg/Model.v), an interpreter of the statement
    skeletons extracted from signal-hook-registry/src/lib.rs; [s_run] : the simple specification
    (coq/seqreg/Spec.v).  [query_ok] / [set_ok] : the OS oracle (does sigaction accept the number),
    [os0] : the dispositions installed before the library, both arbitrary. *)
From Coq Require Import ZArith NArith List Bool.
From SH Require Import gen.Extracted_seqreg seqreg.Spec seqreg.Model seqreg.Refine seqreg.Examples.
Import ListNotations.
Open Scope Z_scope.

(** Every history over {register, register_sigaction, unregister (any (sig,id) pair), unregister_signal,
    deliver}, every signal number: same outputs as the specification, and [abs] commutes.
    Guard (explicit): fewer than 2^128 successful registrations, i.e. the u128 counter has not wrapped
    past its starting point. *)
Theorem C05_refines :
  forall (query_ok set_ok : Z -> bool) (os0 : list (Z * pre_disp)) (ops : list op),
    let spec := s_run (2 ^ 128) (fun s => zmem s forbidden) (fun s => query_ok s && set_ok s) (pre_of os0)
                      (s_init 1) ops in
    let impl := c_run query_ok set_ok (c_init os0) ops in
    (successes (snd spec) < 2 ^ 128)%N ->
    snd impl = snd spec /\ abs (fst impl) = fst spec.
Proof. exact refines. Qed.

(** Ids returned by successful registrations are pairwise distinct (proved on the concrete model, with
    the wrap modelled; holds up to and including 2^128 registrations). *)
Theorem C05_ids_unique :
  forall (query_ok set_ok : Z -> bool) (os0 : list (Z * pre_disp)) (ops : list op),
    let outs := snd (c_run query_ok set_ok (c_init os0) ops) in
    (successes outs <= 2 ^ 128)%N -> NoDup (ids_of outs).
Proof. exact ids_unique. Qed.

(** After ANY history (no guard): unregister (sig,id) returns true iff that id is registered for sig,
    removes exactly that action (every signal's action list is the old one minus that entry, same
    order), and changes nothing else. *)
Theorem C05_unregister_exact :
  forall (query_ok set_ok : Z -> bool) (os0 : list (Z * pre_disp)) (ops : list op) (sig : Z) (id : N),
    let c := fst (c_run query_ok set_ok (c_init os0) ops) in
    let r := c_step query_ok set_ok c (Unregister sig id) in
    snd r = OBool (existsb (fun a => (fst a =? id)%N) (c_actions c sig)) /\
    (forall s, c_actions (fst r) s =
               filter (fun a => negb ((s =? sig) && (fst a =? id)%N)) (c_actions c s)) /\
    c_taken (fst r) = c_taken c /\ next_id (data (fst r)) = next_id (data c) /\ os (fst r) = os c.
Proof. exact unregister_exact. Qed.

(** After ANY history (no guard): an operation on signal s1 (unregister_signal included) leaves the
    actions, the disposition and what a delivery runs for every other signal s2 unchanged. *)
Theorem C05_independent :
  forall (query_ok set_ok : Z -> bool) (os0 : list (Z * pre_disp)) (ops : list op) (o : op) (s2 : Z),
    op_sig o <> s2 ->
    let c := fst (c_run query_ok set_ok (c_init os0) ops) in
    let c' := fst (c_step query_ok set_ok c o) in
    c_actions c' s2 = c_actions c s2 /\
    os_get (os c') s2 = os_get (os c) s2 /\
    snd (c_step query_ok set_ok c' (Deliver s2)) = snd (c_step query_ok set_ok c (Deliver s2)).
Proof. exact independent. Qed.

(** Once a registration for a signal has succeeded, in EVERY continuation (no guard, also with zero
    actions left) the disposition of that signal is the library's handler with flags exactly
    SA_RESTART | SA_SIGINFO (both values measured from the libc crate, the or-ed terms extracted from
    Slot::new). *)
Theorem C05_disposition_sticky :
  forall (query_ok set_ok : Z -> bool) (os0 : list (Z * pre_disp)) (ops1 : list op) (o : op) (ops2 : list op) (i : N),
    snd (c_step query_ok set_ok (fst (c_run query_ok set_ok (c_init os0) ops1)) o) = OId i ->
    os_get (os (fst (c_run query_ok set_ok (c_init os0) (ops1 ++ o :: ops2)))) (op_sig o) =
    DLib (Z.lor SA_RESTART SA_SIGINFO).
Proof. exact disposition_sticky. Qed.
