(** C10 - Signal iterators report only real, registered, not-yet-reported deliveries. *)
From Coq Require Import List Arith ZArith Bool.
From SH Require Import base.Pool gen.Extracted_iter iter.Model iter.Base iter.Skeleton iter.Sound.
Import ListNotations.

(** In every reachable world of every schedule (deliveries landing in the middle of a scan,
    several batches scanned concurrently, bursts of any length, before or after close), for every
    signal number: records yielded + records pending in the slot <= store steps performed
    <= deliveries of that signal begun (a delivery begins only once add_signal has published it). *)
Theorem C10_counts :
  forall raw c ls s,
  let sh := w_sh (reach raw c ls) in
  length (ylog sh s) + length (slot sh s) <= nstored sh s /\ nstored sh s <= length (begun sh s).
Proof. exact counts. Qed.

(** Only watched signal numbers are ever yielded (no neighbours, nothing out of range) - there is
    no hypothesis on the closed flag: also after close. *)
Theorem C10_only_watched :
  forall raw c ls s,
  let sh := w_sh (reach raw c ls) in
  ylog sh s <> [] -> watch sh s = true /\ s < MAX_SIGNUM.
Proof. exact only_watched. Qed.

(** Info-carrying exfiltrators (the bounded FIFO of C06): the records yielded for [s] followed by
    the records still pending are exactly the records whose store took effect, in that order
    (per-signal order = store order, nothing duplicated, nothing invented); at most CHAN_SLOTS are
    pending; and every record occurs among the yielded ones at most as often as among the stored
    ones, and there at most as often as deliveries carrying it have begun (each delivery yields at
    most one record, each record is the information of an actual delivery). *)
Theorem C10_fifo :
  forall c ls s,
  let sh := w_sh (reach true c ls) in
  stlog sh s = ylog sh s ++ slot sh s /\ length (slot sh s) <= CHAN_SLOTS /\
  forall v, occ v (ylog sh s) <= occ v (stlog sh s) /\ occ v (stlog sh s) <= occ v (begun sh s).
Proof. exact fifo. Qed.

(** SignalOnly: what position [s] yields is the number [s], and at most one report is pending. *)
Theorem C10_signal_only :
  forall c ls s,
  let sh := w_sh (reach false c ls) in
  Forall (eq (zn s)) (ylog sh s) /\ length (slot sh s) <= 1.
Proof. exact signal_only. Qed.

(** Non-vacuity: a burst of 7 deliveries of signal 3 (records 1..7) with nobody consuming, then a
    drain: exactly the first 5 come out, in order; the last two were dropped by the full channel. *)
Example C10_burst_example :
  let sched := [LSpawnA 3; LStep 0; LStep 0; LStep 0] ++
               flat_map (fun i => [LSpawnH 3 (Z.of_nat i); LStep i; LStep i]) (seq 1 7) ++
               [LCall OPending; LCons 0] ++ repeat (LBatch 0) 140 in
  let sh := w_sh (reach true 64 sched) in
  ylog sh 3 = [1; 2; 3; 4; 5]%Z /\ nstored sh 3 = 7 /\ length (begun sh 3) = 7 /\ slot sh 3 = [].
Proof. vm_compute. repeat split; reflexivity. Qed.

(** Non-vacuity for "several batches scanned concurrently": two batches handed out before a delivery
    of signal 3, then walked in alternation (two threads, one load each in turn - [LBatch] steps of
    different batches interleave freely in every theorem above): the delivery is yielded exactly once. *)
Example C10_two_scanners_example :
  let sched := [LSpawnA 3; LStep 0; LStep 0; LStep 0] ++
               [LCall OPending; LCons 0; LCall OPending; LCons 0] ++
               [LSpawnH 3 7; LStep 1; LStep 1] ++
               flat_map (fun _ => [LBatch 0; LBatch 1]) (seq 0 140) in
  let sh := w_sh (reach false 64 sched) in
  ylog sh 3 = [zn 3] /\ nstored sh 3 = 1 /\ length (begun sh 3) = 1 /\ slot sh 3 = [] /\
  w_bats (reach false 64 sched) = [MAX_SIGNUM; MAX_SIGNUM].
Proof. vm_compute. repeat split; reflexivity. Qed.
