(** C06 - The channel is a 5-slot FIFO: nothing invented, duplicated, reordered or lost early.
    Two memory models: [C06_fifo], [C06_effects_ordered], [C06_drop_only_when_full],
    [C06_empty_only_when_empty] are about SC interleavings of the shim-level operations (every
    schedule, any number of senders/receivers spawned at any time, any frame stepping at any
    time, any spurious weak-CAS failures); [C06_fifo_ra] and [C06_gives_up_on_zero_ra_partial]
    are about the release/acquire view semantics with the orderings extracted from the source
    (every schedule AND every read-from choice). *)
From Coq Require Import List Arith NArith ZArith Bool.
From SH Require Import base.Pool gen.Extracted_channel channel.Defs channel.Word channel.Model channel.Skeleton
  channel.Inv channel.Steps channel.Fifo channel.Account channel.Reach channel.ModelRA channel.InvRA channel.FifoRA.
Import ListNotations.
Local Open Scope N_scope.

(** Bit level, on the TRANSLATED get/set/enqueue/dequeue, for all 326 valid queue contents
    (duplicate-free lists over 1..SLOTS = 1..5): append at the back / remove the head, and a free
    position exists iff fewer than 5 entries. *)
Theorem C06_words : forall l, valid l ->
  decode (encode l) = l /\ encode l < 32768 /\
  dequeue_word (encode l) = match l with [] => None | h :: t => Some (h, encode t) end /\
  enq_find (encode l) = (if (length l <? 5)%nat then Some (N.of_nat (length l)) else None) /\
  (forall v, (length l < 5)%nat -> In v idxs -> ~ In v l -> enqueue_word (encode l) v = Some (encode (l ++ [v]))).
Proof.
  intros l H. split; [apply decode_encode; auto|]. split; [apply encode_fits; auto|].
  split; [apply dequeue_word_spec; auto|]. split; [apply enq_find_spec; auto|].
  intros v. apply enqueue_word_spec; auto.
Qed.

Theorem C06_valid_words_counted : length valid_lists = 326%nat /\ (forall l, valid l -> In l valid_lists) /\ new_words = Some (encode idxs, encode []).
Proof. split; [exact valid_lists_count|split; [exact valid_enumerated|exact new_words_spec]]. Qed.

Theorem C06_fifo : forall ls s fs es,
  run init_world ls = ((s, fs), es) ->
  map fst (g_in s) = g_out s ++ decode (qf s) /\
  (forall k f v, nth_error fs k = Some f -> fkind f = KRecv -> got f = Some v ->
     exists t i, tick f = Some t /\ nth_error (g_in s) t = Some (i, v) /\ nth_error (g_out s) t = Some i) /\
  (forall k f v t, nth_error fs k = Some f -> fkind f = KSend v -> tick f = Some t ->
     nth_error (g_in s) t = Some (idx f, v) /\ fpc f = PDone) /\
  (forall j k f g t, j <> k -> nth_error fs j = Some f -> nth_error fs k = Some g ->
     (fkind f = KRecv <-> fkind g = KRecv) -> tick f = Some t -> tick g = Some t -> False) /\
  (forall t, (t < length (g_out s))%nat -> exists k f, nth_error fs k = Some f /\ fkind f = KRecv /\ tick f = Some t) /\
  (forall t, (t < length (g_in s))%nat -> exists k f v, nth_error fs k = Some f /\ fkind f = KSend v /\ tick f = Some t).
Proof. exact fifo. Qed.

(** Effects are ordered by time: whatever takes effect after a moment has a larger serial number
    than everything that took effect before it (per producer: program order, since a call
    returns before the next one of the same thread begins), and serial numbers never change. *)
Theorem C06_effects_ordered : forall ls1 ls2 s1 fs1 es1 s2 fs2 es2,
  run init_world ls1 = ((s1, fs1), es1) -> run (s1, fs1) ls2 = ((s2, fs2), es2) ->
  (exists a, g_in s2 = g_in s1 ++ a) /\ (exists b, g_out s2 = g_out s1 ++ b) /\
  (forall k f, nth_error fs1 k = Some f -> exists f', nth_error fs2 k = Some f' /\ fkind f' = fkind f /\
      (forall t, tick f = Some t -> tick f' = Some t) /\
      (forall t, tick f = None -> tick f' = Some t ->
         match fkind f with KSend _ => (length (g_in s1) <= t)%nat | KRecv => (length (g_out s1) <= t)%nat end)) /\
  (forall k f' t, nth_error fs1 k = None -> nth_error fs2 k = Some f' -> tick f' = Some t ->
         match fkind f' with KSend _ => (length (g_in s1) <= t)%nat | KRecv => (length (g_out s1) <= t)%nat end).
Proof.
  intros ls1 ls2 s1 fs1 es1 s2 fs2 es2 H1 H2. eapply effects_ordered; eauto. eapply reachable_all; eauto.
Qed.

Theorem C06_drop_only_when_full : forall ls s fs es k f c s' f' es',
  run init_world ls = ((s, fs), es) -> nth_error fs k = Some f -> fstep s f c = (s', f', es') ->
  dropped s' <> dropped s ->
  exists v, fkind f = KSend v /\ dropped s' = dropped s ++ [v] /\ fpc f' = PDone /\ tick f' = None /\
    qe s = 0 /\ decode (qe s) = [] /\ holds f = None /\
    (length (decode (qf s)) + cnt holding fs = 5)%nat.
Proof. exact drop_only_when_full. Qed.

Theorem C06_empty_only_when_empty : forall ls s fs es k f c s' f' es',
  run init_world ls = ((s, fs), es) -> nth_error fs k = Some f -> fstep s f c = (s', f', es') ->
  fkind f = KRecv -> fpc f <> PDone -> fpc f' = PDone -> got f' = None ->
  qf s = 0 /\ decode (qf s) = [] /\ map fst (g_in s) = g_out s /\ tick f' = None.
Proof. exact empty_only_when_empty. Qed.

(** FIFO under the declared memory orderings (view semantics of ModelRA.v; [grun] is the run of
    that model - first conjunct - observed by a ghost recorder): the indices dequeued from `full`
    are a prefix of those enqueued and the rest is exactly the LAST message of `full`; a recv that
    returns v has the serial number t of the send of v (cell integrity across stale reads);
    serial numbers are unique per kind. *)
Theorem C06_fifo_ra : forall ls,
  let w := grun ginit_world ls in
  let s := fst (fst w) in let fs := snd (fst w) in let g := snd w in
  fst w = rrun rinit_world ls /\
  map fst (gi g) = go g ++ decode (mval (lastm (mf s))) /\
  (forall k f v, nth_error fs k = Some f -> rkind f = KRecv -> rgot f = Some v ->
     exists t i, tick_of g k = Some t /\ nth_error (gi g) t = Some (i, v) /\ nth_error (go g) t = Some i) /\
  (forall k f v t, nth_error fs k = Some f -> rkind f = KSend v -> tick_of g k = Some t ->
     nth_error (gi g) t = Some (ridx f, v) /\ rpcf f = RDone) /\
  (forall j k f f2 t, j <> k -> nth_error fs j = Some f -> nth_error fs k = Some f2 ->
     (rkind f = KRecv <-> rkind f2 = KRecv) -> tick_of g j = Some t -> tick_of g k = Some t -> False).
Proof. exact fifo_ra. Qed.

(** PARTIAL (view semantics): a send is discarded / a recv returns None only on reading, at or
    after its view, a message of its queue whose word is 0 (or, before touching the channel, the
    null Slot pointer).  That at the time of that message all five slots were outstanding, and
    the happens-before clause of the property text, are proved only for SC interleavings above. *)
Theorem C06_gives_up_on_zero_ra_partial : forall ls k f c s' f',
  let s := fst (rrun rinit_world ls) in let fs := snd (rrun rinit_world ls) in
  nth_error fs k = Some f -> rstep s f c = (s', f') ->
  rpcf f = RDeqLoad \/ rpcf f = RDeqCas -> rpcf f' = RDone ->
  exists t m, (rview f (qloc (deq_q (rkind f))) <= t)%nat /\
              nth_error (msgs s (deq_q (rkind f))) t = Some m /\ mval m = 0.
Proof.
  intros ls k f c s' f' s fs Hk Hs Hpc Hd. eapply ra_gives_up_on_zero; eauto. apply ra_reachable_inv.
Qed.

(** Non-vacuity: six sends run one after the other - the sixth is discarded; then six receives
    return the five values in order and None. *)
Definition six_sends : list label :=
  flat_map (fun j => LSpawn (KSend (10 + j)) :: repeat (LStep j 0) 5) (seq 0 6).
Definition six_recvs : list label :=
  flat_map (fun j => LSpawn KRecv :: repeat (LStep (6 + j) 0) 5) (seq 0 6).

Example C06_example_overflow :
  let '(w, _) := run init_world (six_sends ++ six_recvs) in
  (dropped (fst w), map got (skipn 6 (snd w)), map snd (g_in (fst w)), forallb is_done (snd w)) =
  ([15%nat], [Some 10; Some 11; Some 12; Some 13; Some 14; None]%nat, [10; 11; 12; 13; 14]%nat, true).
Proof. vm_compute. reflexivity. Qed.
