(** C02 - Each delivery runs exactly one consistent snapshot of the actions, in order. *)
From Coq Require Import List NArith ZArith Bool Sorted.
From SH Require Import base.Pool gen.Extracted_halflock halflock.Model halflock.Skeleton registry.Skeleton
  registry.Model registry.Inv registry.PcInv registry.Events registry.Content registry.Holder registry.Order registry.Examples.
Import ListNotations.

(** In every reachable world of every schedule, what a delivery has run so far followed by what
    it still has to run is exactly the action list that the ONE snapshot it loaded holds for its
    signal (nothing of another signal, nothing else); before the load it has run nothing. *)
Theorem C02_one_snapshot :
  forall (q_ok s_ok : Z -> bool) os0 ls s fs es,
  run q_ok s_ok (sh_init os0, []) ls = ((s, fs), es) ->
  forall k g, nth_error fs k = Some g ->
    match snap g with
    | Some p => (p < length (dhist s))%nat /\ ran g ++ pending g = slot_acts (content s p) (sig_of (kind g))
    | None => ran g = [] /\ pending g = []
    end.
Proof. exact delivery_runs_one_snapshot. Qed.

(** That snapshot is the registry state that is current at the delivery's load step - an
    instant inside the delivery - and the step fixes the list to run. *)
Theorem C02_snapshot_current_at_load :
  forall (q_ok s_ok : Z -> bool) s f s' f' es,
  frame_ok s f -> fpc f = PDtPtr -> aborted (dt s) = false -> aborted (fb s) = false ->
  fstep q_ok s_ok s f = (s', f', es) ->
  snap f' = Some (ptr (dt s)) /\ ran f' = ran f /\
  pending f' = slot_acts (cur s) (sig_of (kind f)) /\ dhist s' = dhist s.
Proof. exact load_reads_current. Qed.

(** The list is strictly increasing in action id: registration order, each action once. *)
Theorem C02_registration_order :
  forall (q_ok s_ok : Z -> bool) os0 ls s fs es,
  run q_ok s_ok (sh_init os0, []) ls = ((s, fs), es) ->
  forall k g p, nth_error fs k = Some g -> snap g = Some p ->
    StronglySorted N.lt (map fst (ran g ++ pending g)).
Proof. exact delivery_order. Qed.

(** No action runs whose registration (for that signal) had not started. *)
Theorem C02_only_registered_actions :
  forall (q_ok s_ok : Z -> bool) os0 ls s fs es,
  run q_ok s_ok (sh_init os0, []) ls = ((s, fs), es) ->
  forall k g p id tag, nth_error fs k = Some g -> snap g = Some p -> In (id, tag) (ran g ++ pending g) ->
    exists j r, nth_error fs j = Some r /\ kind r = KMut (MRegister (sig_of (kind g)) tag) /\ lid r = id /\ past_load (fpc r) = true.
Proof. exact delivery_runs_registered_actions. Qed.

(** An action whose registration has been published (hence: has returned) and no removal of which
    has loaded the write guard (hence: none has begun) is in the list of every delivery of the
    signal that loads now.  (That a removed action does not run once the removal has returned is
    C01_unregister_quiescent.) *)
Theorem C02_registered_action_runs :
  forall (q_ok s_ok : Z -> bool) os0 ls s fs es,
  run q_ok s_ok (sh_init os0, []) ls = ((s, fs), es) ->
  forall k g sg tag, nth_error fs k = Some g -> kind g = KMut (MRegister sg tag) -> published g = true ->
    ~ removal_past_load fs sg (lid g) ->
    forall j d s' d' es', nth_error fs j = Some d -> kind d = KDeliver sg -> fpc d = PDtPtr ->
      aborted (dt s) = false -> aborted (fb s) = false ->
      fstep q_ok s_ok s d = (s', d', es') ->
      In (lid g, tag) (pending d') /\ ran d' = ran d.
Proof. exact registered_action_is_loaded. Qed.
