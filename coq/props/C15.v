(** C15 - Flags and conditional shutdown do exactly what the flag state dictates.

    Histories: every list [h] of operations [OpWrite f v] (arm / disarm / reset, any value),
    [OpDeliver sig], [OpRegister sig a], [OpUnregister sig id], from every start state [s0];
    statuses, signals, flag ids, values: all of Z.  [run_action] interprets the closure bodies
    extracted from src/flag.rs; [exit_libc_fn], the id assignment and the dispatcher order are
    extracted from src/low_level/mod.rs and signal-hook-registry/src/lib.rs. *)
From Coq Require Import ZArith List String Bool.
From SH Require Import gen.Extracted_flag flag.Model flag.Proofs.
Import ListNotations. Open Scope Z_scope. Open Scope list_scope.

(** Tie to the source: the interpretation of the four extracted closure bodies is this. *)
Theorem C15_action_semantics :
  forall (sig : Z) (a : action) (m : mem),
    run_action sig a m =
    match a with
    | SetBool f => Continue (set_flag m f 1)
    | SetUsize f v => Continue (set_flag m f v)
    | CondExit status c => if fl m c =? 0 then Continue m else Stop (Exited (status mod 256) false) m
    | CondDefault c => if fl m c =? 0 then Continue m else emu sig m
    | Observe k => Continue {| fl := fl m; tr := EvObserve k (fl m) :: tr m |}
    end.
Proof. exact run_action_spec. Qed.

(** Every atomic access in the four closures is SeqCst (premise of the SC flag map);
    [low_level::exit] is a libc function that skips exit-time hooks; ids grow. *)
Theorem C15_sc_premise :
  forallb (fun d => forallb (fun s => is_seqcst (stmt_ord s)) (fd_body d))
          [fn_register; fn_register_usize; fn_register_conditional_shutdown; fn_register_conditional_default] = true
  /\ atexit_hooks_run exit_libc_fn = false
  /\ 0 < id_step /\ id_taken_before_step = true.
Proof. exact (conj orderings_all_seqcst (conj exit_skips_hooks ids_increase)). Qed.

(** After a delivery that returns, a flag registered for that signal holds true (1) / the
    registered value, whatever was written before. *)
Theorem C15_flag_after_delivery :
  forall (s0 : state) (h : list op) (sig f v : Z) (a : action),
    let s := run h s0 in
    let s' := step (OpDeliver sig) s in
    alive s -> alive s' ->
    In a (actions_for sig (reg s)) -> setter a = Some (f, v) ->
    (forall a' v', In a' (actions_for sig (reg s)) -> setter a' = Some (f, v') -> v' = v) ->
    flag s' f = v.
Proof. exact flag_after_delivery. Qed.

(** ... precisely: the value of the last (in registration order) setter of [f] for [sig];
    flags without a setter for [sig] keep their value. *)
Theorem C15_flag_after_delivery_last :
  forall (s0 : state) (h : list op) (sig f : Z),
    let s := run h s0 in
    let s' := step (OpDeliver sig) s in
    alive s -> alive s' ->
    flag s' f = match last_set f (actions_for sig (reg s)) with Some v => v | None => flag s f end.
Proof. exact flag_after_delivery_last. Qed.

Theorem C15_other_flags_untouched :
  forall (s0 : state) (h : list op) (sig f : Z),
    let s := run h s0 in
    let s' := step (OpDeliver sig) s in
    alive s -> alive s' ->
    (forall a v, In a (actions_for sig (reg s)) -> setter a <> Some (f, v)) ->
    flag s' f = flag s f /\ reg s' = reg s /\ next_id s' = next_id s.
Proof. exact other_flags_untouched. Qed.

(** A delivery ends the process by exit with wait status [w] (hooks run: [hooks]) iff some
    conditional shutdown registered for the signal is reached - no earlier action of the same
    delivery ended the process - and finds its condition true in the memory [m1] left by the
    earlier actions of this delivery; then [w = status mod 256], no exit-time hooks run, and the
    flags stay as they were at that moment (the later actions of the delivery did not run). *)
Theorem C15_shutdown_iff :
  forall (s0 : state) (h : list op) (sig w : Z) (hooks : bool),
    let s := run h s0 in
    let s' := step (OpDeliver sig) s in
    let exits_at (m1 : mem) :=
      exists pre status c post,
        actions_for sig (reg s) = pre ++ CondExit status c :: post /\
        run_actions sig pre (st_mem s) = Continue m1 /\
        fl m1 c <> 0 /\ w = status mod 256 /\ hooks = false in
    alive s ->
    (halted s' = Some (Exited w hooks) -> exists m1, exits_at m1 /\ forall g, flag s' g = fl m1 g) /\
    ((exists m1, exits_at m1) -> halted s' = Some (Exited w hooks)).
Proof. exact shutdown_iff. Qed.

(** A delivery returns iff no action of the signal, run in order, ends the process. *)
Theorem C15_survives_iff :
  forall (s0 : state) (h : list op) (sig : Z),
    let s := run h s0 in
    alive s ->
    (alive (step (OpDeliver sig) s) <->
     forall pre a post m1 t m', actions_for sig (reg s) = pre ++ a :: post ->
       run_actions sig pre (st_mem s) = Continue m1 -> run_action sig a m1 <> Stop t m').
Proof. exact survives_iff. Qed.

(** Shutdown registered first, arming flag second (on a signal without other actions):
    whatever happened before ([h0]) and in between ([ws1], [ws2]: any writes to any flags,
    any deliveries, registrations and removals for other signals), a delivery that finds the
    flag disarmed returns and arms it; a later delivery that finds it armed exits with
    [status mod 256] without exit-time hooks and without touching any flag. *)
Theorem C15_double_ctrl_c :
  forall (h0 : list op) (sig status f : Z) (ws1 ws2 : list op),
    let s0 := run h0 init in
    alive s0 -> actions_for sig (reg s0) = [] ->
    Forall (keeps sig) ws1 -> Forall (keeps sig) ws2 ->
    let s1 := run (OpRegister sig (CondExit status f) :: OpRegister sig (SetBool f) :: ws1) s0 in
    alive s1 -> flag s1 f = 0 ->
    let s2 := step (OpDeliver sig) s1 in
    alive s2 /\ flag s2 f = 1 /\ (forall g, g <> f -> flag s2 g = flag s1 g) /\
    (let s3 := run ws2 s2 in
     alive s3 -> flag s3 f <> 0 ->
     let s4 := step (OpDeliver sig) s3 in
     halted s4 = Some (Exited (status mod 256) false) /\ forall g, flag s4 g = flag s3 g).
Proof. exact double_ctrl_c. Qed.

(** Opposite registration order: the first delivery arms and exits at once, whatever the flag held. *)
Theorem C15_double_ctrl_c_opposite_order :
  forall (h0 : list op) (sig status f : Z) (ws1 : list op),
    let s0 := run h0 init in
    alive s0 -> actions_for sig (reg s0) = [] ->
    Forall (keeps sig) ws1 ->
    let s1 := run (OpRegister sig (SetBool f) :: OpRegister sig (CondExit status f) :: ws1) s0 in
    alive s1 ->
    let s2 := step (OpDeliver sig) s1 in
    halted s2 = Some (Exited (status mod 256) false) /\ flag s2 f = 1 /\
    forall g, g <> f -> flag s2 g = flag s1 g.
Proof. exact double_ctrl_c_opposite_order. Qed.

(** The second signal arriving DURING the first delivery: the library's handler runs with its own
    signal blocked (its flags carry no SA_NODEFER: C05), so the kernel delivers the second one when
    the handler has returned - two deliveries back to back, nothing in between.  The first survives and
    arms, the second exits.  (flag/Run.v [deliver_chain] applies that kernel rule for the scripts of the
    correspondence check; here it is the instance [ws2 := []] of [C15_double_ctrl_c].) *)
Corollary C15_second_signal_during_first :
  forall (h0 : list op) (sig status f : Z) (ws1 : list op),
    let s0 := run h0 init in
    alive s0 -> actions_for sig (reg s0) = [] ->
    Forall (keeps sig) ws1 ->
    let s1 := run (OpRegister sig (CondExit status f) :: OpRegister sig (SetBool f) :: ws1) s0 in
    alive s1 -> flag s1 f = 0 ->
    let s2 := step (OpDeliver sig) s1 in
    let s3 := step (OpDeliver sig) s2 in
    alive s2 /\ halted s3 = Some (Exited (status mod 256) false).
Proof.
  intros h0 sig status f ws1 s0 Ha Hn Hk s1 Ha1 Hf s2 s3.
  destruct (C15_double_ctrl_c h0 sig status f ws1 [] Ha Hn Hk (Forall_nil _) Ha1 Hf) as (Hal & Hfl & _ & H4).
  split; [exact Hal|].
  cbn [run fold_left] in H4.
  assert (Hne : flag (step (OpDeliver sig) (run (OpRegister sig (CondExit status f) :: OpRegister sig (SetBool f) :: ws1) (run h0 init))) f <> 0)
    by (rewrite Hfl; discriminate).
  exact (proj1 (H4 Hal Hne)).
Qed.
