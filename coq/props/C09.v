(** C09 - Signal iterators never lose a signal or a wake-up. *)
From Coq Require Import List Arith ZArith Bool.
From SH Require Import base.Pool gen.Extracted_iter iter.Model iter.Base iter.Skeleton iter.Close iter.Sound iter.NoLost iter.Reported.
Import ListNotations.

(** Safety, every schedule (any number of deliveries of any watched signals on any threads,
    consumer calls, scans of handed-out batches, add_signal and close calls, any interleaving):
    whenever slot [s] holds an unreported delivery, either a handler for [s] is still between
    its store and its wake, or the self-pipe holds a byte, or position [s] is still going to
    be scanned (the consumer is about to drain and start a fresh batch; or the SignalIterator's
    batch, a handed-out batch or an iterator abandoned before exhaustion has not passed [s]). *)
Theorem C09_no_lost_wakeup :
  forall raw c ls s, 1 <= c ->
  let w := reach raw c ls in
  slot (w_sh w) s <> [] -> midh (w_fr w) s \/ 0 < pipe (w_sh w) \/ covered w s.
Proof. exact no_lost_wakeup. Qed.

(** Consequently the consumer is never blocked in the read of wait / Forever::next with [s]
    unreported and nothing outstanding ... *)
Theorem C09_never_blocked_with_signal :
  forall raw c ls s, 1 <= c ->
  let w := reach raw c ls in
  cpc_ (w_co w) = CRead -> slot (w_sh w) s <> [] -> ~ midh (w_fr w) s -> 0 < pipe (w_sh w) \/ undrained w s.
Proof. exact never_blocked_with_signal. Qed.

(** ... nor parked after poll_signal said Pending: the byte is there and the wake-up armed by
    the callback has fired (or a batch the user holds still covers [s]). *)
Theorem C09_never_parked_with_signal :
  forall raw c ls s, 1 <= c ->
  let w := reach raw c ls in
  cpc_ (w_co w) = CIdle -> cres_ (w_co w) = RPending -> slot (w_sh w) s <> [] -> ~ midh (w_fr w) s ->
  (0 < pipe (w_sh w) /\ notified (w_sh w) = true) \/ undrained w s.
Proof. exact never_parked_with_signal. Qed.

(** Progress (solo runs of the consumer side; [tot sl n] = records pending below position [n]).
    Draining a batch that has not passed [s] yields [s] within (s - p) + pending-below-s + 1 loads. *)
Theorem C09_reported_batch :
  forall m w k p s,
  nth_error (w_bats w) k = Some p -> p <= s -> s < MAX_SIGNUM -> slot (w_sh w) s <> [] ->
  (s - p) + tot (slot (w_sh w)) s <= m ->
  exists n, n <= m + 1 /\ length (ylog (w_sh w) s) < length (ylog (w_sh (brun k n w)) s).
Proof. exact scan_batch. Qed.

(** From any reachable world with the consumer between calls, [s] stored, its handlers past
    their wake and nothing the user holds covering [s]: one wait() (it does not block: the byte
    is there) followed by draining the batch it returns yields [s] within 4 + s + pending + 1 steps. *)
Theorem C09_reported_wait :
  forall raw c ls s, 1 <= c ->
  let w := reach raw c ls in
  cpc_ (w_co w) = CIdle -> slot (w_sh w) s <> [] -> ~ midh (w_fr w) s -> ~ undrained w s ->
  (forall p, cit (w_co w) = Some p -> s < p) ->
  exists n, n <= s + tot (slot (w_sh w)) s + 1 /\
    length (ylog (w_sh w) s) < length (ylog (w_sh (brun (length (w_bats w)) n (fst (run w wait_call)))) s).
Proof. exact reported_wait. Qed.

(** Same for a consumer that keeps calling Forever::next ([o = OFNext], blocking callback) or
    poll_signal with the non-blocking callback ([o = OPoll]) on an open instance: it never blocks
    / never gets Pending before [s], and yields [s] within 3 * pending + 2 * MAX_SIGNUM + 7 steps
    (the re-poll loop of poll_signal after an exhausted batch is part of the run). *)
Theorem C09_reported_poll :
  forall raw c ls s o, 1 <= c -> o = OFNext \/ o = OPoll ->
  let w := reach raw c ls in
  closed (w_sh w) = false -> cpc_ (w_co w) = CIdle -> cit (w_co w) <> None ->
  slot (w_sh w) s <> [] -> ~ midh (w_fr w) s -> ~ undrained w s ->
  exists n, n <= 3 * tot (slot (w_sh w)) MAX_SIGNUM + 2 * MAX_SIGNUM + 7 /\
    length (ylog (w_sh w) s) < length (ylog (w_sh (pdrive o n w)) s).
Proof. exact reported_poll. Qed.

(** Non-vacuity: a delivery that lands between the consumer's drain and its scan (the window
    the tests never hit): Forever created (drain), delivery stores and wakes, Forever::next. *)
Example C09_window_example :
  let w0 := reach false 8 [LSpawnA 3; LStep 0; LStep 0; LStep 0; LCall OForever; LCons 0; LSpawnH 3 7%Z; LStep 1; LStep 1] in
  slot (w_sh w0) 3 <> [] /\ pipe (w_sh w0) = 1 /\ cpc_ (w_co w0) = CIdle /\
  cres_ (w_co (pdrive OFNext 6 w0)) = RSignal 3 3%Z.
Proof. vm_compute. repeat split; congruence. Qed.
