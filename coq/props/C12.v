(** C12 - A Signals instance survives rejected additions and cleans up what it owns.

    Model: instance/Model.v (interpreters over the skeletons in gen/Extracted_instance.v);
    vocabulary: instance/Defs.v.  [os] is the operating system's verdict on a signal number
    (sigaction accepts it / EINVAL); every theorem holds for every verdict function, every history
    (list of new / add_signal / clone-handle / drop-handle / drop-instance / deliver / foreign
    registration), every number in Z and the three exfiltrators.

    Unobservable fields ([inst_eq] / [obs_eq] ignore exactly these): the poison flag of the id-table
    mutex and the set of exfiltrator slots that own an allocated channel.

    Not claimed here: a failed constructor (like any successful registration) leaves the signal's
    DISPOSITION taken over by the library - that is the registry's documented behaviour (C05). *)
From Coq Require Import ZArith List Bool.
From SH Require Import gen.Extracted_instance instance.Model instance.Defs instance.Theorems instance.Examples.
Import ListNotations. Open Scope Z_scope.

(** A rejected add_signal (error, or panic for a forbidden / negative / too large number): its own
    output sits at position [length h]; removing it, the outputs of the whole history are those of
    the history without the call; the state right after it, and at the end, is observably equal. *)
Theorem C12_rejected_add_is_noop :
  forall (os : Z -> bool) (h k : list op) (i : nat) (via : bool) (n : Z),
  let call := OAdd i via n in
  let own := fst (step os (final os h) call) in
  rejected (fst own) ->
  nth_error (outs os (h ++ call :: k)) (length h) = Some own /\
  remove_nth (length h) (outs os (h ++ call :: k)) = outs os (h ++ k) /\
  obs_eq (final os (h ++ [call])) (final os h) /\
  obs_eq (final os (h ++ call :: k)) (final os (h ++ k)).
Proof. exact rejected_add_is_noop. Qed.

(** No call of any history aborts the process (nor finds it dead). *)
Theorem C12_never_aborts :
  forall (os : Z -> bool) (h : list op),
  Forall (fun o : out => fst o <> RAbort /\ fst o <> RDead) (outs os h) /\ dead (final os h) = false.
Proof. exact never_aborts. Qed.

(** Re-adding a watched signal, through the object or a handle clone, returns Ok and changes nothing
    at all (not even unobservable fields). *)
Theorem C12_readd_is_identity :
  forall (os : Z -> bool) (h : list op) (i : nat) (via : bool) (n : Z) (x : inst),
  nth_error (insts (final os h)) i = Some x -> usable x via = true -> watched x n ->
  step os (final os h) (OAdd i via n) = ((ROk, []), final os h).
Proof. exact readd_is_identity. Qed.

(** A constructor that fails leaves the list of registered actions exactly as it was (what it had
    registered before failing is unregistered by the drop of the half-built instance), and the
    half-built instance is gone with both pipe ends closed exactly once. *)
Theorem C12_failed_constructor_registers_nothing :
  forall (os : Z -> bool) (h : list op) (e : exfk) (sigs : list Z),
  let st := final os h in
  let st' := final os (h ++ [ONew e sigs]) in
  let own := fst (step os st (ONew e sigs)) in
  rejected (fst own) ->
  reg (g st') = reg (g st) /\
  exists x, insts st' = insts st ++ [x] /\ gone x /\ i_rd_closes x = 1%nat /\ i_wr_closes x = 1%nat /\
            snd own = [1; 1] /\
            (forall en, In en (reg (g st')) -> ~ In (fst en) (recorded x)).
Proof. exact failed_constructor_registers_nothing. Qed.

(** In every reachable state: an instance whose object and handle clones are all gone has none of
    the ids it recorded registered and each pipe end closed exactly once; one that still has an
    owner has every recorded id registered (for the recorded signal), its write end open, and its
    read end closed iff the object is gone. *)
Theorem C12_cleanup :
  forall (os : Z -> bool) (h : list op) (i : nat) (x : inst),
  nth_error (insts (final os h)) i = Some x ->
  (gone x ->
     (forall e, In e (reg (g (final os h))) -> ~ In (fst e) (recorded x)) /\
     i_rd_closes x = 1%nat /\ i_wr_closes x = 1%nat) /\
  (~ gone x ->
     (forall k id, In (k, id) (i_ids x) -> In (id, k) (reg (g (final os h)))) /\
     i_wr_closes x = 0%nat /\ i_rd_closes x = (if i_alive x then 0 else 1)%nat).
Proof. exact cleanup. Qed.

(** ... and only those: a registration disappears in a step only if it was recorded by an instance
    that had an owner before the step and has none after it; recorded ids of different instances
    never coincide. *)
Theorem C12_cleanup_only_own :
  forall (os : Z -> bool) (h : list op) (o : op) (e : nat * Z),
  In e (reg (g (final os h))) -> ~ In e (reg (g (final os (h ++ [o])))) ->
  exists i x x',
    nth_error (insts (final os h)) i = Some x /\ ~ gone x /\
    nth_error (insts (final os (h ++ [o]))) i = Some x' /\ gone x' /\ In (fst e) (recorded x').
Proof. exact cleanup_only_own. Qed.

Theorem C12_ids_disjoint :
  forall (os : Z -> bool) (h : list op) (i j : nat) (x y : inst) (id : nat),
  nth_error (insts (final os h)) i = Some x -> nth_error (insts (final os h)) j = Some y ->
  In id (recorded x) -> In id (recorded y) -> i = j.
Proof. exact ids_disjoint. Qed.

(** Signals already watched are delivered to the instance as long as it has an owner. *)
Theorem C12_watched_is_delivered :
  forall (os : Z -> bool) (h : list op) (i : nat) (x : inst) (n : Z),
  nth_error (insts (final os h)) i = Some x -> ~ gone x -> watched x n ->
  ran (g (final os h)) x n = true.
Proof. exact watched_is_delivered. Qed.
