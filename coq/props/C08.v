(** C08 - Channel operations never block or panic, even nested inside each other. *)
From Coq Require Import List Arith NArith ZArith Bool.
From SH Require Import base.Pool gen.Extracted_channel channel.Defs channel.Word channel.Model channel.Skeleton
  channel.Inv channel.Progress channel.ModelRA channel.InvRA channel.ProgressRA.
Import ListNotations.
Local Open Scope N_scope.

(** SC interleavings: in no reachable world (any schedule, any number of operations, frames
    parked anywhere) is a frame in a panic state: "No empty slot available" (1), "Full slot
    with nothing in it" (2), storage index out of range (3). *)
Theorem C08_no_panic : forall ls s fs es,
  run init_world ls = ((s, fs), es) -> forall k f, nth_error fs k = Some f -> forall why, fpc f <> PPanic why.
Proof. exact no_panic. Qed.

(** The same under the release/acquire view semantics with the declared orderings, for every
    schedule and every read-from choice (stale loads, failed CASes reading any message at or
    after the thread's view). *)
Theorem C08_no_panic_ra : forall ls k f why,
  nth_error (snd (rrun rinit_world ls)) k = Some f -> rpcf f <> RPanic why.
Proof. exact ra_no_panic. Qed.

(** From every reachable world a frame run ALONE - all others parked wherever they are, e.g.
    between the two queue operations of a send/recv of the same thread - returns within 5 + k of
    its own steps if at most k of its weak CASes fail spuriously; nobody else moves. *)
Theorem C08_bounded_solo : forall ls s fs es j f cs k,
  run init_world ls = ((s, fs), es) -> nth_error fs j = Some f ->
  (spur cs <= k)%nat -> (5 + k <= length cs)%nat ->
  forall s' fs' es', run (s, fs) (solo_labels j cs) = ((s', fs'), es') ->
  exists f', nth_error fs' j = Some f' /\ fpc f' = PDone /\
             (forall i, i <> j -> nth_error fs' i = nth_error fs i).
Proof. exact bounded_solo. Qed.

(** The same under the view semantics: 8 + 2k steps (one more for the Slot load; a load may
    have read a stale message, costing one failed CAS per queue operation), where k bounds the
    steps whose choice is not 0 - a CAS made to fail (spuriously or on a stale message) or a
    load reading ahead of its view. *)
Theorem C08_bounded_solo_ra : forall ls j f cs k,
  let w := rrun rinit_world ls in
  nth_error (snd w) j = Some f -> (nonzeros cs <= k)%nat -> (8 + 2 * k <= length cs)%nat ->
  exists f', nth_error (snd (rrun w (rsolo j cs))) j = Some f' /\ rpcf f' = RDone /\
             (forall i, i <> j -> nth_error (snd (rrun w (rsolo j cs))) i = nth_error (snd w) i).
Proof. exact ra_bounded_solo. Qed.

(** No step waits for another activity: every step that is not a spurious CAS failure strictly
    decreases the number of steps the frame still needs on its own. *)
Theorem C08_step_progress : forall ls s fs es j f c s' f' es',
  run init_world ls = ((s, fs), es) -> nth_error fs j = Some f -> fstep s f c = (s', f', es') ->
  c <> 1%nat -> fpc f <> PDone -> (mu s' f' < mu s f)%nat.
Proof. exact step_progress. Qed.

(** Non-vacuity: a send parked between its dequeue(empty) and its cell write while another
    send runs to completion "inside" it, then finishes alone in 3 steps. *)
Example C08_example_nested :
  let '(w1, _) := run init_world [LSpawn (KSend 1); LStep 0 0; LStep 0 0; LSpawn (KSend 2)] in
  let '(w2, _) := run w1 (solo_labels 1 [0; 1; 0; 0; 1; 0; 0]%nat) in
  let '(w3, _) := run w2 (solo_labels 0 [0; 0; 0]%nat) in
  (map fpc (snd w1), map fpc (snd w2), map fpc (snd w3), map snd (g_in (fst w3))) =
  ([PCell; PDeqLoad], [PCell; PDone], [PDone; PDone], [2; 1]%nat).
Proof. vm_compute. reflexivity. Qed.
