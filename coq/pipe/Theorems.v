(** C13 - the property-level statements and their proofs / refutation (DESIGN 5.13, 3.6). *)
From Coq Require Import ZArith List Bool Arith Lia.
From SH Require Import gen.Extracted_pipe pipe.Model pipe.Spec pipe.Proofs.
Import ListNotations.
Open Scope nat_scope.

Lemma sum_bytes_zero_or_pos : forall q, 1 <= sum_bytes q \/ Forall (fun u => ubytes u = 0) q.
Proof.
  induction q as [|u t IH]; [right; constructor|].
  cbn [sum_bytes]. destruct (ubytes u) eqn:E; [|left; lia].
  destruct IH as [IH|IH]; [left; lia|right; constructor; assumption].
Qed.

Lemma cinv_partial : forall accept c, accept_empty accept -> cinv accept c ->
  chan_ok_partial c /\ (c_kind c <> KDgram -> chan_ok_full c).
Proof.
  intros accept c HA H.
  assert (P : chan_ok_partial c).
  { intro K. destruct (H HA K) as [H1 H2]. split; [exact H1|]. intro S. specialize (H2 S).
    assert (L : 1 <= length (c_q c)) by (destruct (c_q c); [congruence|cbn; lia]).
    split; [exact L|]. unfold readable_bytes, only_empty_datagrams.
    destruct (c_kind c) eqn:EK; try discriminate K; auto.
    destruct (sum_bytes_zero_or_pos (c_q c)); auto. }
  split; [exact P|]. intros ND K. destruct (P K) as [H1 H2]. split; [exact H1|].
  intro S. destruct (H2 S) as [_ [B|[D _]]]; [exact B|contradiction].
Qed.

(** strongest true form of the first sentence of C13 *)
Theorem one_nonblocking_byte_partial :
  forall accept, accept_empty accept ->
  forall (w : list chan_spec) (h : list op),
    (forall sig, delivery_ok accept (run accept w h) sig) /\
    (forall ch, let c := getc (chans (run accept w h)) ch in
                chan_ok_partial c /\ (c_kind c <> KDgram -> chan_ok_full c)).
Proof.
  intros accept HA w h. pose proof (Inv_run accept w h) as I. split.
  - intro sig. apply (Inv_deliver accept _ sig I). exact HA.
  - intro ch. cbn zeta. apply (cinv_partial accept); [exact HA|]. apply (inv_chan accept _ I).
Qed.

(** the corner in which the full text fails: the queue of a datagram socket holds nothing but
    the EMPTY datagrams that register_raw sent as its probe, and is full *)
Definition accept_one (clk : nat) (c : chan) : bool := match c_q c with [] => true | _ => false end.
Definition corner_world : list chan_spec := [mkSpec KDgram false [] true false false 1].
Definition corner_history : list op := [ORegister false 10%Z 0 OOk; ODeliver 10%Z].

Lemma accept_one_empty : accept_empty accept_one.
Proof. intros clk c Q. unfold accept_one. rewrite Q. reflexivity. Qed.

Theorem dgram_corner_witness :
  let c := getc (chans (run accept_one corner_world corner_history)) 0 in
  accept_empty accept_one /\ c_kind c = KDgram /\ c_q c = [UProbe] /\ c_since c = 1 /\
  readable_bytes c = 0 /\
  evs (run accept_one corner_world corner_history) =
    [EAttempt 0 0 SysSend 1%Z os_MSG_DONTWAIT WAgain; EOutcome 0 true; EProbe 0 0 SysSend 0%Z os_MSG_DONTWAIT WOk].
Proof. cbn zeta. split; [exact accept_one_empty|]. vm_compute. repeat split; reflexivity. Qed.

Theorem one_nonblocking_byte_refuted : ~ one_nonblocking_byte_statement.
Proof.
  intro H. destruct (H accept_one accept_one_empty corner_world corner_history) as [_ C].
  specialize (C 0). unfold chan_ok_full in C.
  destruct dgram_corner_witness as (_ & K & _ & S & B & _). cbn zeta in *.
  rewrite K, S, B in C. destruct (C eq_refl) as [_ X]. specialize (X (le_n 1)). lia.
Qed.

(* ---------------------------------------------------------------- descriptor life cycle *)
Lemma count_close_rev : forall id l, count_close id (rev l) = count_close id l.
Proof.
  intros id l. induction l as [|e t IH]; [reflexivity|].
  cbn [rev]. rewrite count_close_app, IH. destruct e; cbn; try lia. destruct (Nat.eqb id0 id); lia.
Qed.

Lemma ok_rev_no_use_after : forall id a b,
  ok_rev (a ++ EClose id :: b) -> forall e, In e a -> uses id e = false.
Proof.
  induction a as [|x t IH]; intros b O e I; [contradiction|].
  cbn [app ok_rev] in O. destruct O as [O1 O2]. destruct I as [I|I].
  - subst x. destruct (uses id e) eqn:U; [|reflexivity].
    specialize (O1 id U). rewrite count_close_app in O1. cbn in O1. rewrite Nat.eqb_refl in O1. lia.
  - eapply IH; eassumption.
Qed.

Definition fd_lifecycle_statement : Prop :=
  forall accept (w : list chan_spec) (h : list op),
    let st := run accept w h in
    let trace := rev (evs st) in                       (* oldest first *)
    (forall id r, nth_error (regs st) id = Some r ->
                  count_close id trace = closes_expected (r_status r)) /\
    (forall id, length (regs st) <= id -> count_close id trace = 0) /\
    (forall id pre post, trace = pre ++ EClose id :: post ->
                         forallb (fun e => negb (uses id e)) post = true).

Theorem fd_lifecycle : fd_lifecycle_statement.
Proof.
  intros accept w h st trace. pose proof (Inv_run accept w h) as I. fold st in I.
  destruct I as [_ _ Icl If Io]. unfold trace. split; [|split].
  - intros id r H. rewrite count_close_rev. apply Icl. exact H.
  - intros id L. rewrite count_close_rev. apply If. exact L.
  - intros id pre post E. apply forallb_forall. intros e IN.
    assert (E' : evs st = rev post ++ EClose id :: rev pre).
    { rewrite <- (rev_involutive (evs st)), E, rev_app_distr. cbn [rev]. rewrite <- app_assoc. reflexivity. }
    rewrite E' in Io. rewrite (ok_rev_no_use_after id _ _ Io e); [reflexivity|].
    apply in_rev in IN. exact IN.
Qed.

(** how a registration ends is decided by the registry's answer and by set_flags *)
Theorem registration_outcome : forall accept st g sig ch o,
  let st' := register accept st g sig ch o in
  exists r, regs st' = regs st ++ [r] /\
            (o <> OOk -> r_status r = Rejected) /\
            (r_status r = Active \/ r_status r = Rejected).
Proof.
  intros accept st g sig ch o. cbn zeta.
  unfold register, rr_probe, rr_send_pats, rr_then, rr_else, rr_after, register_conv.
  destruct (sys_result accept (clock st) (getc (chans st) ch) SysSend 0%Z 64%Z);
    cbn [pres_of existsb pat_matches orb app interp drop_if];
    try (destruct (set_flags _)); destruct o; cbn;
    eexists; (split; [reflexivity|]); cbn; split; auto; intro X; congruence.
Qed.

(* ---------------------------------------------------------------- iterator write end *)
Theorem iterator_wake_nonblocking : forall accept clk c,
  snd (fst (wake_arm iter_wake_method)) = 1%Z /\
  sys_result accept clk c (fst (fst (wake_arm iter_wake_method))) (snd (fst (wake_arm iter_wake_method)))
             (snd (wake_arm iter_wake_method)) <> WBlocks.
Proof.
  intros accept clk c. split; [apply wake_arm_good|].
  apply wake_never_blocks. unfold iter_wake_method. discriminate.
Qed.

(* ---------------------------------------------------------------- examples (hypotheses are satisfiable, runs are not trivial) *)
Definition pipe_full : chan_spec := mkSpec KPipe false [1;1;1] true false false 3.   (* blocking, full *)

(** a blocking pipe that is completely full: registration sets O_NONBLOCK, three deliveries make
    three attempts that all fail with EAGAIN (none blocks), the reader sees the 3 old bytes *)
Example ex_full_pipe :
  let st := run accept_cap [pipe_full] [ORegister false 10%Z 0 OOk; ODeliver 10%Z; ODeliver 10%Z; ODeliver 10%Z] in
  rev (evs st) = [EProbe 0 0 SysSend 0%Z 64%Z WErr; ESetFlags 0 0 true; EOutcome 0 true;
                  EAttempt 0 0 SysWrite 1%Z 0%Z WAgain; EAttempt 0 0 SysWrite 1%Z 0%Z WAgain; EAttempt 0 0 SysWrite 1%Z 0%Z WAgain]
  /\ c_nonblock (getc (chans st) 0) = true /\ readable_bytes (getc (chans st) 0) = 3 /\ c_since (getc (chans st) 0) = 3.
Proof. vm_compute. repeat split; reflexivity. Qed.

(** after a full drain the next delivery gets its byte in; unregister closes once *)
Example ex_drain_then_byte :
  let st := run accept_cap [pipe_full] [ORegister true 10%Z 0 OOk; ODeliver 10%Z; ODrain 0 3; ODeliver 10%Z; ODeliver 12%Z; OUnregister 0; ODeliver 10%Z; OUnregister 0] in
  c_q (getc (chans st) 0) = [UWake] /\ c_since (getc (chans st) 0) = 1 /\ count_close 0 (evs st) = 1
  /\ length (filter (uses 0) (evs st)) = 4.
Proof. vm_compute. repeat split; reflexivity. Qed.

(** a datagram socket: probe = one empty datagram, then one message per delivery *)
Example ex_dgram :
  let st := run accept_cap [mkSpec KDgram false [] true false false 4] [ORegister true 10%Z 0 OOk; ODeliver 10%Z; ODeliver 10%Z] in
  c_q (getc (chans st) 0) = [UProbe; UWake; UWake] /\ readable_bytes (getc (chans st) 0) = 2
  /\ c_nonblock (getc (chans st) 0) = false /\ map r_method (regs st) = [Send].
Proof. vm_compute. repeat split; reflexivity. Qed.

(** rejected registrations: forbidden signal (panic), OS error, invalid descriptor, fcntl failure *)
Example ex_rejected :
  let st := run accept_cap [pipe_full; mkSpec KStream false [] true false false 2; mkSpec KOther false [] false false false 0]
                [ORegister false 9%Z 0 OPanic; ORegister true 100%Z 1 OErr; ORegister false 10%Z 7 OOk; ORegister false 10%Z 2 OOk; ODeliver 10%Z] in
  map r_status (regs st) = [Rejected; Rejected; Rejected; Rejected]
  /\ map (fun id => count_close id (evs st)) [0;1;2;3;4] = [1;1;1;1;0]
  /\ length (filter (fun e => match e with EAttempt _ _ _ _ _ _ => true | _ => false end) (evs st)) = 0.
Proof. vm_compute. repeat split; reflexivity. Qed.

Example ex_accept_cap_empty : forall clk c, 1 <= c_cap c -> c_q c = [] -> accept_cap clk c = true.
Proof. intros clk c H Q. unfold accept_cap. rewrite Q. cbn. destruct (c_cap c); [lia|reflexivity]. Qed.
