(** C13 - the property-level statements and their proofs / refutation (DESIGN 5.13, 3.6). *)
From Coq Require Import ZArith List Bool Arith Lia.
From SH Require Import gen.Extracted_pipe pipe.Model pipe.Spec pipe.Proofs.
Import ListNotations.
Open Scope nat_scope.

Lemma sum_bytes_pos : forall q, q <> [] -> Forall nonempty_unit q -> 1 <= sum_bytes q.
Proof.
  intros q N F. destruct q as [|u t]; [congruence|]. inversion F; subst.
  unfold nonempty_unit in *. cbn [sum_bytes]. lia.
Qed.

Lemma cinv_full : forall (W : Prop) accept c, accept_empty accept -> W -> cinv W accept c -> chan_ok_full c.
Proof.
  intros W accept c HA HW H K. destruct (H HA HW K) as (H1 & H2 & H3). split; [exact H1|].
  intro S. specialize (H2 S). unfold readable_bytes.
  destruct (c_kind c) eqn:EK; try discriminate K.
  - destruct (c_q c); [congruence|cbn; lia].
  - destruct (c_q c); [congruence|cbn; lia].
  - apply sum_bytes_pos; auto.
Qed.

(** the first sentence of C13, every kind (datagram sockets included), in bytes *)
Theorem one_nonblocking_byte : one_nonblocking_byte_statement.
Proof.
  intros accept HA w h HW.
  pose proof (Inv_run (world_in_bytes w) accept w h (fun x => x)) as I. split.
  - intro sig. apply (Inv_deliver _ accept _ sig I). exact HA.
  - intro ch. apply (cinv_full (world_in_bytes w) accept); [exact HA|exact HW|]. apply (inv_chan _ accept _ I).
Qed.

(** Regression witness: with the probe that the code used BEFORE the repair (a zero-length send,
    [ProbeEmptySend]) the same model violates the statement: the queue of a datagram socket
    holds nothing but the empty probe datagram, is full, and swallows the wake byte. *)
Definition accept_one (clk : nat) (c : chan) : bool := match c_q c with [] => true | _ => false end.
Definition corner_world : list chan_spec := [mkSpec KDgram false [] true false false 1].
Definition corner_history : list op := [ORegister false 10%Z 0 OOk; ODeliver 10%Z].

Lemma accept_one_empty : accept_empty accept_one.
Proof. intros clk c Q. unfold accept_one. rewrite Q. reflexivity. Qed.

Lemma corner_world_in_bytes : world_in_bytes corner_world.
Proof. intros s [E|[]] _. subst s. constructor. Qed.

Lemma empty_send_probe_witness :
  let st := run_from accept_one (ProbeEmptySend 0%Z os_MSG_DONTWAIT) (init corner_world) corner_history in
  let c := getc (chans st) 0 in
  c_kind c = KDgram /\ c_q c = [UProbe] /\ c_since c = 1 /\ readable_bytes c = 0 /\ ~ chan_ok_full c.
Proof.
  cbn zeta. vm_compute. repeat split; try reflexivity.
  intro H. destruct (H eq_refl) as [_ X]. specialize (X (le_n 1)). inversion X.
Qed.

(** ... and with the extracted probe the same history leaves the byte readable *)
Example corner_now_fine :
  let c := getc (chans (run accept_one corner_world corner_history)) 0 in
  c_q c = [UWake] /\ c_since c = 1 /\ readable_bytes c = 1.
Proof. vm_compute. repeat split; reflexivity. Qed.

(* ---------------------------------------------------------------- descriptor life cycle *)
Lemma count_close_rev : forall id l, count_close id (rev l) = count_close id l.
Proof.
  intros id l. induction l as [|e t IH]; [reflexivity|].
  cbn [rev]. rewrite count_close_app, IH. destruct e; cbn; try lia. destruct (Nat.eqb id0 id); lia.
Qed.

Lemma ok_rev_no_use_after : forall id a b,
  ok_rev (a ++ EClose id :: b) -> forall e, In e a -> uses id e = false.
Proof.
  induction a as [|x t IH]; intros b O e I; [contradiction|].
  cbn [app ok_rev] in O. destruct O as [O1 O2]. destruct I as [I|I].
  - subst x. destruct (uses id e) eqn:U; [|reflexivity].
    specialize (O1 id U). rewrite count_close_app in O1. cbn in O1. rewrite Nat.eqb_refl in O1. lia.
  - eapply IH; eassumption.
Qed.

Definition fd_lifecycle_statement : Prop :=
  forall accept (w : list chan_spec) (h : list op),
    let st := run accept w h in
    let trace := rev (evs st) in                       (* oldest first *)
    (forall id r, nth_error (regs st) id = Some r ->
                  count_close id trace = closes_expected (r_status r)) /\
    (forall id, length (regs st) <= id -> count_close id trace = 0) /\
    (forall id pre post, trace = pre ++ EClose id :: post ->
                         forallb (fun e => negb (uses id e)) post = true).

Theorem fd_lifecycle : fd_lifecycle_statement.
Proof.
  intros accept w h st trace. pose proof (Inv_run False accept w h (fun x => match x with end)) as I. fold st in I.
  destruct I as [_ _ Icl If Io]. unfold trace. split; [|split].
  - intros id r H. rewrite count_close_rev. apply Icl. exact H.
  - intros id L. rewrite count_close_rev. apply If. exact L.
  - intros id pre post E. apply forallb_forall. intros e IN.
    assert (E' : evs st = rev post ++ EClose id :: rev pre).
    { rewrite <- (rev_involutive (evs st)), E, rev_app_distr. cbn [rev]. rewrite <- app_assoc. reflexivity. }
    rewrite E' in Io. rewrite (ok_rev_no_use_after id _ _ Io e); [reflexivity|].
    apply in_rev in IN. exact IN.
Qed.

(** how a registration ends is decided by the registry's answer and by set_flags *)
Theorem registration_outcome : forall accept st g sig ch o,
  let st' := register accept rr_probe st g sig ch o in
  exists r, regs st' = regs st ++ [r] /\
            (o <> OOk -> r_status r = Rejected) /\
            (r_status r = Active \/ r_status r = Rejected).
Proof.
  intros accept st g sig ch o. cbn zeta.
  unfold register, run_probe, rr_probe, rr_send_pats, rr_then, rr_else, rr_after, register_conv.
  destruct (sockopt_result (getc (chans st) ch) 1%Z 3%Z);
    cbn [existsb pat_matches orb app interp drop_if];
    try (destruct (set_flags _)); destruct o; cbn;
    eexists; (split; [reflexivity|]); cbn; split; auto; intro X; congruence.
Qed.

(* ---------------------------------------------------------------- iterator write end *)
Theorem iterator_wake_nonblocking : forall accept clk c,
  snd (fst (wake_arm iter_wake_method)) = 1%Z /\
  sys_result accept clk c (fst (fst (wake_arm iter_wake_method))) (snd (fst (wake_arm iter_wake_method)))
             (snd (wake_arm iter_wake_method)) <> WBlocks.
Proof.
  intros accept clk c. split; [apply wake_arm_good|].
  apply wake_never_blocks. unfold iter_wake_method. discriminate.
Qed.

(* ---------------------------------------------------------------- examples (hypotheses are satisfiable, runs are not trivial) *)
Definition pipe_full : chan_spec := mkSpec KPipe false [1;1;1] true false false 3.   (* blocking, full *)

(** a blocking pipe that is completely full: registration sets O_NONBLOCK, three deliveries make
    three attempts that all fail with EAGAIN (none blocks), the reader sees the 3 old bytes *)
Example ex_full_pipe :
  let st := run accept_cap [pipe_full] [ORegister false 10%Z 0 OOk; ODeliver 10%Z; ODeliver 10%Z; ODeliver 10%Z] in
  rev (evs st) = [EGetsockopt 0 0 1%Z 3%Z PROther; ESetFlags 0 0 true; EOutcome 0 true;
                  EAttempt 0 0 SysWrite 1%Z 0%Z WAgain; EAttempt 0 0 SysWrite 1%Z 0%Z WAgain; EAttempt 0 0 SysWrite 1%Z 0%Z WAgain]
  /\ c_nonblock (getc (chans st) 0) = true /\ readable_bytes (getc (chans st) 0) = 3 /\ c_since (getc (chans st) 0) = 3.
Proof. vm_compute. repeat split; reflexivity. Qed.

(** after a full drain the next delivery gets its byte in; unregister closes once *)
Example ex_drain_then_byte :
  let st := run accept_cap [pipe_full] [ORegister true 10%Z 0 OOk; ODeliver 10%Z; ODrain 0 3; ODeliver 10%Z; ODeliver 12%Z; OUnregister 0; ODeliver 10%Z; OUnregister 0] in
  c_q (getc (chans st) 0) = [UWake] /\ c_since (getc (chans st) 0) = 1 /\ count_close 0 (evs st) = 1
  /\ length (filter (uses 0) (evs st)) = 4.
Proof. vm_compute. repeat split; reflexivity. Qed.

(** a datagram socket: the probe queues nothing, then one one-byte message per delivery *)
Example ex_dgram :
  let st := run accept_cap [mkSpec KDgram false [] true false false 4] [ORegister true 10%Z 0 OOk; ODeliver 10%Z; ODeliver 10%Z] in
  c_q (getc (chans st) 0) = [UWake; UWake] /\ readable_bytes (getc (chans st) 0) = 2
  /\ c_nonblock (getc (chans st) 0) = false /\ map r_method (regs st) = [Send].
Proof. vm_compute. repeat split; reflexivity. Qed.

(** rejected registrations: forbidden signal (panic), OS error, invalid descriptor, fcntl failure *)
Example ex_rejected :
  let st := run accept_cap [pipe_full; mkSpec KStream false [] true false false 2; mkSpec KOther false [] false false false 0]
                [ORegister false 9%Z 0 OPanic; ORegister true 100%Z 1 OErr; ORegister false 10%Z 7 OOk; ORegister false 10%Z 2 OOk; ODeliver 10%Z] in
  map r_status (regs st) = [Rejected; Rejected; Rejected; Rejected]
  /\ map (fun id => count_close id (evs st)) [0;1;2;3;4] = [1;1;1;1;0]
  /\ length (filter (fun e => match e with EAttempt _ _ _ _ _ _ => true | _ => false end) (evs st)) = 0.
Proof. vm_compute. repeat split; reflexivity. Qed.

Example ex_accept_cap_empty : forall clk c, 1 <= c_cap c -> c_q c = [] -> accept_cap clk c = true.
Proof. intros clk c H Q. unfold accept_cap. rewrite Q. cbn. destruct (c_cap c); [lia|reflexivity]. Qed.
