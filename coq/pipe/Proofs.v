(** C13 - invariants and proofs (DESIGN 5.13). *)
From Coq Require Import ZArith List Bool Arith Lia.
From SH Require Import gen.Extracted_pipe pipe.Model pipe.Spec.
Import ListNotations.
Open Scope nat_scope.
Arguments count_wake : simpl never.

(* ---------------------------------------------------------------- channels *)
Lemma getc_updc_cases : forall cs ch f ch',
  getc (updc cs ch f) ch' = getc cs ch' \/
  (ch' = ch /\ ch < length cs /\ getc (updc cs ch f) ch' = f (getc cs ch)).
Proof.
  unfold getc. induction cs as [|c t IH]; intros ch f ch'.
  - left. reflexivity.
  - destruct ch as [|n]; destruct ch' as [|m]; cbn.
    + right. repeat split; lia.
    + left. reflexivity.
    + left. reflexivity.
    + destruct (IH n f m) as [H|(H1 & H2 & H3)].
      * left. exact H.
      * right. subst. repeat split; try lia. exact H3.
Qed.

Lemma getc_updc_same : forall cs ch f, ch < length cs -> getc (updc cs ch f) ch = f (getc cs ch).
Proof.
  unfold getc. induction cs as [|c t IH]; intros ch f H; cbn in H; [lia|].
  destruct ch; cbn; [reflexivity|]. apply IH. lia.
Qed.

Lemma getc_out : forall cs ch, length cs <= ch -> getc cs ch = invalid_chan.
Proof. intros. unfold getc. apply nth_overflow. exact H. Qed.

Lemma getc_valid_in_range : forall cs ch, c_kind (getc cs ch) <> KInvalid -> ch < length cs.
Proof.
  intros cs ch H. destruct (Nat.lt_ge_cases ch (length cs)) as [L|G]; [exact L|].
  rewrite getc_out in H by exact G. cbn in H. congruence.
Qed.

(** [ext cs cs']: kinds are unchanged and O_NONBLOCK is never cleared *)
Definition ext (cs cs' : list chan) : Prop :=
  forall ch, c_kind (getc cs' ch) = c_kind (getc cs ch) /\
             (c_nonblock (getc cs ch) = true -> c_nonblock (getc cs' ch) = true).

Lemma ext_refl : forall cs, ext cs cs.
Proof. intros cs ch. split; auto. Qed.

Lemma ext_trans : forall a b c, ext a b -> ext b c -> ext a c.
Proof.
  intros a b c H1 H2 ch. destruct (H1 ch) as [K1 N1]. destruct (H2 ch) as [K2 N2].
  split; [congruence|auto].
Qed.

Lemma ext_updc : forall cs ch f,
  (forall c, c_kind (f c) = c_kind c /\ (c_nonblock c = true -> c_nonblock (f c) = true)) ->
  ext cs (updc cs ch f).
Proof.
  intros cs ch f Hf ch'. destruct (getc_updc_cases cs ch f ch') as [E|(E1 & _ & E2)].
  - rewrite E. auto.
  - subst. rewrite E2. apply Hf.
Qed.

(* ---------------------------------------------------------------- per-channel invariant *)
Definition nonempty_unit (u : qunit) : Prop := 1 <= ubytes u.

Lemma Forall_skipn_ : forall (A : Type) (P : A -> Prop) n (l : list A), Forall P l -> Forall P (skipn n l).
Proof.
  intros A P. induction n; intros l H; [exact H|]. destruct l; [constructor|].
  cbn. inversion H; subst. apply IHn. assumption.
Qed.

Section Guard.
(** [W]: what is assumed of the initial world (instantiated with [world_in_bytes w] for the first
    theorem and with [False] for the life-cycle theorem, which needs nothing) *)
Variable W : Prop.

Definition cinv (accept : nat -> chan -> bool) (c : chan) : Prop :=
  accept_empty accept -> W ->
  queue_kind (c_kind c) = true ->
  count_wake (c_q c) <= c_since c /\ (1 <= c_since c -> c_q c <> []) /\
  (c_kind c = KDgram -> Forall nonempty_unit (c_q c)).

Lemma cinv_invalid : forall accept, cinv accept invalid_chan.
Proof. intros accept _ _ H. discriminate H. Qed.

Lemma count_wake_app : forall a b, count_wake (a ++ b) = count_wake a + count_wake b.
Proof. intros. unfold count_wake. rewrite filter_app, app_length. reflexivity. Qed.

Lemma count_wake_skipn : forall n q, count_wake (skipn n q) <= count_wake q.
Proof.
  induction n; intros q; [apply Nat.le_refl|]. destruct q as [|u t]; [apply Nat.le_refl|].
  specialize (IHn t). change (skipn (S n) (u :: t)) with (skipn n t).
  unfold count_wake in *. cbn [filter]. destruct (is_wake u); cbn [length]; lia.
Qed.

Lemma cinv_drain : forall accept n c, cinv accept c -> cinv accept (drain n c).
Proof.
  intros accept n c H HA HW K. unfold drain in K |- *. cbn [c_kind c_q c_since] in K |- *.
  specialize (H HA HW K). destruct H as (H1 & H2 & H3).
  pose proof (count_wake_skipn n (c_q c)) as P.
  assert (F : c_kind c = KDgram -> Forall nonempty_unit (skipn n (c_q c))).
  { intro D. apply Forall_skipn_. auto. }
  destruct (skipn n (c_q c)) eqn:E.
  - split; [apply Nat.le_refl|]. split; [intros X; inversion X|exact F].
  - split; [lia|]. split; [intros _; discriminate|exact F].
Qed.

Lemma app_one_not_nil : forall (A : Type) (q : list A) (u : A), q ++ [u] <> [].
Proof. intros A q u H. destruct q; discriminate H. Qed.

Lemma units_of_one : forall k, queue_kind k = true -> units_of k 1%Z = [UWake].
Proof. destruct k; intro H; try discriminate H; reflexivity. Qed.

(** a wake on a channel that satisfies the invariant keeps it, provided a pipe is written to with
    [write] (a [send] on a pipe is ENOTSOCK: nothing would ever arrive) *)
Lemma cinv_wake : forall accept clk c m,
  cinv accept c -> (c_kind c = KPipe -> m = Write) ->
  cinv accept (bump (apply_write (sys_result accept clk c (fst (fst (wake_arm m))) (snd (fst (wake_arm m))) (snd (wake_arm m)))
                          (snd (fst (wake_arm m))) c)).
Proof.
  intros accept clk c m HC HP HA HW K.
  assert (K' : queue_kind (c_kind c) = true).
  { revert K. unfold bump, apply_write. cbn. destruct (sys_result _ _ _ _ _ _); cbn; auto. }
  destruct (HC HA HW K') as (H1 & H2 & H3).
  assert (NE : accept clk c = false -> c_q c <> []).
  { intros EA Q. rewrite (HA clk c Q) in EA. discriminate. }
  destruct m; cbn [wake_arm fst snd]; unfold sys_result;
    destruct (c_kind c) eqn:EK; cbn in K'; try discriminate K';
    try (specialize (HP eq_refl); discriminate HP);
    cbn [Z.eqb Pos.eqb];
    (destruct (accept clk c) eqn:EA;
     [ unfold bump, apply_write; cbn [c_kind c_q c_since]; rewrite EK;
       rewrite units_of_one by reflexivity; rewrite count_wake_app; unfold count_wake at 2; cbn; split; [lia|];
       split; [intros _; apply app_one_not_nil|];
       intro D; first [discriminate D | apply Forall_app; split; [auto|constructor; [unfold nonempty_unit; cbn; lia|constructor]]]
     | specialize (NE eq_refl); unfold wait_or_again;
       match goal with |- context [if ?b then WAgain else WBlocks] => destruct b end;
       cbn; rewrite ?EK; (split; [lia|split; [auto|intro D; first [discriminate D | auto]]]) ]).
Qed.

(* ---------------------------------------------------------------- facts read off the extracted data *)
Lemma wake_arm_good : forall m,
  snd (fst (wake_arm m)) = 1%Z /\
  match fst (fst (wake_arm m)) with
  | SysWrite => m = Write
  | SysSend => dontwait (snd (wake_arm m)) = true
  end.
Proof. destruct m; vm_compute; auto. Qed.

Lemma wake_never_blocks : forall accept clk c m,
  (m = Write -> c_nonblock c = true) ->
  sys_result accept clk c (fst (fst (wake_arm m))) (snd (fst (wake_arm m))) (snd (wake_arm m)) <> WBlocks.
Proof.
  intros accept clk c m H.
  destruct m; cbn [wake_arm fst snd]; unfold sys_result, wait_or_again.
  - change (dontwait 64) with true. rewrite orb_true_r.
    destruct (c_kind c); cbn [Z.eqb]; try discriminate; destruct (accept clk c); discriminate.
  - rewrite (H eq_refl).
    destruct (c_kind c); cbn [Z.eqb]; try discriminate;
      try (destruct (accept clk c); discriminate).
    destruct (c_other_err c); [discriminate|]. destruct (c_other_full c); discriminate.
Qed.

Lemma wake_update_preserves : forall r len c,
  c_kind (bump (apply_write r len c)) = c_kind c /\
  (c_nonblock c = true -> c_nonblock (bump (apply_write r len c)) = true).
Proof. intros r len c. destruct r; cbn; auto. Qed.

Lemma apply_write_preserves : forall r len c,
  c_kind (apply_write r len c) = c_kind c /\
  (c_nonblock c = true -> c_nonblock (apply_write r len c) = true).
Proof. intros r len c. destruct r; cbn; auto. Qed.

Lemma set_flags_spec : forall c c', set_flags c = Some c' ->
  c_nonblock c' = true /\ c_kind c' = c_kind c /\ c_q c' = c_q c /\ c_since c' = c_since c /\
  c_kind c <> KInvalid.
Proof.
  intros c c'. unfold set_flags, fcntl_fails.
  destruct c as [k nb q si fo ofl oe cap]. cbn [c_kind c_nonblock c_fcntl_ok].
  destruct fo; destruct k; destruct nb; vm_compute; intro H; inversion H; subst;
    repeat split; discriminate.
Qed.

(* ---------------------------------------------------------------- registrations *)
Definition reg_ok (cs : list chan) (r : reg) : Prop :=
  r_status r = Active ->
  (r_method r = Write -> c_nonblock (getc cs (r_ch r)) = true) /\
  (c_kind (getc cs (r_ch r)) = KPipe -> r_method r = Write).

Lemma reg_ok_ext : forall cs cs' r, ext cs cs' -> reg_ok cs r -> reg_ok cs' r.
Proof.
  intros cs cs' r E H A. destruct (H A) as [H1 H2]. destruct (E (r_ch r)) as [K N].
  split; intro X; [apply N, H1, X|apply H2; congruence].
Qed.

Lemma Forall_reg_ok_ext : forall cs cs' rs, ext cs cs' -> Forall (reg_ok cs) rs -> Forall (reg_ok cs') rs.
Proof. intros. eapply Forall_impl; [|eassumption]. intros a Ha. eapply reg_ok_ext; eassumption. Qed.

Fixpoint ok_rev (l : list event) : Prop :=
  match l with
  | [] => True
  | e :: older => (forall id, uses id e = true -> count_close id older = 0) /\ ok_rev older
  end.

Definition attempt_of (cs0 : list chan) (allregs : list reg) (e : event) : Prop :=
  exists id ch s fl r,
    e = EAttempt id ch s 1%Z fl r /\ r <> WBlocks /\
    match s with
    | SysWrite => c_nonblock (getc cs0 ch) = true
    | SysSend => dontwait fl = true
    end /\
    exists rg, nth_error allregs id = Some rg /\ r_status rg = Active.

Lemma active_for_status : forall sig r, active_for sig r = true -> r_status r = Active.
Proof. unfold active_for. intros sig r. destruct (r_status r); auto; discriminate. Qed.

Lemma deliver_loop_spec : forall accept allregs cs0 sig rs id clk cs,
  (forall k r, nth_error rs k = Some r -> nth_error allregs (id + k) = Some r) ->
  ext cs0 cs -> (forall ch, cinv accept (getc cs ch)) -> Forall (reg_ok cs0) rs ->
  ext cs0 (fst (fst (deliver_loop accept rs id sig clk cs))) /\
  (forall ch, cinv accept (getc (fst (fst (deliver_loop accept rs id sig clk cs))) ch)) /\
  map ev_id (snd (deliver_loop accept rs id sig clk cs)) = active_ids_from rs id sig /\
  Forall (attempt_of cs0 allregs) (snd (deliver_loop accept rs id sig clk cs)).
Proof.
  intros accept allregs cs0 sig rs. induction rs as [|r t IH]; intros id clk cs HI HE HC HR.
  - cbn. split; [exact HE|split; [exact HC|split; [reflexivity|constructor]]].
  - cbn [deliver_loop active_ids_from].
    assert (HIt : forall k r0, nth_error t k = Some r0 -> nth_error allregs (S id + k) = Some r0).
    { intros k r0 Hk. replace (S id + k) with (id + S k) by lia. apply HI. exact Hk. }
    inversion HR as [|r' t' HRr HRt]; subst.
    destruct (active_for sig r) eqn:EA.
    + pose proof (active_for_status _ _ EA) as ST.
      destruct (wake_arm_good (r_method r)) as [WL WS].
      pose proof (reg_ok_ext _ _ _ HE HRr ST) as [RN RP].
      pose proof (wake_never_blocks accept clk (getc cs (r_ch r)) (r_method r) RN) as NB.
      pose proof (cinv_wake accept clk (getc cs (r_ch r)) (r_method r) (HC (r_ch r)) RP) as CW.
      destruct (wake_arm (r_method r)) as [[s len] fl] eqn:EW. cbn [fst snd] in *. subst len.
      set (res := sys_result accept clk (getc cs (r_ch r)) s 1%Z fl) in *.
      set (cs1 := updc cs (r_ch r) (fun c => bump (apply_write res 1%Z c))).
      assert (E1 : ext cs0 cs1).
      { eapply ext_trans; [exact HE|]. apply ext_updc. intro c. apply wake_update_preserves. }
      assert (C1 : forall ch, cinv accept (getc cs1 ch)).
      { intro ch. unfold cs1. destruct (getc_updc_cases cs (r_ch r) (fun c => bump (apply_write res 1%Z c)) ch) as [E|(E & _ & E')].
        - rewrite E. apply HC.
        - subst ch. rewrite E'. exact CW. }
      specialize (IH (S id) (S clk) cs1 HIt E1 C1 HRt).
      destruct (deliver_loop accept t (S id) sig (S clk) cs1) as [[cs2 clk2] out] eqn:ED.
      cbn [fst snd] in *. destruct IH as (I1 & I2 & I3 & I4).
      split; [exact I1|split; [exact I2|split]].
      * cbn. rewrite I3. reflexivity.
      * constructor; [|exact I4].
        exists id, (r_ch r), s, fl, res. split; [reflexivity|split; [exact NB|split]].
        -- destruct s; [|exact WS]. destruct (HRr ST) as [X _]. apply X. exact WS.
        -- exists r. split; [|exact ST]. replace id with (id + 0) by lia. apply HI. reflexivity.
    + apply IH; auto.
Qed.

(* ---------------------------------------------------------------- the invariant *)
Record Inv (accept : nat -> chan -> bool) (st : state) : Prop := mkInv {
  inv_chan : forall ch, cinv accept (getc (chans st) ch);
  inv_regs : Forall (reg_ok (chans st)) (regs st);
  inv_close : forall id r, nth_error (regs st) id = Some r ->
              count_close id (evs st) = closes_expected (r_status r);
  inv_fresh : forall id, length (regs st) <= id -> count_close id (evs st) = 0;
  inv_order : ok_rev (evs st)
}.

Lemma count_close_app : forall id a b, count_close id (a ++ b) = count_close id a + count_close id b.
Proof.
  intros id a b. induction a as [|e t IH]; [reflexivity|].
  destruct e; cbn; auto. destruct (Nat.eqb id0 id); cbn; lia.
Qed.

Lemma count_close_other : forall i id l, Forall (fun e => ev_id e = i) l -> i <> id -> count_close id l = 0.
Proof.
  intros i id l H N. induction H as [|e t He Ht IH]; [reflexivity|].
  destruct e; cbn in *; auto. subst. destruct (Nat.eqb_spec i id); [contradiction|auto].
Qed.

Lemma uses_ev_id : forall id e, uses id e = true -> ev_id e = id.
Proof. intros id e. destruct e; cbn; try discriminate; intro H; apply Nat.eqb_eq; exact H. Qed.

Lemma ok_rev_app : forall a b,
  ok_rev a -> ok_rev b ->
  (forall id e, In e a -> uses id e = true -> count_close id b = 0) ->
  ok_rev (a ++ b).
Proof.
  induction a as [|e t IH]; intros b Ha Hb H; [exact Hb|].
  cbn in Ha. destruct Ha as [H1 H2]. cbn [app ok_rev]. split.
  - intros id U. rewrite count_close_app. rewrite (H1 id U). rewrite (H id e (or_introl eq_refl) U). reflexivity.
  - apply IH; auto. intros id e' I U. apply (H id e'); [right; exact I|exact U].
Qed.

Lemma nth_error_snoc : forall (A : Type) (l : list A) (x : A) id y,
  nth_error (l ++ [x]) id = Some y ->
  (id < length l /\ nth_error l id = Some y) \/ (id = length l /\ y = x).
Proof.
  intros A l x id y H. destruct (Nat.lt_ge_cases id (length l)) as [L|G].
  - left. split; [exact L|]. rewrite nth_error_app1 in H by exact L. exact H.
  - right. rewrite nth_error_app2 in H by exact G.
    destruct (id - length l) as [|k] eqn:E.
    + cbn in H. inversion H. split; [lia|reflexivity].
    + cbn in H. destruct k; discriminate H.
Qed.

(** pushing a new registration whose events [en] all concern the fresh descriptor *)
Lemma Inv_push : forall accept st cs2 nr en clk,
  Inv accept st -> ext (chans st) cs2 -> (forall ch, cinv accept (getc cs2 ch)) -> reg_ok cs2 nr ->
  Forall (fun e => ev_id e = length (regs st)) en ->
  count_close (length (regs st)) en = closes_expected (r_status nr) ->
  ok_rev en ->
  Inv accept (mkState cs2 (regs st ++ [nr]) clk (en ++ evs st)).
Proof.
  intros accept st cs2 nr en clk I E C R F K O. destruct I as [Ic Ir Icl If Io].
  constructor; cbn [chans regs evs].
  - exact C.
  - apply Forall_app. split; [eapply Forall_reg_ok_ext; eassumption|constructor; [exact R|constructor]].
  - intros id r H. rewrite count_close_app. apply nth_error_snoc in H. destruct H as [[L H]|[H1 H2]].
    + rewrite (count_close_other (length (regs st)) id en F) by lia. cbn. apply Icl. exact H.
    + subst. rewrite K. rewrite If by lia. lia.
  - intros id L. rewrite app_length in L. cbn in L. rewrite count_close_app.
    rewrite (count_close_other (length (regs st)) id en F) by lia. rewrite If by lia. reflexivity.
  - apply ok_rev_app; auto. intros id e I U. apply uses_ev_id in U.
    rewrite Forall_forall in F. rewrite (F e I) in U. subst id. apply If. lia.
Qed.

Lemma send_result_kind : forall accept clk c len fl,
  sys_result accept clk c SysSend len fl = WOk \/ sys_result accept clk c SysSend len fl = WAgain ->
  c_kind c <> KPipe.
Proof.
  intros accept clk c len fl H K. unfold sys_result in H. rewrite K in H. destruct H; discriminate.
Qed.

Lemma sockopt_zero_kind : forall c level opt, sockopt_result c level opt = PRZero -> c_kind c <> KPipe.
Proof.
  intros c level opt H K. unfold sockopt_result in H. rewrite K in H.
  destruct ((level =? os_SOL_SOCKET)%Z && (opt =? os_SO_TYPE)%Z)%bool; discriminate H.
Qed.

Lemma set_flags_upd : forall accept cs ch c',
  set_flags (getc cs ch) = Some c' ->
  (forall x, cinv accept (getc cs x)) ->
  ext cs (updc cs ch (fun _ => c')) /\
  (forall x, cinv accept (getc (updc cs ch (fun _ => c')) x)) /\
  c_nonblock (getc (updc cs ch (fun _ => c')) ch) = true.
Proof.
  intros accept cs ch c' H C. destruct (set_flags_spec _ _ H) as (N & K & Q & S & V).
  pose proof (getc_valid_in_range cs ch V) as L.
  split; [|split].
  - intro x. destruct (getc_updc_cases cs ch (fun _ => c') x) as [E|(E & _ & E')].
    + rewrite E. auto.
    + subst x. rewrite E'. split; [exact K|intros _; exact N].
  - intro x. destruct (getc_updc_cases cs ch (fun _ => c') x) as [E|(E & _ & E')].
    + rewrite E. apply C.
    + subst x. rewrite E'. pose proof (C ch) as Cc. unfold cinv in *. rewrite K, Q, S. exact Cc.
  - rewrite getc_updc_same by exact L. exact N.
Qed.

Lemma reg_ok_rejected : forall cs sig ch m, reg_ok cs (mkReg sig ch m Rejected).
Proof. intros cs sig ch m A. discriminate A. Qed.

Ltac fin t :=
  (t; [ repeat constructor
      | cbn; rewrite ?Nat.eqb_refl; reflexivity
      | cbn; repeat split; intros; try discriminate; reflexivity ]).

Lemma Inv_register : forall accept st g sig ch o, Inv accept st -> Inv accept (register accept rr_probe st g sig ch o).
Proof.
  intros accept st g sig ch o I.
  unfold register, run_probe, rr_probe, rr_send_pats, rr_then, rr_else, rr_after, register_conv.
  set (id := length (regs st)).
  pose proof (sockopt_zero_kind (getc (chans st) ch) 1%Z 3%Z) as SK.
  set (r := sockopt_result (getc (chans st) ch) 1%Z 3%Z) in *.
  pose proof (ext_refl (chans st)) as E1. pose proof (inv_chan accept st I) as C1.
  set (cs1 := chans st) in *.
  assert (SendOk : r = PRZero -> reg_ok cs1 (mkReg sig ch Send Active)).
  { intros H _. cbn. split; [discriminate|]. intro K. exfalso. exact (SK H K). }
  destruct r eqn:ER; cbn [existsb pat_matches orb app interp drop_if].
  - (* getsockopt answered 0: a socket, send *)
    destruct o; destruct g.
    all: try (fin ltac:(refine (Inv_push accept st cs1 (mkReg sig ch Send Active)
                 [EOutcome id true; EGetsockopt id ch 1%Z 3%Z PRZero] _ I E1 C1 (SendOk eq_refl) _ _ _))).
    all: fin ltac:(refine (Inv_push accept st cs1 (mkReg sig ch Write Rejected)
                 [EOutcome id false; EClose id; EGetsockopt id ch 1%Z 3%Z PRZero] _ I E1 C1 (reg_ok_rejected _ _ _ _) _ _ _)).
  - (* (getsockopt never says EAGAIN; kept total) write *)
    destruct (set_flags (getc cs1 ch)) as [c'|] eqn:SF.
    + destruct (set_flags_upd accept cs1 ch c' SF C1) as (E2 & C2 & N2).
      assert (WOK : reg_ok (updc cs1 ch (fun _ => c')) (mkReg sig ch Write Active)).
      { intros _. cbn. split; [intros _; exact N2|reflexivity]. }
      destruct o; destruct g.
      all: try (fin ltac:(refine (Inv_push accept st (updc cs1 ch (fun _ => c')) (mkReg sig ch Write Active)
                 [EOutcome id true; ESetFlags id ch true; EGetsockopt id ch 1%Z 3%Z PRWouldBlock] _ I E2 C2 WOK _ _ _))).
      all: fin ltac:(refine (Inv_push accept st (updc cs1 ch (fun _ => c')) (mkReg sig ch Write Rejected)
                 [EOutcome id false; EClose id; ESetFlags id ch true; EGetsockopt id ch 1%Z 3%Z PRWouldBlock] _ I E2 C2 (reg_ok_rejected _ _ _ _) _ _ _)).
    + destruct g.
      all: fin ltac:(refine (Inv_push accept st cs1 (mkReg sig ch Write Rejected)
                 [EOutcome id false; EClose id; ESetFlags id ch false; EGetsockopt id ch 1%Z 3%Z PRWouldBlock] _ I E1 C1 (reg_ok_rejected _ _ _ _) _ _ _)).
  - (* ENOTSOCK / EBADF: not a socket, write *)
    destruct (set_flags (getc cs1 ch)) as [c'|] eqn:SF.
    + destruct (set_flags_upd accept cs1 ch c' SF C1) as (E2 & C2 & N2).
      assert (WOK : reg_ok (updc cs1 ch (fun _ => c')) (mkReg sig ch Write Active)).
      { intros _. cbn. split; [intros _; exact N2|reflexivity]. }
      destruct o; destruct g.
      all: try (fin ltac:(refine (Inv_push accept st (updc cs1 ch (fun _ => c')) (mkReg sig ch Write Active)
                 [EOutcome id true; ESetFlags id ch true; EGetsockopt id ch 1%Z 3%Z PROther] _ I E2 C2 WOK _ _ _))).
      all: fin ltac:(refine (Inv_push accept st (updc cs1 ch (fun _ => c')) (mkReg sig ch Write Rejected)
                 [EOutcome id false; EClose id; ESetFlags id ch true; EGetsockopt id ch 1%Z 3%Z PROther] _ I E2 C2 (reg_ok_rejected _ _ _ _) _ _ _)).
    + destruct g.
      all: fin ltac:(refine (Inv_push accept st cs1 (mkReg sig ch Write Rejected)
                 [EOutcome id false; EClose id; ESetFlags id ch false; EGetsockopt id ch 1%Z 3%Z PROther] _ I E1 C1 (reg_ok_rejected _ _ _ _) _ _ _)).
Qed.

Lemma drain_preserves : forall n c,
  c_kind (drain n c) = c_kind c /\ (c_nonblock c = true -> c_nonblock (drain n c) = true).
Proof. intros. cbn. auto. Qed.

Lemma Inv_drain : forall accept st ch n, Inv accept st ->
  Inv accept (mkState (updc (chans st) ch (drain n)) (regs st) (clock st) (evs st)).
Proof.
  intros accept st ch n [Ic Ir Icl If Io]. constructor; cbn [chans regs evs]; auto.
  - intro x. destruct (getc_updc_cases (chans st) ch (drain n) x) as [E|(E & _ & E')].
    + rewrite E. apply Ic.
    + subst x. rewrite E'. apply cinv_drain. apply Ic.
  - eapply Forall_reg_ok_ext; [|exact Ir]. apply ext_updc. intro c. apply drain_preserves.
Qed.

Lemma nth_error_set_status_same : forall rs id s r,
  nth_error rs id = Some r ->
  nth_error (set_status rs id s) id = Some (mkReg (r_sig r) (r_ch r) (r_method r) s).
Proof.
  induction rs as [|x t IH]; intros id s r H; destruct id; cbn in *; try discriminate.
  - inversion H. reflexivity.
  - apply IH. exact H.
Qed.

Lemma nth_error_set_status_other : forall rs id s id', id' <> id ->
  nth_error (set_status rs id s) id' = nth_error rs id'.
Proof.
  induction rs as [|x t IH]; intros id s id' N; destruct id; destruct id'; cbn; auto; try lia.
Qed.

Lemma length_set_status : forall rs id s, length (set_status rs id s) = length rs.
Proof. induction rs as [|x t IH]; intros id s; destruct id; cbn; auto. Qed.

Lemma Forall_set_status : forall (P : reg -> Prop) rs id s,
  Forall P rs -> (forall r, P (mkReg (r_sig r) (r_ch r) (r_method r) s)) -> Forall P (set_status rs id s).
Proof.
  intros P. induction rs as [|x t IH]; intros id s H HP; destruct id; cbn; auto;
    inversion H; subst; constructor; auto.
Qed.

Lemma Inv_unregister : forall accept st id, Inv accept st -> Inv accept (unregister st id).
Proof.
  intros accept st id I. unfold unregister. destruct (nth_error (regs st) id) as [r|] eqn:EN; [|exact I].
  destruct (r_status r) eqn:ES; try exact I.
  destruct I as [Ic Ir Icl If Io].
  assert (L : id < length (regs st)) by (apply nth_error_Some; congruence).
  unfold drop_events, drop_ops. cbn [map app].
  constructor; cbn [chans regs evs].
  - exact Ic.
  - apply Forall_set_status; [exact Ir|]. intros r0 A. discriminate A.
  - intros id' r' H. cbn [count_close]. destruct (Nat.eqb_spec id id') as [EQ|NE].
    + subst id'. rewrite (nth_error_set_status_same _ _ _ _ EN) in H. inversion H. cbn.
      rewrite (Icl id r EN). rewrite ES. reflexivity.
    + rewrite nth_error_set_status_other in H by auto. apply Icl. exact H.
  - intros id' L'. rewrite length_set_status in L'. cbn [count_close].
    destruct (Nat.eqb_spec id id'); [lia|]. apply If. exact L'.
  - cbn. split; [intros; discriminate|exact Io].
Qed.

(** the events of a delivery are write attempts on descriptors that are not closed *)
Definition unclosed_attempt (older : list event) (e : event) : Prop :=
  exists id ch s len fl r, e = EAttempt id ch s len fl r /\ count_close id older = 0.

Lemma count_close_attempts : forall id out older,
  Forall (fun e => exists i ch s len fl r, e = EAttempt i ch s len fl r) out ->
  count_close id (rev out ++ older) = count_close id older.
Proof.
  intros id out. induction out as [|a t IH]; intros older H; [reflexivity|].
  inversion H as [|a' t' Ha Ht]; subst. cbn [rev]. rewrite <- app_assoc. cbn [app].
  rewrite IH by exact Ht. destruct Ha as (i & ch & s & len & fl & r & E). subst. reflexivity.
Qed.

Lemma ok_rev_attempts : forall out older,
  ok_rev older -> Forall (unclosed_attempt older) out -> ok_rev (rev out ++ older).
Proof.
  induction out as [|a t IH]; intros older O H; [exact O|].
  inversion H as [|a' t' Ha Ht]; subst. cbn [rev]. rewrite <- app_assoc. cbn [app].
  destruct Ha as (i & ch & s & len & fl & r & E & C). subst a.
  apply IH.
  - cbn. split; [|exact O]. intros id U. apply Nat.eqb_eq in U. subst. exact C.
  - eapply Forall_impl; [|exact Ht]. intros e (i' & ch' & s' & len' & fl' & r' & E' & C').
    exists i', ch', s', len', fl', r'. split; [exact E'|]. cbn. exact C'.
Qed.

Lemma Inv_deliver : forall accept st sig,
  Inv accept st -> Inv accept (fst (deliver accept st sig)) /\ (accept_empty accept -> delivery_ok accept st sig).
Proof.
  intros accept st sig I. unfold delivery_ok, deliver, active_ids.
  pose proof (deliver_loop_spec accept (regs st) (chans st) sig (regs st) 0 (clock st) (chans st)
                (fun k r H => H) (ext_refl _) (inv_chan accept st I) (inv_regs accept st I)) as S.
  destruct (deliver_loop accept (regs st) 0 sig (clock st) (chans st)) as [[cs clk] out].
  cbn [fst snd] in *. destruct S as (S1 & S2 & S3 & S4).
  destruct I as [Ic Ir Icl If Io].
  assert (AT : Forall (fun e => exists i ch s len fl r, e = EAttempt i ch s len fl r) out).
  { eapply Forall_impl; [|exact S4]. intros e (i & ch & s & fl & r & E & _). eauto 10. }
  split.
  - constructor; cbn [chans regs evs].
    + exact S2.
    + eapply Forall_reg_ok_ext; eassumption.
    + intros id r H. rewrite count_close_attempts by exact AT. apply Icl. exact H.
    + intros id L. rewrite count_close_attempts by exact AT. apply If. exact L.
    + apply ok_rev_attempts; [exact Io|].
      eapply Forall_impl; [|exact S4]. intros e (i & ch & s & fl & r & E & _ & _ & rg & RN & RA).
      exists i, ch, s, 1%Z, fl, r. split; [exact E|]. rewrite (Icl i rg RN). rewrite RA. reflexivity.
  - intros _. split; [exact S3|].
    eapply Forall_impl; [|exact S4]. intros e (i & ch & s & fl & r & E & NB & WW & _).
    exists i, ch, s, fl, r. auto.
Qed.

Lemma Inv_step : forall accept st o, Inv accept st -> Inv accept (step accept rr_probe st o).
Proof.
  intros accept st o I. destruct o; cbn [step].
  - apply Inv_register. exact I.
  - apply (Inv_deliver accept st sig I).
  - apply Inv_drain. exact I.
  - apply Inv_unregister. exact I.
Qed.

Lemma Inv_run_from : forall accept h st, Inv accept st -> Inv accept (run_from accept rr_probe st h).
Proof.
  intros accept. induction h as [|o t IH]; intros st I; [exact I|].
  cbn. apply IH. apply Inv_step. assumption.
Qed.

Lemma count_wake_map_foreign : forall l, count_wake (map UForeign l) = 0.
Proof. induction l; [reflexivity|]. unfold count_wake in *. cbn. exact IHl. Qed.

Lemma Inv_init : forall accept w, (W -> world_in_bytes w) -> Inv accept (init w).
Proof.
  intros accept w HWw. constructor; cbn [init chans regs evs].
  - intro ch. unfold getc.
    destruct (nth_in_or_default ch (map init_chan w) invalid_chan) as [H|H].
    + apply in_map_iff in H. destruct H as (s & E & IN). rewrite <- E.
      intros _ HW _. cbn. rewrite count_wake_map_foreign. split; [lia|]. split; [lia|].
      intro D. apply Forall_map. unfold nonempty_unit. cbn. apply (HWw HW s IN D).
    + rewrite H. apply cinv_invalid.
  - constructor.
  - intros id r H. destruct id; discriminate H.
  - reflexivity.
  - exact I.
Qed.

Lemma Inv_run : forall accept w h, (W -> world_in_bytes w) -> Inv accept (run accept w h).
Proof. intros. apply Inv_run_from. apply Inv_init. assumption. Qed.

End Guard.
