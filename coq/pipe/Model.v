(** C13 - executable model of the self-pipe wake (src/low_level/pipe.rs), DESIGN 5.13.

    The model INTERPRETS the data that translator/pipe.py regenerates from the source on every
    run (gen/Extracted_pipe.v): the arms of [wake], the probe / match arms / operation order of
    [register_raw], the flags of [set_flags], the operations of [Drop for WakeFd], the
    conversion used by [register].

    Operating system = oracle, never an axiom:
    - a CHANNEL is an open file description (pipe, socket, ...) with its kind, its O_NONBLOCK
      status flag (shared by all descriptors dup'ed from it), and the queue of units a reader
      at the other end can read (one unit = one byte for pipes and stream sockets, one message
      for datagram sockets);
    - whether a write of one more unit is accepted is the Section variable [accept] (capacity,
      page granularity of pipes, socket buffer accounting ... whatever the kernel does, it may
      even depend on the time [clock]); the only thing the theorems ask of it is
      [accept_empty]: an EMPTY queue accepts a unit (capacity >= 1);
    - [sys_result]: results of write / send per kind; BLOCKS iff the queue does not accept,
      the call is a [write] or a [send] without MSG_DONTWAIT, and O_NONBLOCK is clear.
    Every [ORegister] hands over a FRESH descriptor (number [id] = index of the registration)
    onto channel [ch]; several registrations may share a channel ([try_clone]/[dup]).  The
    registry is abstract: its answer (ok / error / forbidden-signal panic) is part of the
    history.  No proofs in this file. *)
From Coq Require Import ZArith List Bool Arith.
From SH Require Import gen.Extracted_pipe.
Import ListNotations.
Open Scope Z_scope.

Inductive kind := KPipe | KStream | KDgram | KOther | KInvalid.
(** what the reader finds: a unit that was there before / was written by somebody else (for
    datagram sockets [len] is the length of the message; for byte kinds a unit is one byte and
    [len] is not used), the empty datagram of register_raw's probe, a byte written by [wake]. *)
Inductive qunit := UForeign (len : nat) | UProbe | UWake.
Inductive wres := WOk | WAgain | WBlocks | WErr.

Record chan := mkChan {
  c_kind : kind;
  c_nonblock : bool;          (* O_NONBLOCK of the open file description *)
  c_q : list qunit;           (* oldest first *)
  c_since : nat;              (* ghost: write attempts of deliveries since the reader last emptied the queue *)
  c_fcntl_ok : bool;          (* oracle: fcntl(F_GETFL/F_SETFL) succeeds on it *)
  c_other_full : bool;        (* KOther only: a write would have to wait (tty, full eventfd counter ...) *)
  c_other_err : bool;         (* KOther only: a one byte write is an error (eventfd: EINVAL) *)
  c_cap : nat                 (* oracle data for [accept_cap] (capacity in units); the abstract [accept] need not look at it *)
}.

Definition invalid_chan : chan := mkChan KInvalid false [] 0 false false false 0.

Inductive status := Active | Removed | Rejected.
Record reg := mkReg { r_sig : Z; r_ch : nat; r_method : method; r_status : status }.

(** what register_raw's match sees: 0 | -1 with EAGAIN | anything else *)
Inductive pres := PRZero | PRWouldBlock | PROther.

Inductive event :=
| EProbe (id ch : nat) (s : sys) (len flags : Z) (r : wres)
| EGetsockopt (id ch : nat) (level opt : Z) (r : pres)
| ESetFlags (id ch : nat) (ok : bool)
| EAttempt (id ch : nat) (s : sys) (len flags : Z) (r : wres)
| EClose (id : nat)
| EOutcome (id : nat) (registered : bool).

Record state := mkState {
  chans : list chan;
  regs : list reg;            (* position = id = the descriptor handed over *)
  clock : nat;
  evs : list event            (* newest first *)
}.

Inductive outcome := OOk | OErr | OPanic.
Inductive op :=
| ORegister (generic : bool) (sig : Z) (ch : nat) (o : outcome)
| ODeliver (sig : Z)
| ODrain (ch n : nat)
| OUnregister (id : nat).

Definition getc (cs : list chan) (ch : nat) : chan := nth ch cs invalid_chan.

Fixpoint updc (cs : list chan) (ch : nat) (f : chan -> chan) : list chan :=
  match cs, ch with
  | [], _ => []
  | c :: t, O => f c :: t
  | c :: t, S n => c :: updc t n f
  end.

Definition dontwait (flags : Z) : bool := negb (Z.land flags os_MSG_DONTWAIT =? 0).

Definition ubytes (u : qunit) : nat := match u with UForeign n => n | UProbe => 0%nat | UWake => 1%nat end.
Definition is_wake (u : qunit) : bool := match u with UWake => true | _ => false end.
Definition count_wake (q : list qunit) : nat := length (filter is_wake q).
Fixpoint sum_bytes (q : list qunit) : nat := match q with [] => 0%nat | u :: t => (ubytes u + sum_bytes t)%nat end.

(** "bytes readable": pipes and stream sockets: one unit = one byte; datagram sockets: the sum
    of the lengths of the queued messages (the empty probe datagram counts 0 bytes). *)
Definition readable_bytes (c : chan) : nat :=
  match c_kind c with
  | KDgram => sum_bytes (c_q c)
  | KPipe | KStream => length (c_q c)
  | _ => 0%nat
  end.

Definition queue_kind (k : kind) : bool := match k with KPipe | KStream | KDgram => true | _ => false end.
Definition byte_kind (k : kind) : bool := match k with KPipe | KStream => true | _ => false end.

Definition units_of (k : kind) (len : Z) : list qunit :=
  match k with
  | KDgram => [if len =? 0 then UProbe else if len =? 1 then UWake else UForeign (Z.to_nat len)]
  | KPipe | KStream => repeat UWake (Z.to_nat len)
  | _ => []
  end.

Section Oracle.
  (** does the queue take one more unit now? *)
  Variable accept : nat -> chan -> bool.

  Definition wait_or_again (nb : bool) : wres := if nb then WAgain else WBlocks.

  Definition sys_result (clk : nat) (c : chan) (s : sys) (len flags : Z) : wres :=
    let nb := match s with SysWrite => c_nonblock c | SysSend => c_nonblock c || dontwait flags end in
    match c_kind c, s with
    | KInvalid, _ => WErr                                   (* EBADF *)
    | KPipe, SysSend => WErr                                (* ENOTSOCK *)
    | KOther, SysSend => WErr                               (* ENOTSOCK *)
    | KOther, SysWrite =>
        if c_other_err c then WErr else if c_other_full c then wait_or_again nb else WOk
    | KPipe, SysWrite | KStream, _ =>
        if len =? 0 then WOk else if accept clk c then WOk else wait_or_again nb
    | KDgram, _ => if accept clk c then WOk else wait_or_again nb
    end.

  Definition apply_write (r : wres) (len : Z) (c : chan) : chan :=
    match r with
    | WOk => mkChan (c_kind c) (c_nonblock c) (c_q c ++ units_of (c_kind c) len) (c_since c)
                    (c_fcntl_ok c) (c_other_full c) (c_other_err c) (c_cap c)
    | _ => c
    end.

  Definition bump (c : chan) : chan :=
    mkChan (c_kind c) (c_nonblock c) (c_q c) (S (c_since c)) (c_fcntl_ok c) (c_other_full c) (c_other_err c) (c_cap c).

  Definition set_nonblock (c : chan) (b : bool) : chan :=
    mkChan (c_kind c) b (c_q c) (c_since c) (c_fcntl_ok c) (c_other_full c) (c_other_err c) (c_cap c).

  Definition drain (n : nat) (c : chan) : chan :=
    let q := skipn n (c_q c) in
    mkChan (c_kind c) (c_nonblock c) q (match q with [] => 0%nat | _ => c_since c end)
           (c_fcntl_ok c) (c_other_full c) (c_other_err c) (c_cap c).

  (** WakeFd::set_flags, interpreting sf_*; None = returned Err *)
  Definition fcntl_fails (c : chan) : bool :=
    negb (c_fcntl_ok c) || match c_kind c with KInvalid => true | _ => false end.

  Definition set_flags (c : chan) : option chan :=
    if fcntl_fails c then (if sf_get_checked || sf_set_checked then None else Some c)
    else
      let flags := if sf_get_cmd =? os_F_GETFL then (if c_nonblock c then os_O_NONBLOCK else 0) else 0 in
      let flags' := fold_left Z.lor sf_or flags in
      Some (if sf_set_cmd =? os_F_SETFL then set_nonblock c (negb (Z.land flags' os_O_NONBLOCK =? 0)) else c).

  (** Drop for WakeFd *)
  Definition drop_events (id : nat) : list event := map (fun d => match d with DClose => EClose id end) drop_ops.
  Definition drop_if (owned : option method) (id : nat) : list event :=
    match owned with Some _ => drop_events id | None => [] end.

  Definition pres_of (r : wres) : pres := match r with WOk => PRZero | WAgain => PRWouldBlock | _ => PROther end.
  Definition pat_matches (pr : pres) (p : ppat) : bool :=
    match p, pr with
    | PatZeroAny, PRZero => true
    | PatMinus1WouldBlock, PRWouldBlock => true
    | PatMinus1Any, PRWouldBlock | PatMinus1Any, PROther => true
    | PatAny, _ => true
    | _, _ => false
    end.

  (** getsockopt(fd, SOL_SOCKET, SO_TYPE): 0 on sockets, ENOTSOCK on everything else, EBADF on
      an invalid descriptor; nothing is queued.  Any other (level, option) is not modelled as
      answering 0. *)
  Definition sockopt_result (c : chan) (level opt : Z) : pres :=
    if (level =? os_SOL_SOCKET) && (opt =? os_SO_TYPE) then
      match c_kind c with KStream | KDgram => PRZero | _ => PROther end
    else PROther.

  (** the probe of register_raw, as extracted: result seen by the match, channels, event *)
  Definition run_probe (p : probe) (clk : nat) (cs : list chan) (id ch : nat) : pres * list chan * event :=
    match p with
    | ProbeEmptySend len flags =>
        let r := sys_result clk (getc cs ch) SysSend len flags in
        (pres_of r, updc cs ch (apply_write r len), EProbe id ch SysSend len flags r)
    | ProbeSockType level opt =>
        let r := sockopt_result (getc cs ch) level opt in
        (r, cs, EGetsockopt id ch level opt r)
    end.

  (** the body of register_raw after the probe: the operations of the chosen arm, then
      [rr_after].  [owned] = the WakeFd (owner of the descriptor) exists; an early return
      ([?] on an error, the registry's error or panic) drops whatever is owned.
      Result: channels, events (newest first), [Some m] = registered with method m. *)
  Fixpoint interp (ops : list rop) (id ch : nat) (o : outcome) (cs : list chan)
           (owned : option method) (ev : list event) : list chan * list event * option method :=
    match ops with
    | [] => (cs, drop_if owned id ++ ev, None)
    | RMake m :: t => interp t id ch o cs (Some m) (drop_if owned id ++ ev)
    | RSetFlagsTry :: t =>
        match set_flags (getc cs ch) with
        | Some c' => interp t id ch o (updc cs ch (fun _ => c')) owned (ESetFlags id ch true :: ev)
        | None => (cs, drop_if owned id ++ ESetFlags id ch false :: ev, None)
        end
    | RRegister :: _ =>
        match owned, o with
        | Some m, OOk => (cs, ev, Some m)
        | _, _ => (cs, drop_if owned id ++ ev, None)
        end
    end.

  Definition active_for (sig : Z) (r : reg) : bool :=
    match r_status r with Active => r_sig r =? sig | _ => false end.

  (** one delivery: the registry runs every registered action of the signal in order; a pipe
      action is [WakeFd::wake] = [wake(fd, method)], interpreting [wake_arm] *)
  Fixpoint deliver_loop (rs : list reg) (id : nat) (sig : Z) (clk : nat) (cs : list chan)
    : list chan * nat * list event (* oldest first *) :=
    match rs with
    | [] => (cs, clk, [])
    | r :: t =>
        if active_for sig r then
          let '(s, len, fl) := wake_arm (r_method r) in
          let res := sys_result clk (getc cs (r_ch r)) s len fl in
          let cs' := updc cs (r_ch r) (fun c => bump (apply_write res len c)) in
          let '(cs'', clk'', out) := deliver_loop t (S id) sig (S clk) cs' in
          (cs'', clk'', EAttempt id (r_ch r) s len fl res :: out)
        else deliver_loop t (S id) sig clk cs
    end.

  Definition deliver (st : state) (sig : Z) : state * list event :=
    let '(cs, clk, out) := deliver_loop (regs st) 0 sig (clock st) (chans st) in
    (mkState cs (regs st) clk (rev out ++ evs st), out).

  Fixpoint set_status (rs : list reg) (id : nat) (s : status) : list reg :=
    match rs, id with
    | [], _ => []
    | r :: t, O => mkReg (r_sig r) (r_ch r) (r_method r) s :: t
    | r :: t, S n => r :: set_status t n s
    end.

  Definition register (p : probe) (st : state) (generic : bool) (sig : Z) (ch : nat) (o : outcome) : state :=
    let id := length (regs st) in
    let '(pr, cs1, pev) := run_probe p (clock st) (chans st) id ch in
    let arm := if existsb (pat_matches pr) rr_send_pats then rr_then else rr_else in
    let '(cs2, ev2, res) := interp (arm ++ rr_after) id ch o cs1 None (pev :: evs st) in
    let ev3 := EOutcome id (match res with Some _ => true | None => false end) :: ev2 in
    let ev4 := match generic, register_conv with
               | true, AsRaw => EClose id :: ev3     (* the argument still owns the descriptor and closes it *)
               | _, _ => ev3
               end in
    let newreg := match res with
                  | Some m => mkReg sig ch m Active
                  | None => mkReg sig ch Write Rejected
                  end in
    mkState cs2 (regs st ++ [newreg]) (S (clock st)) ev4.

  Definition unregister (st : state) (id : nat) : state :=
    match nth_error (regs st) id with
    | Some r =>
        match r_status r with
        | Active => mkState (chans st) (set_status (regs st) id Removed) (clock st) (drop_events id ++ evs st)
        | _ => st
        end
    | None => st
    end.

  Definition step (p : probe) (st : state) (o : op) : state :=
    match o with
    | ORegister g sig ch oc => register p st g sig ch oc
    | ODeliver sig => fst (deliver st sig)
    | ODrain ch n => mkState (updc (chans st) ch (drain n)) (regs st) (clock st) (evs st)
    | OUnregister id => unregister st id
    end.

  Definition run_from (p : probe) (st : state) (h : list op) : state := fold_left (step p) h st.
End Oracle.

(** initial world: channels as the test set them up (kind, blocking mode, what is already
    queued, oracle answers); nothing of ours is in them yet *)
Record chan_spec := mkSpec {
  s_kind : kind; s_nonblock : bool; s_pre : list nat; s_fcntl_ok : bool; s_other_full : bool; s_other_err : bool; s_cap : nat
}.
Definition init_chan (s : chan_spec) : chan :=
  mkChan (s_kind s) (s_nonblock s) (map UForeign (s_pre s)) 0 (s_fcntl_ok s) (s_other_full s) (s_other_err s) (s_cap s).
Definition init (w : list chan_spec) : state := mkState (map init_chan w) [] 0 [].
(** the code that exists: the probe is the extracted [rr_probe] *)
Definition run (accept : nat -> chan -> bool) (w : list chan_spec) (h : list op) : state :=
  run_from accept rr_probe (init w) h.

(** capacity oracle used by the correspondence: a queue of capacity [c_cap] units *)
Definition accept_cap (clk : nat) (c : chan) : bool := (length (c_q c) <? c_cap c)%nat.
