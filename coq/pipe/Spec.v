(** C13 - the vocabulary of the property statements (definitions only). *)
From Coq Require Import ZArith List Bool Arith.
From SH Require Import gen.Extracted_pipe pipe.Model.
Import ListNotations.
Open Scope nat_scope.

(** the only thing asked of the kernel's buffer accounting: an empty queue takes one unit
    (capacity >= 1) *)
Definition accept_empty (accept : nat -> chan -> bool) : Prop :=
  forall clk c, c_q c = [] -> accept clk c = true.

Fixpoint count_close (id : nat) (l : list event) : nat :=
  match l with
  | [] => 0
  | EClose i :: t => if Nat.eqb i id then S (count_close id t) else count_close id t
  | _ :: t => count_close id t
  end.

(** the event is a system call on descriptor [id] *)
Definition uses (id : nat) (e : event) : bool :=
  match e with
  | EProbe i _ _ _ _ _ => Nat.eqb i id
  | EGetsockopt i _ _ _ _ => Nat.eqb i id
  | ESetFlags i _ _ => Nat.eqb i id
  | EAttempt i _ _ _ _ _ => Nat.eqb i id
  | _ => false
  end.

Definition ev_id (e : event) : nat :=
  match e with
  | EProbe i _ _ _ _ _ | EGetsockopt i _ _ _ _ | ESetFlags i _ _ | EAttempt i _ _ _ _ _ | EClose i | EOutcome i _ => i
  end.

Fixpoint active_ids_from (rs : list reg) (id : nat) (sig : Z) : list nat :=
  match rs with
  | [] => []
  | r :: t => if active_for sig r then id :: active_ids_from t (S id) sig else active_ids_from t (S id) sig
  end.
(** the pipe actions registered for [sig], in registration order *)
Definition active_ids (st : state) (sig : Z) : list nat := active_ids_from (regs st) 0 sig.

(** one write attempt of exactly one byte that did not block, and why it could not:
    write => O_NONBLOCK was already set on the channel before the delivery began,
    send  => MSG_DONTWAIT is among the flags *)
Definition attempt_good (st : state) (e : event) : Prop :=
  exists id ch s fl r,
    e = EAttempt id ch s 1%Z fl r /\ r <> WBlocks /\
    match s with
    | SysWrite => c_nonblock (getc (chans st) ch) = true
    | SysSend => dontwait fl = true
    end.

(** a delivery of [sig] in state [st]: exactly one good attempt per registered pipe action *)
Definition delivery_ok (accept : nat -> chan -> bool) (st : state) (sig : Z) : Prop :=
  let out := snd (deliver accept st sig) in
  map ev_id out = active_ids st sig /\ Forall (attempt_good st) out.

(** what the reader can see on a pipe / stream socket / datagram socket *)
Definition chan_ok_full (c : chan) : Prop :=
  queue_kind (c_kind c) = true ->
  count_wake (c_q c) <= c_since c /\
  (1 <= c_since c -> 1 <= readable_bytes c).

(** "fill level" is counted in bytes: whatever somebody else queued on a datagram socket before
    it was handed over are messages of at least one byte (a queue that the environment filled
    with EMPTY datagrams takes no byte from anybody: no implementation could make a byte appear) *)
Definition world_in_bytes (w : list chan_spec) : Prop :=
  forall s, In s w -> s_kind s = KDgram -> Forall (fun n => 1 <= n) (s_pre s).

(** the property text, first sentence (every kind, bytes) *)
Definition one_nonblocking_byte_statement : Prop :=
  forall accept, accept_empty accept ->
  forall (w : list chan_spec) (h : list op), world_in_bytes w ->
    (forall sig, delivery_ok accept (run accept w h) sig) /\
    (forall ch, chan_ok_full (getc (chans (run accept w h)) ch)).

Definition closes_expected (s : status) : nat := match s with Active => 0 | Removed | Rejected => 1 end.
