(** Complete call lists of the functions component [pipe] is modelled on, as they were when the
    model was written (translator/calls.py extracts the current ones on every run).  A lemma that
    fails names the function whose calls changed: re-read it, adapt the model if needed, then
    restate the list. *)
From Coq Require Import List String.
From SH Require Import gen.Extracted_calls_pipe.
Import ListNotations. Open Scope string_scope.

Lemma calls_wake_ok : calls_wake =
  ["libc::write"; "libc::send"].
Proof. reflexivity. Qed.

Lemma calls_wakefd_wake_ok : calls_wakefd_wake =
  ["wake"].
Proof. reflexivity. Qed.

Lemma calls_wakefd_set_flags_ok : calls_wakefd_set_flags =
  ["libc::fcntl"; ".as_raw_fd"; "return"; "Error::last_os_error"; "libc::fcntl"; ".as_raw_fd"; "return"; "Error::last_os_error"].
Proof. reflexivity. Qed.

Lemma calls_wakefd_drop_ok : calls_wakefd_drop =
  ["libc::close"].
Proof. reflexivity. Qed.

Lemma calls_register_raw_ok : calls_register_raw =
  ["libc::getsockopt"; ".set_flags"; "?"; ".wake"; "super::register"].
Proof. reflexivity. Qed.

Lemma calls_register_ok : calls_register =
  ["register_raw"; ".into_raw_fd"].
Proof. reflexivity. Qed.
