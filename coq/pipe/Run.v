(** Executable entry point of the pipe model for the correspondence check (integer lists).

    input  = nchan :: channel specs ++ ops
      channel spec: kind nonblock fcntl_ok other_full other_err cap npre pre_1 .. pre_npre
        kind: 0 pipe | 1 stream socket | 2 datagram socket | 3 other | 4 invalid
        pre_i: length of the i-th unit already queued (datagram: message length; byte kinds: 1)
      ops:  1 generic sig ch outcome     register / register_raw; outcome 0 ok | 1 error | 2 panic
            5 sig n                       n deliveries of sig
            3 ch n                        the reader takes up to n units (0 = everything)
            4 id                          unregister the id-th registration
    output = one record per op, then one trailer record per channel
      1 registered descriptor_open_after nonblock_after method(0 send,1 write,-1 none) probe_result
      5 attempts ok again blocked err
      3 units bytes wake_bytes
      4 removed descriptor_open_after(-1: no such registration)
      9 units bytes wake_bytes nonblock since
    results: 0 ok | 1 EAGAIN | 2 blocks | 3 error
    The kernel's buffer accounting is instantiated with [accept_cap] (capacity in units, measured
    by the probe binary and passed in as [cap]). *)
From Coq Require Import ZArith List Bool Arith.
From SH Require Import gen.Extracted_pipe pipe.Model pipe.Spec.
Import ListNotations.
Open Scope Z_scope.

Definition zb (z : Z) : bool := negb (z =? 0).
Definition bz (b : bool) : Z := if b then 1 else 0.
Definition zn (n : nat) : Z := Z.of_nat n.

Definition kind_of (z : Z) : kind :=
  if z =? 0 then KPipe else if z =? 1 then KStream else if z =? 2 then KDgram else if z =? 3 then KOther else KInvalid.
Definition outcome_of (z : Z) : outcome := if z =? 0 then OOk else if z =? 1 then OErr else OPanic.
Definition wres_code (r : wres) : Z := match r with WOk => 0 | WAgain => 1 | WBlocks => 2 | WErr => 3 end.

Fixpoint take_pre (n : nat) (l : list Z) : list nat * list Z :=
  match n, l with
  | S k, x :: t => let '(a, rest) := take_pre k t in (Z.to_nat x :: a, rest)
  | _, _ => ([], l)
  end.

Fixpoint parse_chans (n : nat) (l : list Z) : list chan_spec * list Z :=
  match n with
  | O => ([], l)
  | S k =>
      match l with
      | kd :: nb :: fo :: ofl :: oe :: cap :: np :: t =>
          let '(pre, rest) := take_pre (Z.to_nat np) t in
          let '(cs, rest') := parse_chans k rest in
          (mkSpec (kind_of kd) (zb nb) pre (zb fo) (zb ofl) (zb oe) (Z.to_nat cap) :: cs, rest')
      | _ => ([], [])
      end
  end.

Definition new_events (old new : state) : list event := firstn (length (evs new) - length (evs old)) (evs new).
Definition closes (l : list event) : nat := length (filter (fun e => match e with EClose _ => true | _ => false end) l).
Definition count_res (r : wres) (l : list event) : nat :=
  length (filter (fun e => match e with EAttempt _ _ _ _ _ x => wres_code x =? wres_code r | _ => false end) l).
Definition attempts (l : list event) : nat :=
  length (filter (fun e => match e with EAttempt _ _ _ _ _ _ => true | _ => false end) l).
Definition pres_code (r : pres) : Z := match r with PRZero => 0 | PRWouldBlock => 1 | PROther => 3 end.
Definition probe_code (l : list event) : Z :=
  fold_left (fun acc e => match e with
                          | EProbe _ _ _ _ _ r => wres_code r
                          | EGetsockopt _ _ _ _ r => pres_code r
                          | _ => acc end) l (-1).

Fixpoint deliver_n (n : nat) (st : state) (sig : Z) : state :=
  match n with O => st | S k => deliver_n k (step accept_cap rr_probe st (ODeliver sig)) sig end.

Definition all_units (st : state) (ch : nat) : nat := length (c_q (getc (chans st) ch)).

Definition drained (st : state) (ch n : nat) : list qunit := firstn n (c_q (getc (chans st) ch)).
Definition q_bytes (k : kind) (q : list qunit) : nat :=
  match k with KDgram => sum_bytes q | KPipe | KStream => length q | _ => 0%nat end.

(** fuel = length of the op list *)
Fixpoint go (fuel : nat) (st : state) (l : list Z) : list Z :=
  match fuel with
  | O => []
  | S f =>
      match l with
      | 1 :: g :: sig :: ch :: o :: t =>
          let st' := step accept_cap rr_probe st (ORegister (zb g) sig (Z.to_nat ch) (outcome_of o)) in
          let ne := new_events st st' in
          let id := length (regs st) in
          let r := nth id (regs st') (mkReg 0 0 Write Rejected) in
          let registered := match r_status r with Active => true | _ => false end in
          [1; bz registered; bz (Nat.eqb (closes ne) 0); bz (c_nonblock (getc (chans st') (Z.to_nat ch)));
           (if registered then match r_method r with Send => 0 | Write => 1 end else -1); probe_code ne]
          ++ go f st' t
      | 5 :: sig :: n :: t =>
          let st' := deliver_n (Z.to_nat n) st sig in
          let ne := new_events st st' in
          [5; zn (attempts ne); zn (count_res WOk ne); zn (count_res WAgain ne); zn (count_res WBlocks ne); zn (count_res WErr ne)]
          ++ go f st' t
      | 3 :: ch :: n :: t =>
          let c := Z.to_nat ch in
          let k := if n =? 0 then all_units st c else Z.to_nat n in
          let d := drained st c k in
          let st' := step accept_cap rr_probe st (ODrain c k) in
          [3; zn (length d); zn (q_bytes (c_kind (getc (chans st) c)) d); zn (count_wake d)] ++ go f st' t
      | 4 :: id :: t =>
          let st' := step accept_cap rr_probe st (OUnregister (Z.to_nat id)) in
          let ne := new_events st st' in
          let open := match nth_error (regs st') (Z.to_nat id) with
                      | Some r => match r_status r with Active => 1 | _ => 0 end
                      | None => -1
                      end in
          [4; bz (negb (Nat.eqb (closes ne) 0)); open] ++ go f st' t
      | _ => []
      end
  end.

Fixpoint trailer (cs : list chan) : list Z :=
  match cs with
  | [] => []
  | c :: t => [9; zn (length (c_q c)); zn (q_bytes (c_kind c) (c_q c)); zn (count_wake (c_q c)); bz (c_nonblock c); zn (c_since c)] ++ trailer t
  end.

Fixpoint final_state (fuel : nat) (st : state) (l : list Z) : state :=
  match fuel with
  | O => st
  | S f =>
      match l with
      | 1 :: g :: sig :: ch :: o :: t => final_state f (step accept_cap rr_probe st (ORegister (zb g) sig (Z.to_nat ch) (outcome_of o))) t
      | 5 :: sig :: n :: t => final_state f (deliver_n (Z.to_nat n) st sig) t
      | 3 :: ch :: n :: t =>
          let c := Z.to_nat ch in
          final_state f (step accept_cap rr_probe st (ODrain c (if n =? 0 then all_units st c else Z.to_nat n))) t
      | 4 :: id :: t => final_state f (step accept_cap rr_probe st (OUnregister (Z.to_nat id))) t
      | _ => st
      end
  end.

Definition run_c13 (inp : list Z) : list Z :=
  match inp with
  | n :: t =>
      let '(w, ops) := parse_chans (Z.to_nat n) t in
      let st := init w in
      go (length ops) st ops ++ trailer (chans (final_state (length ops) st ops))
  | [] => [-99]
  end.

(** one row of the OS oracle table: [kind; nonblock; full; other_err; sys; len; flags] -> result code
    sys 0 write | 1 send | 2 getsockopt(level = len, option = flags) *)
Definition run_oracle (inp : list Z) : list Z :=
  match inp with
  | [kd; nb; full; oe; sy; len; fl] =>
      let c := mkChan (kind_of kd) (zb nb) [] 0 true false (zb oe) 0 in
      if sy =? 2 then [pres_code (sockopt_result c len fl)] else
      [wres_code (sys_result (fun _ _ => negb (zb full)) 0%nat c (if sy =? 0 then SysWrite else SysSend) len fl)]
  | _ => [-99]
  end.
