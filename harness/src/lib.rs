//! Harness for the correspondence checks and probes (see /verif/DESIGN.md, section 4).
pub mod forked;
pub mod consts;
pub mod c16;
pub mod sched;
