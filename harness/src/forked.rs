//! Run a closure in a forked child (own, non-orphaned process group, core dumps off) and
//! classify how it ended.
use std::time::{Duration, Instant};

#[derive(Debug, Clone, Copy, PartialEq, Eq)]
pub enum Outcome {
    Exited(i32),
    Signaled(i32),
    Stopped(i32),
    Timeout,
}

impl Outcome {
    pub fn text(&self) -> String {
        match self {
            Outcome::Exited(c) => format!("exit:{}", c),
            Outcome::Signaled(s) => format!("sig:{}", s),
            Outcome::Stopped(s) => format!("stop:{}", s),
            Outcome::Timeout => "timeout".to_string(),
        }
    }
}

/// Forks; the child puts itself into a fresh process group (whose leader's parent - us - is in
/// another group of the same session, so the group is not orphaned), disables core dumps and
/// runs `f`; its return value becomes the exit status (via `_exit`, no atexit hooks of ours).
pub fn run_child<F: FnOnce() -> i32>(f: F, timeout: Duration) -> Outcome {
    run_child_opts(f, timeout, false)
}

/// `continue_stops`: a child that stops (it emulated a stop signal's default action) is sent SIGCONT and waited for further
pub fn run_child_opts<F: FnOnce() -> i32>(f: F, timeout: Duration, continue_stops: bool) -> Outcome {
    // Before the first fork the parent uses the library once (a raise of SIGURG - ignored by default - and its emulation):
    // whatever the library remembers per process (a cached pid, a lazily built table) is then inherited by every probe
    // child in the state a long-running program that forks would hand it over in.
    static WARM: std::sync::Once = std::sync::Once::new();
    WARM.call_once(|| {
        let _ = signal_hook::low_level::raise(libc::SIGURG);
        let _ = signal_hook::low_level::emulate_default_handler(libc::SIGURG);
        let _ = signal_hook::low_level::signal_name(libc::SIGURG);
        // ... and the registry exists (its global data is created on first use) without owning any signal
        #[allow(deprecated)]
        let _ = signal_hook_registry::unregister_signal(libc::SIGURG);
    });
    unsafe {
        let pid = libc::fork();
        assert!(pid >= 0, "fork failed");
        if pid == 0 {
            libc::setpgid(0, 0);
            let lim = libc::rlimit { rlim_cur: 0, rlim_max: 0 };
            libc::setrlimit(libc::RLIMIT_CORE, &lim);
            // a probed library that asks for absurd amounts of memory must fail in the child, not take the machine down
            let mem = libc::rlimit { rlim_cur: 4 << 30, rlim_max: 4 << 30 };
            libc::setrlimit(libc::RLIMIT_AS, &mem);
            let r = std::panic::catch_unwind(std::panic::AssertUnwindSafe(f));
            let code = match r {
                Ok(c) => c,
                Err(_) => 101,
            };
            libc::_exit(code);
        }
        libc::setpgid(pid, pid);
        let start = Instant::now();
        loop {
            let mut status: libc::c_int = 0;
            let r = libc::waitpid(pid, &mut status, libc::WUNTRACED | libc::WNOHANG);
            if r == pid {
                if libc::WIFEXITED(status) {
                    return Outcome::Exited(libc::WEXITSTATUS(status));
                } else if libc::WIFSIGNALED(status) {
                    return Outcome::Signaled(libc::WTERMSIG(status));
                } else if libc::WIFSTOPPED(status) && continue_stops {
                    libc::kill(pid, libc::SIGCONT);
                } else if libc::WIFSTOPPED(status) {
                    let s = libc::WSTOPSIG(status);
                    libc::kill(pid, libc::SIGKILL);
                    libc::kill(pid, libc::SIGCONT);
                    let mut st2 = 0;
                    libc::waitpid(pid, &mut st2, 0);
                    return Outcome::Stopped(s);
                }
            }
            if start.elapsed() > timeout {
                libc::kill(pid, libc::SIGKILL);
                let mut st2 = 0;
                libc::waitpid(pid, &mut st2, 0);
                return Outcome::Timeout;
            }
            std::thread::sleep(Duration::from_micros(300));
        }
    }
}

/// Reset every signal 1..=64 to SIG_DFL (errors ignored) and unblock everything.  The Rust
/// runtime changes SIGPIPE (ignored) and installs SIGSEGV/SIGBUS handlers; probes that look at
/// default dispositions must start from the kernel's defaults.
pub unsafe fn reset_all_dispositions() {
    for s in 1..=64 {
        let mut act: libc::sigaction = std::mem::zeroed();
        act.sa_sigaction = libc::SIG_DFL;
        libc::sigaction(s, &act, std::ptr::null_mut());
    }
    let mut set: libc::sigset_t = std::mem::zeroed();
    libc::sigemptyset(&mut set);
    libc::sigprocmask(libc::SIG_SETMASK, &set, std::ptr::null_mut());
}
