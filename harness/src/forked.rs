//! Run a closure in a forked child (own, non-orphaned process group, core dumps off) and
//! classify how it ended.
use std::time::{Duration, Instant};

#[derive(Debug, Clone, Copy, PartialEq, Eq)]
pub enum Outcome {
    Exited(i32),
    Signaled(i32),
    Stopped(i32),
    Timeout,
}

impl Outcome {
    pub fn text(&self) -> String {
        match self {
            Outcome::Exited(c) => format!("exit:{}", c),
            Outcome::Signaled(s) => format!("sig:{}", s),
            Outcome::Stopped(s) => format!("stop:{}", s),
            Outcome::Timeout => "timeout".to_string(),
        }
    }
}

/// Forks; the child puts itself into a fresh process group (whose leader's parent - us - is in
/// another group of the same session, so the group is not orphaned), disables core dumps and
/// runs `f`; its return value becomes the exit status (via `_exit`, no atexit hooks of ours).
pub fn run_child<F: FnOnce() -> i32>(f: F, timeout: Duration) -> Outcome {
    unsafe {
        let pid = libc::fork();
        assert!(pid >= 0, "fork failed");
        if pid == 0 {
            libc::setpgid(0, 0);
            let lim = libc::rlimit { rlim_cur: 0, rlim_max: 0 };
            libc::setrlimit(libc::RLIMIT_CORE, &lim);
            // a probed library that asks for absurd amounts of memory must fail in the child, not take the machine down
            let mem = libc::rlimit { rlim_cur: 4 << 30, rlim_max: 4 << 30 };
            libc::setrlimit(libc::RLIMIT_AS, &mem);
            let r = std::panic::catch_unwind(std::panic::AssertUnwindSafe(f));
            let code = match r {
                Ok(c) => c,
                Err(_) => 101,
            };
            libc::_exit(code);
        }
        libc::setpgid(pid, pid);
        let start = Instant::now();
        loop {
            let mut status: libc::c_int = 0;
            let r = libc::waitpid(pid, &mut status, libc::WUNTRACED | libc::WNOHANG);
            if r == pid {
                if libc::WIFEXITED(status) {
                    return Outcome::Exited(libc::WEXITSTATUS(status));
                } else if libc::WIFSIGNALED(status) {
                    return Outcome::Signaled(libc::WTERMSIG(status));
                } else if libc::WIFSTOPPED(status) {
                    let s = libc::WSTOPSIG(status);
                    libc::kill(pid, libc::SIGKILL);
                    libc::kill(pid, libc::SIGCONT);
                    let mut st2 = 0;
                    libc::waitpid(pid, &mut st2, 0);
                    return Outcome::Stopped(s);
                }
            }
            if start.elapsed() > timeout {
                libc::kill(pid, libc::SIGKILL);
                let mut st2 = 0;
                libc::waitpid(pid, &mut st2, 0);
                return Outcome::Timeout;
            }
            std::thread::sleep(Duration::from_micros(300));
        }
    }
}

/// Reset every signal 1..=64 to SIG_DFL (errors ignored) and unblock everything.  The Rust
/// runtime changes SIGPIPE (ignored) and installs SIGSEGV/SIGBUS handlers; probes that look at
/// default dispositions must start from the kernel's defaults.
pub unsafe fn reset_all_dispositions() {
    for s in 1..=64 {
        let mut act: libc::sigaction = std::mem::zeroed();
        act.sa_sigaction = libc::SIG_DFL;
        libc::sigaction(s, &act, std::ptr::null_mut());
    }
    let mut set: libc::sigset_t = std::mem::zeroed();
    libc::sigemptyset(&mut set);
    libc::sigprocmask(libc::SIG_SETMASK, &set, std::ptr::null_mut());
}
