//! Lock-step driver for the registry (half-lock + dispatcher + register/unregister).
//! stdin: one scenario per line (integers, see decode()); stdout: one line per scenario:
//!   `T <6 ints per trace line>... | F <finished flags> | S <stuck> | P <panicked flags>`
//! Each scenario runs in a forked child (the registry is a process-wide singleton).
use sh_harness::sched::{self, Activity, Line, OP_CALLPREV, OP_RET, OP_RUN, OP_START};
use signal_hook_registry as reg;
use std::cell::Cell;
use std::io::{BufRead, Read, Write};
use std::os::unix::io::FromRawFd;

#[global_allocator]
static ALLOC: sched::CountingAlloc = sched::CountingAlloc;

thread_local! {
    static EXPECT_INFO: Cell<(usize, usize)> = Cell::new((0, 0));
}

extern "C" fn h_plain(sig: libc::c_int) {
    sched::user_point(OP_CALLPREV, 0, sig as i64, 0);
}

extern "C" fn h_info(sig: libc::c_int, info: *mut libc::siginfo_t, ctx: *mut libc::c_void) {
    let (ei, ec) = EXPECT_INFO.with(|e| e.get());
    let good = info as usize == ei && ctx as usize == ec;
    sched::user_point(OP_CALLPREV, 0, sig as i64, if good { 1 } else { 2 });
}

struct Scenario {
    disp: Vec<(i32, i64)>,
    setup: Vec<(i64, i64, i64)>,
    acts: Vec<(i64, i64, i64)>,
    sched: Vec<(usize, u8)>,
}

fn decode(v: &[i64]) -> Scenario {
    let mut i = 0;
    let mut take = |n: usize| {
        let s = &v[i..i + n];
        i += n;
        s.to_vec()
    };
    let nd = take(1)[0] as usize;
    let disp = (0..nd).map(|_| { let t = take(2); (t[0] as i32, t[1]) }).collect();
    let ns = take(1)[0] as usize;
    let setup = (0..ns).map(|_| { let t = take(3); (t[0], t[1], t[2]) }).collect();
    let na = take(1)[0] as usize;
    let acts = (0..na).map(|_| { let t = take(3); (t[0], t[1], t[2]) }).collect();
    let nsch = take(1)[0] as usize;
    let sched = (0..nsch).map(|_| (take(1)[0] as usize, 0u8)).collect();
    Scenario { disp, setup, acts, sched }
}

unsafe fn deliver(sig: i32) {
    // what the kernel would do: look up the current disposition and call it
    let mut old: libc::sigaction = std::mem::zeroed();
    libc::sigaction(sig, std::ptr::null(), &mut old);
    let mut info: libc::siginfo_t = std::mem::zeroed();
    info.si_signo = sig;
    let mut ctx: u64 = 0;
    let ip = &mut info as *mut libc::siginfo_t;
    let cp = &mut ctx as *mut u64 as *mut libc::c_void;
    EXPECT_INFO.with(|e| e.set((ip as usize, cp as usize)));
    let h = old.sa_sigaction;
    if h == reg::verif_api::handler_addr() {
        sched::user_note(OP_START, 0, sig as i64, 1);
        sched::in_delivery(|| reg::verif_api::dispatch(sig, ip, cp));
    } else if h == libc::SIG_DFL || h == libc::SIG_IGN {
        sched::user_note(OP_START, 0, sig as i64, 0);
    } else {
        sched::user_note(OP_START, 0, sig as i64, 2);
        if old.sa_flags & libc::SA_SIGINFO == 0 {
            let f: extern "C" fn(libc::c_int) = std::mem::transmute(h);
            f(sig);
        } else {
            let f: extern "C" fn(libc::c_int, *mut libc::siginfo_t, *mut libc::c_void) = std::mem::transmute(h);
            f(sig, ip, cp);
        }
    }
}

fn do_register(sig: i32, tag: i64) -> Option<reg::SigId> {
    let r = unsafe { reg::register(sig, move || sched::user_point(OP_RUN, 0, tag, 0)) };
    r.ok()
}

fn run_scenario(sc: Scenario) -> String {
    unsafe {
        for &(sig, kind) in &sc.disp {
            let mut a: libc::sigaction = std::mem::zeroed();
            match kind {
                0 => a.sa_sigaction = libc::SIG_DFL,
                1 => a.sa_sigaction = libc::SIG_IGN,
                2 => a.sa_sigaction = h_plain as usize,
                _ => {
                    a.sa_sigaction = h_info as usize;
                    a.sa_flags = libc::SA_SIGINFO;
                }
            }
            libc::sigaction(sig, &a, std::ptr::null_mut());
        }
    }
    let layout = reg::verif_api::layout(); // also forces GlobalData::ensure()
    sched::init();
    let mut ids: Vec<reg::SigId> = Vec::new();
    for &(k, a, b) in &sc.setup {
        match k {
            1 => unsafe { deliver(a as i32) },
            2 => {
                if let Some(id) = do_register(a as i32, b) {
                    ids.push(id);
                }
            }
            3 => {
                if let Some(id) = ids.get(a as usize) {
                    reg::unregister(*id);
                }
            }
            4 => {
                #[allow(deprecated)]
                reg::unregister_signal(a as i32);
            }
            _ => {}
        }
    }
    let mut acts: Vec<Activity> = Vec::new();
    for &(k, a, b) in &sc.acts {
        let ids2 = ids.clone();
        acts.push(match k {
            1 => Box::new(move || unsafe { deliver(a as i32) }),
            2 => Box::new(move || {
                sched::user_note(OP_START, 0, 0, 0);
                let r = do_register(a as i32, b);
                sched::user_note(OP_RET, 0, 0, r.is_some() as i64);
            }),
            3 => Box::new(move || {
                sched::user_note(OP_START, 0, 0, 0);
                let r = match ids2.get(a as usize) {
                    Some(id) => reg::unregister(*id),
                    None => false,
                };
                sched::user_note(OP_RET, 0, 0, r as i64);
            }),
            _ => Box::new(move || {
                sched::user_note(OP_START, 0, 0, 0);
                #[allow(deprecated)]
                let r = reg::unregister_signal(a as i32);
                sched::user_note(OP_RET, 0, 0, r as i64);
            }),
        });
    }
    let res = sched::run(acts, &sc.sched, true, 20000);
    canonical(&res, &layout)
}

fn canonical(res: &sched::RunResult, layout: &[[usize; 6]; 2]) -> String {
    use std::collections::HashMap;
    let mut loc: HashMap<i64, i64> = HashMap::new();
    let base = [0i64, 10];
    for (li, l) in layout.iter().enumerate() {
        for j in 0..5 {
            loc.insert(l[j] as i64, base[li] + j as i64 + 1);
        }
    }
    // pointer value -> epoch, per half-lock
    let mut epoch: [HashMap<i64, i64>; 2] = [HashMap::new(), HashMap::new()];
    let mut next = [1i64, 1i64];
    // epochs consumed by set-up are unknown to us: the initial snapshot at schedule start is
    // called epoch 0 on both sides, so reset numbering at the first controlled line.
    let mut cur = [layout[0][5] as i64, layout[1][5] as i64];
    let mut out = Vec::new();
    let mut started = false;
    for l in &res.trace {
        let which = |a: i64| -> Option<usize> {
            if a == layout[0][0] as i64 { Some(0) } else if a == layout[1][0] as i64 { Some(1) } else { None }
        };
        if l.act < 0 {
            // set-up: follow the current pointer
            if l.op == 2 {
                if let Some(w) = which(l.loc) { cur[w] = l.arg; }
            }
            continue;
        }
        if !started {
            started = true;
            epoch[0].insert(cur[0], 0);
            epoch[1].insert(cur[1], 0);
        }
        let mut c = [l.act, l.op, 0, l.arg, l.res, l.ok];
        match l.op {
            10 => {
                // Alloc note: loc = ptr location, arg = new address
                if let Some(w) = which(l.loc) {
                    epoch[w].insert(l.arg, next[w]);
                    next[w] += 1;
                }
                continue;
            }
            11 => {
                let w = which(l.loc).unwrap_or(0);
                c[2] = base[w] + 1;
                c[3] = *epoch[w].get(&l.arg).unwrap_or(&-1);
            }
            12 => {
                c[2] = 20;
                c[3] = l.loc * 2 + l.arg;
                c[4] = 0;
            }
            8 | 9 => {}
            0..=7 => {
                c[2] = *loc.get(&l.loc).unwrap_or(&-1);
                if let Some(w) = which(l.loc) {
                    if l.op == 2 {
                        c[3] = *epoch[w].get(&l.arg).unwrap_or(&-1);
                    }
                    c[4] = *epoch[w].get(&l.res).unwrap_or(&-1);
                }
                if l.op == 6 || l.op == 7 {
                    c[4] = 0;
                }
            }
            _ => {}
        }
        out.push(c);
    }
    let mut s = String::from("T");
    for c in &out {
        for x in c.iter() {
            s.push(' ');
            s.push_str(&x.to_string());
        }
    }
    s.push_str(" | F");
    for f in &res.finished { s.push_str(if *f { " 1" } else { " 0" }); }
    s.push_str(" | P");
    for f in &res.panicked { s.push_str(if *f { " 1" } else { " 0" }); }
    s.push_str(&format!(" | S {} {}", res.stuck as i32, res.drain_steps));
    s.push_str(&format!(
        " | A {} {}",
        sched::ALLOCS_IN_DELIVERY.load(std::sync::atomic::Ordering::SeqCst),
        sched::FREES_IN_DELIVERY.load(std::sync::atomic::Ordering::SeqCst)
    ));
    s
}

fn main() {
    let stdin = std::io::stdin();
    for line in stdin.lock().lines() {
        let line = line.unwrap();
        let v: Vec<i64> = line.split_whitespace().filter_map(|t| t.parse().ok()).collect();
        if v.is_empty() {
            println!();
            continue;
        }
        unsafe {
            let mut fds = [0i32; 2];
            libc::pipe(fds.as_mut_ptr());
            let pid = libc::fork();
            if pid == 0 {
                libc::close(fds[0]);
                libc::alarm(60);
                let r = std::panic::catch_unwind(|| run_scenario(decode(&v)));
                let s = match r { Ok(s) => s, Err(_) => "!panic".to_string() };
                let mut f = std::fs::File::from_raw_fd(fds[1]);
                let _ = f.write_all(s.as_bytes());
                drop(f);
                libc::_exit(0);
            }
            libc::close(fds[1]);
            let mut f = std::fs::File::from_raw_fd(fds[0]);
            let mut s = String::new();
            let _ = f.read_to_string(&mut s);
            let mut st = 0;
            libc::waitpid(pid, &mut st, 0);
            if s.is_empty() {
                s = format!("!died status={}", st);
            }
            println!("{}", s);
        }
    }
}
