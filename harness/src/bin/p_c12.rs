//! C12 probe: life-cycle histories of iterator instances on the real crates.
//!
//! usage: p_c12 <file>      one history per line, operations as integers:
//!     1 e api len s1..s_len   new      e: 0 SignalOnly 1 WithRawSiginfo 2 WithOrigin
//!                                      api: 0 backend::SignalDelivery::with_pipe on a pipe pair whose
//!                                             ends are tracked (drops, wake-ups, raw fds)
//!                                           1 iterator::SignalsInfo::with_exfiltrator
//!     2 i via n               add_signal(n) on instance i (via 0: the object, 1: its newest Handle clone)
//!     3 i                     one more Handle clone
//!     4 i                     drop the newest Handle clone
//!     5 i                     drop the object
//!     6 sig                   raise(sig) and look everywhere
//!     7 n                     signal_hook::flag::register(n, fresh flag)   (independent action)
//!
//! Every history runs in a forked child; every operation under catch_unwind, so that a panic is an
//! outcome and an abort kills the child (reported by the parent).  Output lines start with `@`:
//!     @H <history index>
//!     @O <op index> <outcome> fds=<open descriptors - baseline> <observations>
//!          outcome: ok | err:<errno> | panic:<message> | skip
//!          new/drop observations:  rd=<drops|-> wr=<drops|-> rdfd=<closed|open|-> wrfd=<closed|open|->
//!          raise observations:     flags=<independent flags that fired> then per instance
//!                                  <wake-ups of its write end or ?>:<times reported by pending() or ->:<other signals reported>
//!     @E <history index> <exit:0 | sig:6 | ...>
use libc::c_int;
use sh_harness::forked::run_child;
use signal_hook::iterator::backend::{Handle, SignalDelivery};
use signal_hook::iterator::exfiltrator::origin::WithOrigin;
use signal_hook::iterator::exfiltrator::{Exfiltrator, SignalOnly, WithRawSiginfo};
use signal_hook::iterator::SignalsInfo;
use signal_hook::low_level::siginfo::Origin;
use std::os::unix::io::{AsRawFd, RawFd};
use std::os::unix::net::UnixStream;
use std::panic::{catch_unwind, AssertUnwindSafe};
use std::sync::atomic::{AtomicBool, AtomicUsize, Ordering};
use std::sync::{Arc, Mutex};
use std::time::Duration;

const MAXI: usize = 64;
#[allow(clippy::declare_interior_mutable_const)]
const ZERO: AtomicUsize = AtomicUsize::new(0);
static RD_DROPS: [AtomicUsize; MAXI] = [ZERO; MAXI];
static WR_DROPS: [AtomicUsize; MAXI] = [ZERO; MAXI];
static WAKES: [AtomicUsize; MAXI] = [ZERO; MAXI];
static LAST_PANIC: Mutex<String> = Mutex::new(String::new());

struct RdEnd {
    s: UnixStream,
    idx: usize,
}
impl AsRawFd for RdEnd {
    fn as_raw_fd(&self) -> RawFd {
        self.s.as_raw_fd()
    }
}
impl Drop for RdEnd {
    fn drop(&mut self) {
        RD_DROPS[self.idx].fetch_add(1, Ordering::SeqCst);
    }
}

#[derive(Debug)]
struct WrEnd {
    s: UnixStream,
    idx: usize,
}
impl AsRawFd for WrEnd {
    // called by the library's action (inside the signal handler) for every wake-up
    fn as_raw_fd(&self) -> RawFd {
        WAKES[self.idx].fetch_add(1, Ordering::SeqCst);
        self.s.as_raw_fd()
    }
}
impl Drop for WrEnd {
    fn drop(&mut self) {
        WR_DROPS[self.idx].fetch_add(1, Ordering::SeqCst);
    }
}

trait SigOf {
    fn sig(&self) -> c_int;
}
impl SigOf for c_int {
    fn sig(&self) -> c_int {
        *self
    }
}
impl SigOf for libc::siginfo_t {
    fn sig(&self) -> c_int {
        self.si_signo
    }
}
impl SigOf for Origin {
    fn sig(&self) -> c_int {
        self.signal
    }
}

trait Dyn {
    fn add(&self, n: c_int) -> Result<(), std::io::Error>;
    fn handle(&self) -> Handle;
    fn pending_sigs(&mut self) -> Vec<c_int>;
}
struct Back<E: Exfiltrator>(SignalDelivery<RdEnd, E>);
impl<E: Exfiltrator> Dyn for Back<E>
where
    E::Output: SigOf,
{
    fn add(&self, n: c_int) -> Result<(), std::io::Error> {
        self.0.handle().add_signal(n)
    }
    fn handle(&self) -> Handle {
        self.0.handle()
    }
    fn pending_sigs(&mut self) -> Vec<c_int> {
        self.0.pending().map(|o| o.sig()).collect()
    }
}
struct Api<E: Exfiltrator>(SignalsInfo<E>);
impl<E: Exfiltrator> Dyn for Api<E>
where
    E::Output: SigOf,
{
    fn add(&self, n: c_int) -> Result<(), std::io::Error> {
        self.0.add_signal(n)
    }
    fn handle(&self) -> Handle {
        self.0.handle()
    }
    fn pending_sigs(&mut self) -> Vec<c_int> {
        self.0.pending().map(|o| o.sig()).collect()
    }
}

struct Inst {
    obj: Option<Box<dyn Dyn>>,
    clones: Vec<Handle>,
    tracked: bool,
    rd_fd: RawFd,
    wr_fd: RawFd,
}

fn open_fds() -> i64 {
    match std::fs::read_dir("/proc/self/fd") {
        Ok(d) => d.count() as i64,
        Err(_) => -1,
    }
}

fn fd_state(fd: RawFd) -> &'static str {
    let r = unsafe { libc::fcntl(fd, libc::F_GETFD) };
    if r == -1 && std::io::Error::last_os_error().raw_os_error() == Some(libc::EBADF) {
        "closed"
    } else {
        "open"
    }
}

fn build<E: Exfiltrator + Default>(api: bool, idx: usize, sigs: &[c_int], fds: &mut (RawFd, RawFd)) -> Result<Box<dyn Dyn>, std::io::Error>
where
    E::Output: SigOf,
{
    if api {
        Ok(Box::new(Api(SignalsInfo::<E>::with_exfiltrator(sigs, E::default())?)))
    } else {
        let (r, w) = UnixStream::pair()?;
        *fds = (r.as_raw_fd(), w.as_raw_fd());
        let rd = RdEnd { s: r, idx };
        let wr = WrEnd { s: w, idx };
        Ok(Box::new(Back(SignalDelivery::with_pipe(rd, wr, E::default(), sigs)?)))
    }
}

fn outcome_of<T>(r: std::thread::Result<Result<T, std::io::Error>>) -> (String, Option<T>) {
    match r {
        Ok(Ok(v)) => ("ok".to_string(), Some(v)),
        Ok(Err(e)) => (format!("err:{}", e.raw_os_error().unwrap_or(-1)), None),
        Err(_) => {
            let m = LAST_PANIC.lock().map(|g| g.clone()).unwrap_or_default();
            let m: String = m.chars().map(|c| if c.is_whitespace() { '_' } else { c }).take(70).collect();
            (format!("panic:{}", m), None)
        }
    }
}

fn closes_obs(inst: &Inst, idx: usize, before: (usize, usize)) -> String {
    if !inst.tracked {
        return "rd=- wr=- rdfd=- wrfd=-".to_string();
    }
    let rd = RD_DROPS[idx].load(Ordering::SeqCst);
    let wr = WR_DROPS[idx].load(Ordering::SeqCst);
    let rdfd = if rd != before.0 { fd_state(inst.rd_fd) } else { "-" };
    let wrfd = if wr != before.1 { fd_state(inst.wr_fd) } else { "-" };
    format!("rd={} wr={} rdfd={} wrfd={}", rd, wr, rdfd, wrfd)
}

fn run_history(ops: &[i64]) -> i32 {
    std::panic::set_hook(Box::new(|info| {
        let msg = if let Some(s) = info.payload().downcast_ref::<&str>() {
            s.to_string()
        } else if let Some(s) = info.payload().downcast_ref::<String>() {
            s.clone()
        } else {
            "?".to_string()
        };
        if let Ok(mut g) = LAST_PANIC.try_lock() {
            *g = msg;
        }
    }));
    let mut insts: Vec<Inst> = Vec::new();
    let mut flags: Vec<(c_int, Arc<AtomicBool>)> = Vec::new();
    let base = open_fds();
    let mut p = 0usize;
    let mut opi = 0usize;
    while p < ops.len() {
        let code = ops[p];
        let line: String = match code {
            1 => {
                let e = ops[p + 1];
                let api = ops[p + 2] != 0;
                let len = ops[p + 3] as usize;
                let sigs: Vec<c_int> = ops[p + 4..p + 4 + len].iter().map(|&s| s as c_int).collect();
                p += 4 + len;
                let idx = insts.len();
                if idx >= MAXI {
                    "skip".to_string()
                } else {
                    let mut fds = (-1, -1);
                    let r = catch_unwind(AssertUnwindSafe(|| match e {
                        0 => build::<SignalOnly>(api, idx, &sigs, &mut fds),
                        1 => build::<WithRawSiginfo>(api, idx, &sigs, &mut fds),
                        _ => build::<WithOrigin>(api, idx, &sigs, &mut fds),
                    }));
                    let (o, v) = outcome_of(r);
                    let inst = Inst { obj: v, clones: Vec::new(), tracked: !api, rd_fd: fds.0, wr_fd: fds.1 };
                    let obs = closes_obs(&inst, idx, (0, 0));
                    insts.push(inst);
                    format!("{} fds={} {}", o, open_fds() - base, obs)
                }
            }
            2 => {
                let i = ops[p + 1] as usize;
                let via = ops[p + 2] != 0;
                let n = ops[p + 3] as c_int;
                p += 4;
                let o = match insts.get(i) {
                    None => "skip".to_string(),
                    Some(inst) => {
                        if via {
                            match inst.clones.last() {
                                None => "skip".to_string(),
                                Some(h) => outcome_of(catch_unwind(AssertUnwindSafe(|| h.add_signal(n)))).0,
                            }
                        } else {
                            match &inst.obj {
                                None => "skip".to_string(),
                                Some(ob) => outcome_of(catch_unwind(AssertUnwindSafe(|| ob.add(n)))).0,
                            }
                        }
                    }
                };
                format!("{} fds={}", o, open_fds() - base)
            }
            3 => {
                let i = ops[p + 1] as usize;
                p += 2;
                let o = match insts.get_mut(i) {
                    None => "skip".to_string(),
                    Some(inst) => {
                        let h = if let Some(ob) = &inst.obj {
                            Some(ob.handle())
                        } else {
                            inst.clones.first().cloned()
                        };
                        match h {
                            None => "skip".to_string(),
                            Some(h) => {
                                inst.clones.push(h);
                                "ok".to_string()
                            }
                        }
                    }
                };
                format!("{} fds={}", o, open_fds() - base)
            }
            4 | 5 => {
                let i = ops[p + 1] as usize;
                p += 2;
                match insts.get_mut(i) {
                    None => format!("skip fds={}", open_fds() - base),
                    Some(inst) => {
                        let before = (RD_DROPS[i].load(Ordering::SeqCst), WR_DROPS[i].load(Ordering::SeqCst));
                        let o = if code == 4 {
                            match inst.clones.pop() {
                                None => "skip".to_string(),
                                Some(h) => outcome_of(catch_unwind(AssertUnwindSafe(move || {
                                    drop(h);
                                    Ok(())
                                })))
                                .0,
                            }
                        } else {
                            match inst.obj.take() {
                                None => "skip".to_string(),
                                Some(ob) => outcome_of(catch_unwind(AssertUnwindSafe(move || {
                                    drop(ob);
                                    Ok(())
                                })))
                                .0,
                            }
                        };
                        let obs = closes_obs(inst, i, before);
                        format!("{} fds={} {}", o, open_fds() - base, obs)
                    }
                }
            }
            6 => {
                let sig = ops[p + 1] as c_int;
                p += 2;
                if !flags.iter().any(|(s, _)| *s == sig) {
                    // never raise a signal whose disposition may still be the default
                    "refused".to_string()
                } else {
                    let before: Vec<usize> = (0..insts.len()).map(|i| WAKES[i].load(Ordering::SeqCst)).collect();
                    for (_, f) in flags.iter() {
                        f.store(false, Ordering::SeqCst);
                    }
                    let rc = unsafe { libc::raise(sig) };
                    let fired = flags.iter().filter(|(_, f)| f.load(Ordering::SeqCst)).count();
                    let wrong = flags.iter().filter(|(s, f)| *s != sig && f.load(Ordering::SeqCst)).count();
                    let mut s = format!("{} fds={} flags={} wrongflags={}", if rc == 0 { "ok" } else { "err:raise" }, open_fds() - base, fired, wrong);
                    for (i, inst) in insts.iter_mut().enumerate() {
                        let wake = if inst.tracked { format!("{}", WAKES[i].load(Ordering::SeqCst) - before[i]) } else { "?".to_string() };
                        let (rep, extra) = match inst.obj.as_mut() {
                            None => ("-".to_string(), String::new()),
                            Some(ob) => {
                                let got = ob.pending_sigs();
                                let mine = got.iter().filter(|&&g| g == sig).count();
                                let other: Vec<String> = got.iter().filter(|&&g| g != sig).map(|g| g.to_string()).collect();
                                (mine.to_string(), other.join(","))
                            }
                        };
                        s.push_str(&format!(" {}:{}:{}", wake, rep, extra));
                    }
                    s
                }
            }
            7 => {
                let n = ops[p + 1] as c_int;
                p += 2;
                let flag = Arc::new(AtomicBool::new(false));
                let f2 = Arc::clone(&flag);
                let (o, v) = outcome_of(catch_unwind(AssertUnwindSafe(move || signal_hook::flag::register(n, f2))));
                if v.is_some() {
                    flags.push((n, flag));
                }
                format!("{} fds={}", o, open_fds() - base)
            }
            _ => {
                println!("@X malformed history");
                return 3;
            }
        };
        println!("@O {} {}", opi, line);
        opi += 1;
    }
    // leave without running destructors: the history decides what is dropped
    std::mem::forget(insts);
    0
}

fn main() {
    let args: Vec<String> = std::env::args().collect();
    let path = match args.get(1) {
        Some(p) => p,
        None => {
            eprintln!("usage: p_c12 <histories file>");
            std::process::exit(2);
        }
    };
    let text = std::fs::read_to_string(path).expect("read histories");
    // a history that does not end costs its 6 s; after 5 of them the point is made and the rest would only add hours
    let mut hung = 0;
    for (hi, line) in text.lines().enumerate() {
        let ops: Vec<i64> = line.split_whitespace().filter_map(|t| t.parse().ok()).collect();
        println!("@H {}", hi);
        use std::io::Write;
        std::io::stdout().flush().ok();
        if hung >= 5 {
            println!("@E {} skipped", hi);
            continue;
        }
        let out = run_child(|| run_history(&ops), Duration::from_secs(6));
        if out == sh_harness::forked::Outcome::Timeout {
            hung += 1;
        }
        println!("@E {} {}", hi, out.text());
    }
}
