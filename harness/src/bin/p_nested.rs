//! Nested channel operations at every instruction boundary (C06, C07, C08; DESIGN 4.2).
//!
//! `p_nested <outer s|r> <inner s|r> <fill> [kstart]`
//!
//! The outer `send`/`recv` is single-stepped with the x86 trap flag; the SIGTRAP handler runs the
//! inner operation to completion at trap number k - what a signal handler interrupting the outer
//! operation after k instructions does - and k is swept until the outer operation finishes first.
//! No hook of the library is involved (the shim is inactive), so the sweep does not depend on
//! where the hook points are.  One line per experiment:
//!
//!   B <k>                                   about to start experiment k (for hang attribution)
//!   K <k> <reached> O <ret> I <ret> D <drained values...> C <created> <dropped_once> <never> <twice>
//!   P <k> <in_handler> <message>            a panic (the process exits with code 3)
//!
//! ret: 0 for send / recv None, tag+1 for recv Some(tag).  Values are tagged 0..fill-1 (set-up),
//! fill (outer send), fill or fill+1 (inner send) exactly as lib/ls_channel.py numbers them.
#![cfg(all(target_os = "linux", target_arch = "x86_64"))]
use std::arch::asm;
use std::io::Write;
use std::ptr;
use std::sync::atomic::{AtomicBool, AtomicPtr, AtomicU32, AtomicUsize, Ordering};

use signal_hook::low_level::channel::Channel;

const NIDS: usize = 16;
static DROPS: [AtomicU32; NIDS] = [
    AtomicU32::new(0), AtomicU32::new(0), AtomicU32::new(0), AtomicU32::new(0),
    AtomicU32::new(0), AtomicU32::new(0), AtomicU32::new(0), AtomicU32::new(0),
    AtomicU32::new(0), AtomicU32::new(0), AtomicU32::new(0), AtomicU32::new(0),
    AtomicU32::new(0), AtomicU32::new(0), AtomicU32::new(0), AtomicU32::new(0),
];
static CREATED: AtomicUsize = AtomicUsize::new(0);

struct V(usize);
impl V {
    fn new(tag: usize) -> V {
        CREATED.fetch_add(1, Ordering::Relaxed);
        V(tag)
    }
}
impl Drop for V {
    fn drop(&mut self) {
        DROPS[self.0 % NIDS].fetch_add(1, Ordering::Relaxed);
    }
}

static STEP: AtomicUsize = AtomicUsize::new(0);
static TARGET: AtomicUsize = AtomicUsize::new(0);
static INNER_SEND: AtomicBool = AtomicBool::new(false);
static INNER_TAG: AtomicUsize = AtomicUsize::new(0);
static INNER_RET: AtomicUsize = AtomicUsize::new(0);
static INJECTED: AtomicBool = AtomicBool::new(false);
static IN_HANDLER: AtomicBool = AtomicBool::new(false);
static CUR_K: AtomicUsize = AtomicUsize::new(0);
static CHAN: AtomicPtr<Channel<V>> = AtomicPtr::new(ptr::null_mut());

const TF: i64 = 0x100;

fn ret_of(r: Option<V>) -> usize {
    match r {
        Some(v) => v.0 + 1,
        None => 0,
    }
}

extern "C" fn on_trap(_sig: libc::c_int, _info: *mut libc::siginfo_t, ctx: *mut libc::c_void) {
    let step = STEP.fetch_add(1, Ordering::Relaxed) + 1;
    if step == TARGET.load(Ordering::Relaxed) {
        let chan = unsafe { &*CHAN.load(Ordering::Relaxed) };
        IN_HANDLER.store(true, Ordering::Relaxed);
        if INNER_SEND.load(Ordering::Relaxed) {
            chan.send(V::new(INNER_TAG.load(Ordering::Relaxed)));
            INNER_RET.store(0, Ordering::Relaxed);
        } else {
            INNER_RET.store(ret_of(chan.recv()), Ordering::Relaxed);
        }
        IN_HANDLER.store(false, Ordering::Relaxed);
        INJECTED.store(true, Ordering::Relaxed);
        let uc = ctx as *mut libc::ucontext_t;
        unsafe { (*uc).uc_mcontext.gregs[libc::REG_EFL as usize] &= !TF };
    }
}

#[inline(always)]
unsafe fn trap_flag_on() {
    asm!("pushfq", "or qword ptr [rsp], 0x100", "popfq");
}
#[inline(always)]
unsafe fn trap_flag_off() {
    asm!("pushfq", "and qword ptr [rsp], -257", "popfq");
}

fn experiment(outer_send: bool, inner_send: bool, fill: usize, k: usize) -> bool {
    for d in DROPS.iter() {
        d.store(0, Ordering::Relaxed);
    }
    CREATED.store(0, Ordering::Relaxed);
    let chan = Channel::<V>::new();
    for i in 0..fill {
        chan.send(V::new(i));
    }
    let outer_tag = fill;
    let inner_tag = if outer_send { fill + 1 } else { fill };
    CHAN.store(&chan as *const _ as *mut _, Ordering::Relaxed);
    INNER_SEND.store(inner_send, Ordering::Relaxed);
    INNER_TAG.store(inner_tag, Ordering::Relaxed);
    INNER_RET.store(0, Ordering::Relaxed);
    INJECTED.store(false, Ordering::Relaxed);
    STEP.store(0, Ordering::Relaxed);
    TARGET.store(k, Ordering::Relaxed);
    let outer_val = if outer_send { Some(V::new(outer_tag)) } else { None };

    let outer_ret;
    unsafe { trap_flag_on() };
    if let Some(v) = outer_val {
        chan.send(v);
        outer_ret = 0;
    } else {
        outer_ret = ret_of(chan.recv());
    }
    unsafe { trap_flag_off() };
    TARGET.store(0, Ordering::Relaxed);
    let injected = INJECTED.load(Ordering::Relaxed);
    let mut inner_ret = INNER_RET.load(Ordering::Relaxed);
    if !injected {
        // the outer operation finished first: the inner one runs after it
        if inner_send {
            chan.send(V::new(inner_tag));
            inner_ret = 0;
        } else {
            inner_ret = ret_of(chan.recv());
        }
    }
    let mut drained = Vec::new();
    loop {
        let r = ret_of(chan.recv());
        if r == 0 || drained.len() > 8 {
            break;
        }
        drained.push(r);
    }
    CHAN.store(ptr::null_mut(), Ordering::Relaxed);
    drop(chan);
    let created = CREATED.load(Ordering::Relaxed);
    let (mut once, mut never, mut twice) = (0, 0, 0);
    for i in 0..created.min(NIDS) {
        match DROPS[i].load(Ordering::Relaxed) {
            0 => never += 1,
            1 => once += 1,
            _ => twice += 1,
        }
    }
    let out = std::io::stdout();
    let mut o = out.lock();
    let _ = write!(o, "K {} {} O {} I {} D", k, injected as u8, outer_ret, inner_ret);
    for d in &drained {
        let _ = write!(o, " {}", d);
    }
    let _ = writeln!(o, " C {} {} {} {}", created, once, never, twice);
    let _ = o.flush();
    injected
}

fn main() {
    let a: Vec<String> = std::env::args().collect();
    if a.len() < 4 {
        eprintln!("usage: p_nested <outer s|r> <inner s|r> <fill> [kstart]");
        std::process::exit(2);
    }
    let outer_send = a[1] == "s";
    let inner_send = a[2] == "s";
    let fill: usize = a[3].parse().unwrap();
    let kstart: usize = if a.len() > 4 { a[4].parse().unwrap() } else { 1 };
    std::panic::set_hook(Box::new(|info| {
        let msg = if let Some(s) = info.payload().downcast_ref::<&str>() {
            s.to_string()
        } else if let Some(s) = info.payload().downcast_ref::<String>() {
            s.clone()
        } else {
            "?".to_string()
        };
        println!("P {} {} {}", CUR_K.load(Ordering::Relaxed), IN_HANDLER.load(Ordering::Relaxed) as u8, msg.replace('\n', " "));
        let _ = std::io::stdout().flush();
        unsafe { libc::_exit(3) };
    }));
    unsafe {
        let mut sa: libc::sigaction = std::mem::zeroed();
        sa.sa_sigaction = on_trap as usize;
        sa.sa_flags = libc::SA_SIGINFO;
        libc::sigemptyset(&mut sa.sa_mask);
        assert_eq!(0, libc::sigaction(libc::SIGTRAP, &sa, ptr::null_mut()));
    }
    let mut k = kstart;
    loop {
        CUR_K.store(k, Ordering::Relaxed);
        println!("B {}", k);
        let _ = std::io::stdout().flush();
        if !experiment(outer_send, inner_send, fill, k) {
            break;
        }
        k += 1;
        if k > 200_000 {
            println!("E too many instruction boundaries");
            break;
        }
    }
}
