//! A self-pipe that nobody drains must not cost other consumers their deliveries (C09: nothing is
//! lost, no wake-up is lost, also when one instance's pipe is completely full).
//! Two instances watch SIGUSR1: A is created first and never read; B has a consumer thread in
//! `forever()`.  <n> deliveries are raised one after another on the main thread; after each one
//! B's consumer must have been handed it within 3 s.  In a forked child.
//!
//!   p_c09_full <n>     prints   F ok <n>  |  F lost <i> (delivery i was not obtained by B's consumer within 3 s)
//!                               F stuck <i> (the raise of delivery i did not return)  |  F died:<how>
use sh_harness::forked::{reset_all_dispositions, run_child, Outcome};
use std::io::{Read, Write};
use std::os::unix::io::FromRawFd;
use std::sync::atomic::{AtomicUsize, Ordering};
use std::time::{Duration, Instant};

static SEEN: AtomicUsize = AtomicUsize::new(0);
static RAISED: AtomicUsize = AtomicUsize::new(0);
static RETURNED: AtomicUsize = AtomicUsize::new(0);

fn case(n: usize, wr: i32) -> ! {
    let sig = libc::SIGUSR1;
    let _a = signal_hook::iterator::Signals::new(&[sig]).unwrap();
    let mut b = signal_hook::iterator::Signals::new(&[sig]).unwrap();
    std::thread::spawn(move || {
        for _ in b.forever() {
            SEEN.fetch_add(1, Ordering::SeqCst);
        }
    });
    // the watchdog reports when the raising thread is captured inside the handler
    std::thread::spawn(move || loop {
        let r = RAISED.load(Ordering::SeqCst);
        std::thread::sleep(Duration::from_secs(4));
        if RAISED.load(Ordering::SeqCst) == r && RETURNED.load(Ordering::SeqCst) < r {
            let s = format!("stuck {}", r);
            unsafe {
                libc::write(wr, s.as_ptr() as *const libc::c_void, s.len());
                libc::_exit(0);
            }
        }
    });
    for i in 1..=n {
        RAISED.store(i, Ordering::SeqCst);
        unsafe { libc::raise(sig) };
        RETURNED.store(i, Ordering::SeqCst);
        let t = Instant::now();
        // (deliveries coalesce in SignalOnly: the consumer has to have woken up for THIS one, i.e. been handed a
        // signal after it was raised; it is handed at most one per delivery, so SEEN >= i when nothing is lost)
        while SEEN.load(Ordering::SeqCst) < i {
            if t.elapsed() > Duration::from_secs(3) {
                let s = format!("lost {}", i);
                unsafe {
                    libc::write(wr, s.as_ptr() as *const libc::c_void, s.len());
                    libc::_exit(0);
                }
            }
            std::thread::yield_now();
        }
    }
    let s = format!("ok {}", n);
    unsafe {
        libc::write(wr, s.as_ptr() as *const libc::c_void, s.len());
        libc::_exit(0);
    }
}

fn main() {
    let n: usize = std::env::args().nth(1).and_then(|a| a.parse().ok()).unwrap_or(600);
    let mut fds = [0i32; 2];
    unsafe { libc::pipe(fds.as_mut_ptr()) };
    let (rd, wr) = (fds[0], fds[1]);
    let out = run_child(
        move || {
            unsafe {
                libc::close(rd);
                reset_all_dispositions();
            }
            case(n, wr)
        },
        Duration::from_secs(120),
    );
    unsafe { libc::close(wr) };
    let mut f = unsafe { std::fs::File::from_raw_fd(rd) };
    let mut s = String::new();
    let _ = f.read_to_string(&mut s);
    if s.is_empty() {
        s = match out {
            Outcome::Exited(c) => format!("died:exit:{}", c),
            Outcome::Signaled(c) => format!("died:sig:{}", c),
            Outcome::Stopped(c) => format!("died:stop:{}", c),
            Outcome::Timeout => "died:timeout".to_string(),
        };
    }
    println!("F {}", s);
    let _ = std::io::stdout().flush();
}
