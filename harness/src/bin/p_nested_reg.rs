//! A real delivery on the mutating thread at every instruction boundary of a registry call
//! (C01, C02, C03, C04, C18; DESIGN 4.2).
//!
//! `p_nested_reg <mutation r|u0|u1|x> <actions 0|1|2> <prev i|h|s> [konly]`
//!   mutation  r = register(SIGUSR1, a new action), u0 / u1 = unregister(the first / second action),
//!             x = unregister_signal(SIGUSR1)
//!   actions   how many actions SIGUSR1 has before the call (0: `r` is the first registration, the
//!             library takes the signal over inside the call)
//!   prev      disposition of SIGUSR1 before the library ever touched it: i = ignored, h = a plain
//!             handler, s = a SA_SIGINFO handler (both count their calls and check their arguments); H / S = the
//!             same installed with SA_RESETHAND|SA_NODEFER|SA_ONSTACK and a mask
//!
//! The call is single-stepped (x86 trap flag) and the process forks at every trap; the CHILD raises
//! SIGUSR1 right there - the kernel runs whatever handler is the disposition at that instant,
//! nested inside the interrupted call on the same thread, holding whatever the call holds - lets
//! the call finish, raises once more and checks:
//!   * the nested delivery ran exactly the action list from before OR from after the call, in
//!     registration order, each action once (C02); the second delivery ran exactly the list from
//!     after the call (C01: a removed action does not run once its removal has returned);
//!   * a real previous handler was called exactly once per delivery, first, with its own calling
//!     convention (C04) - also inside the first-registration window;
//!   * the action of another signal (SIGUSR2) still runs exactly once per delivery of that signal (C02, C05);
//!   * nothing blocked (C03, C18: a 3 s alarm turns a handler that waits for the mutex its own
//!     thread holds into a dead child), nothing crashed;
//!   * what an action captured was dropped exactly once if the action was removed and never
//!     otherwise, and never while the action was running (C01).
//!   K <k> OK|BAD <reasons> | nested ran [..] prev n | ret r | after ran [..] prev n | drops [..]
//!   X <k> <how the child died>      E <boundaries>
#![cfg(all(target_os = "linux", target_arch = "x86_64"))]
use std::arch::asm;
use std::ptr;
use std::sync::atomic::{AtomicBool, AtomicUsize, Ordering};

use signal_hook_registry::{register, unregister, unregister_signal, SigId};

const S: i32 = libc::SIGUSR1;
const TF: i64 = 0x100;
const NT: usize = 8;

#[allow(clippy::declare_interior_mutable_const)]
const Z: AtomicUsize = AtomicUsize::new(0);
static LOG: [AtomicUsize; 64] = [Z; 64];
static LOG_LEN: AtomicUsize = AtomicUsize::new(0);
static RUNNING: [AtomicUsize; NT] = [Z; NT];
static DROPS: [AtomicUsize; NT] = [Z; NT];
static DROP_WHILE_RUNNING: AtomicUsize = AtomicUsize::new(0);
static PREV_CALLS: AtomicUsize = AtomicUsize::new(0);
static PREV_BAD_ARGS: AtomicUsize = AtomicUsize::new(0);
static PREV_AFTER_ACTION: AtomicUsize = AtomicUsize::new(0);

static STEP: AtomicUsize = AtomicUsize::new(0);
static KONLY: AtomicUsize = AtomicUsize::new(0);
static ARMED: AtomicBool = AtomicBool::new(false);
static IS_CHILD: AtomicBool = AtomicBool::new(false);
static CHILD_K: AtomicUsize = AtomicUsize::new(0);
static DEAD: AtomicUsize = AtomicUsize::new(0);
static NESTED_LEN: AtomicUsize = AtomicUsize::new(0);
static NESTED_PREV: AtomicUsize = AtomicUsize::new(0);

fn out(s: &str) {
    unsafe { libc::write(1, s.as_ptr() as *const libc::c_void, s.len()) };
}
fn log(tag: usize) {
    let i = LOG_LEN.fetch_add(1, Ordering::SeqCst);
    if i < 64 {
        LOG[i].store(tag, Ordering::SeqCst);
    }
}

struct Cap(usize);
impl Drop for Cap {
    fn drop(&mut self) {
        DROPS[self.0].fetch_add(1, Ordering::SeqCst);
        if RUNNING[self.0].load(Ordering::SeqCst) != 0 {
            DROP_WHILE_RUNNING.fetch_add(1, Ordering::SeqCst);
        }
    }
}

fn add_action(tag: usize) -> SigId {
    let cap = Cap(tag);
    unsafe {
        register(S, move || {
            RUNNING[cap.0].store(1, Ordering::SeqCst);
            log(cap.0);
            RUNNING[cap.0].store(0, Ordering::SeqCst);
        })
    }
    .unwrap()
}

extern "C" fn prev_plain(sig: libc::c_int) {
    if sig != S {
        PREV_BAD_ARGS.fetch_add(1, Ordering::SeqCst);
    }
    if LOG_LEN.load(Ordering::SeqCst) > NESTED_BASE.load(Ordering::SeqCst) {
        PREV_AFTER_ACTION.fetch_add(1, Ordering::SeqCst);
    }
    PREV_CALLS.fetch_add(1, Ordering::SeqCst);
}
extern "C" fn prev_info(sig: libc::c_int, info: *mut libc::siginfo_t, ctx: *mut libc::c_void) {
    let ok = sig == S && !info.is_null() && !ctx.is_null() && (info as usize) > 4096 && unsafe { (*info).si_signo } == S;
    if !ok {
        PREV_BAD_ARGS.fetch_add(1, Ordering::SeqCst);
    }
    if LOG_LEN.load(Ordering::SeqCst) > NESTED_BASE.load(Ordering::SeqCst) {
        PREV_AFTER_ACTION.fetch_add(1, Ordering::SeqCst);
    }
    PREV_CALLS.fetch_add(1, Ordering::SeqCst);
}
// log length when the current delivery began (the previous handler must run before any action of it)
static NESTED_BASE: AtomicUsize = AtomicUsize::new(0);

fn deliver() -> (Vec<usize>, usize) {
    let l0 = LOG_LEN.load(Ordering::SeqCst);
    let p0 = PREV_CALLS.load(Ordering::SeqCst);
    NESTED_BASE.store(l0, Ordering::SeqCst);
    unsafe { libc::raise(S) };
    let l1 = LOG_LEN.load(Ordering::SeqCst).min(64);
    ((l0..l1).map(|i| LOG[i].load(Ordering::SeqCst)).collect(), PREV_CALLS.load(Ordering::SeqCst) - p0)
}

extern "C" fn on_trap(_sig: libc::c_int, _info: *mut libc::siginfo_t, ctx: *mut libc::c_void) {
    if !ARMED.load(Ordering::Relaxed) {
        return;
    }
    let step = STEP.fetch_add(1, Ordering::Relaxed) + 1;
    let konly = KONLY.load(Ordering::Relaxed);
    if konly != 0 && step != konly {
        return;
    }
    let pid = unsafe { libc::fork() };
    if pid == 0 {
        IS_CHILD.store(true, Ordering::Relaxed);
        CHILD_K.store(step, Ordering::Relaxed);
        ARMED.store(false, Ordering::Relaxed);
        unsafe { libc::alarm(3) };
        let l0 = LOG_LEN.load(Ordering::SeqCst);
        let p0 = PREV_CALLS.load(Ordering::SeqCst);
        NESTED_BASE.store(l0, Ordering::SeqCst);
        unsafe { libc::raise(S) };
        NESTED_LEN.store(LOG_LEN.load(Ordering::SeqCst) - l0, Ordering::SeqCst);
        NESTED_PREV.store(PREV_CALLS.load(Ordering::SeqCst) - p0, Ordering::SeqCst);
        let uc = ctx as *mut libc::ucontext_t;
        unsafe { (*uc).uc_mcontext.gregs[libc::REG_EFL as usize] &= !TF };
    } else if pid > 0 {
        let mut st = 0;
        unsafe { libc::waitpid(pid, &mut st, 0) };
        if !(libc::WIFEXITED(st) && libc::WEXITSTATUS(st) == 0) {
            let why = if libc::WIFSIGNALED(st) { format!("signal {}", libc::WTERMSIG(st)) } else { format!("exit {}", libc::WEXITSTATUS(st)) };
            out(&format!("X {} {}\n", step, why));
            if DEAD.fetch_add(1, Ordering::Relaxed) + 1 >= 12 {
                ARMED.store(false, Ordering::Relaxed);
                let uc = ctx as *mut libc::ucontext_t;
                unsafe { (*uc).uc_mcontext.gregs[libc::REG_EFL as usize] &= !TF };
            }
        }
    }
}

#[inline(always)]
unsafe fn trap_flag_on() {
    asm!("pushfq", "or qword ptr [rsp], 0x100", "popfq");
}
#[inline(always)]
unsafe fn trap_flag_off() {
    asm!("pushfq", "and qword ptr [rsp], -257", "popfq");
}

fn main() {
    let a: Vec<String> = std::env::args().collect();
    if a.len() < 4 {
        eprintln!("usage: p_nested_reg <mutation r|u0|u1|x> <actions 0|1|2> <prev i|h|s> [konly]");
        std::process::exit(2);
    }
    let (mutation, nact, prev) = (a[1].as_str(), a[2].parse::<usize>().unwrap(), a[3].as_str());
    if a.len() > 4 {
        KONLY.store(a[4].parse().unwrap(), Ordering::Relaxed);
    }
    std::panic::set_hook(Box::new(|info| {
        let msg = if let Some(s) = info.payload().downcast_ref::<&str>() { s.to_string() }
                  else if let Some(s) = info.payload().downcast_ref::<String>() { s.clone() } else { "?".to_string() };
        out(&format!("P {} {}\n", CHILD_K.load(Ordering::Relaxed), msg.replace('\n', " ")));
        unsafe { libc::_exit(3) };
    }));
    unsafe {
        let mut sa: libc::sigaction = std::mem::zeroed();
        sa.sa_sigaction = on_trap as *const () as usize;
        sa.sa_flags = libc::SA_SIGINFO;
        libc::sigemptyset(&mut sa.sa_mask);
        assert_eq!(0, libc::sigaction(libc::SIGTRAP, &sa, ptr::null_mut()));
        // the disposition before the library ever sees the signal
        let mut p: libc::sigaction = std::mem::zeroed();
        libc::sigemptyset(&mut p.sa_mask);
        match prev {
            "i" => p.sa_sigaction = libc::SIG_IGN,
            "h" | "H" => p.sa_sigaction = prev_plain as *const () as usize,
            _ => {
                p.sa_sigaction = prev_info as *const () as usize;
                p.sa_flags = libc::SA_SIGINFO;
            }
        }
        if prev == "H" || prev == "S" {
            // a previous handler that asked for an unusual environment: none of it may rub off on the library's handler
            p.sa_flags |= libc::SA_RESETHAND | libc::SA_NODEFER | libc::SA_ONSTACK;
            libc::sigaddset(&mut p.sa_mask, libc::SIGWINCH);
        }
        assert_eq!(0, libc::sigaction(S, &p, ptr::null_mut()));
    }
    // the registry's globals exist before the call under test (another signal is registered), so that the first
    // registration of SIGUSR1 is the only thing the call does
    let _other = unsafe { register(libc::SIGUSR2, || log(7)) }.unwrap();
    let ids: Vec<SigId> = (1..=nact).map(add_action).collect();
    let old: Vec<usize> = (1..=nact).collect();
    let new: Vec<usize> = match mutation {
        "r" => (1..=nact + 1).collect(),
        "u0" => old.iter().cloned().filter(|t| *t != 1).collect(),
        "u1" => old.iter().cloned().filter(|t| *t != 2).collect(),
        _ => Vec::new(),
    };
    let removed: Vec<usize> = old.iter().cloned().filter(|t| !new.contains(t)).collect();
    let has_prev = prev != "i";
    STEP.store(0, Ordering::Relaxed);
    ARMED.store(true, Ordering::Relaxed);
    let ret: i64;
    match mutation {
        "r" => {
            let cap = Cap(nact + 1);
            let action = move || {
                RUNNING[cap.0].store(1, Ordering::SeqCst);
                log(cap.0);
                RUNNING[cap.0].store(0, Ordering::SeqCst);
            };
            unsafe { trap_flag_on() };
            let r = unsafe { register(S, action) };
            unsafe { trap_flag_off() };
            ret = r.is_ok() as i64;
        }
        "u0" | "u1" => {
            let id = ids[if mutation == "u0" { 0 } else { 1 }];
            unsafe { trap_flag_on() };
            let r = unregister(id);
            unsafe { trap_flag_off() };
            ret = r as i64;
        }
        _ => {
            unsafe { trap_flag_on() };
            #[allow(deprecated)]
            let r = unregister_signal(S);
            unsafe { trap_flag_off() };
            ret = r as i64;
        }
    }
    ARMED.store(false, Ordering::Relaxed);
    let child = IS_CHILD.load(Ordering::Relaxed);
    let mut bad: Vec<String> = Vec::new();
    let k;
    let (nested, nprev): (Vec<usize>, usize);
    if child {
        k = CHILD_K.load(Ordering::Relaxed);
        let n = NESTED_LEN.load(Ordering::SeqCst);
        let l1 = LOG_LEN.load(Ordering::SeqCst);
        // the nested delivery's entries are the first n after the base
        let base = NESTED_BASE.load(Ordering::SeqCst);
        nested = (base..(base + n).min(l1).min(64)).map(|i| LOG[i].load(Ordering::SeqCst)).collect();
        nprev = NESTED_PREV.load(Ordering::SeqCst);
    } else {
        // the boundary after the last instruction: the delivery arrives when the call has returned
        k = STEP.load(Ordering::Relaxed) + 1;
        unsafe { libc::alarm(3) };
        let (r, p) = deliver();
        nested = r;
        nprev = p;
    }
    if nested != old && nested != new {
        bad.push(format!("SNAPSHOT the delivery inside the call ran {:?}: neither the list before the call {:?} nor the list after it {:?}", nested, old, new));
    }
    if has_prev && nprev != 1 {
        bad.push(format!("CHAIN the delivery inside the call called the previous handler {} times", nprev));
    }
    if !has_prev && nprev != 0 {
        bad.push("CHAIN a previous handler was called although the signal was ignored before".to_string());
    }
    let expected_ret = match mutation { "r" => 1, "x" => (nact > 0) as i64, _ => 1 };
    if ret != expected_ret {
        bad.push(format!("RESULT the call returned {} (expected {})", ret, expected_ret));
    }
    let (after, aprev) = deliver();
    if after != new {
        bad.push(format!("AFTER a delivery after the call returned ran {:?}, the registered actions are {:?}", after, new));
    }
    if has_prev && aprev != 1 {
        bad.push(format!("CHAIN a delivery after the call called the previous handler {} times", aprev));
    }
    if PREV_BAD_ARGS.load(Ordering::SeqCst) != 0 {
        bad.push("CHAIN the previous handler was called with the wrong calling convention / arguments".to_string());
    }
    if PREV_AFTER_ACTION.load(Ordering::SeqCst) != 0 {
        bad.push("CHAIN the previous handler ran after an action of the same delivery".to_string());
    }
    // the other signal's action is none of the call's business
    let l0 = LOG_LEN.load(Ordering::SeqCst);
    unsafe { libc::raise(libc::SIGUSR2) };
    let l1 = LOG_LEN.load(Ordering::SeqCst).min(64);
    let other: Vec<usize> = (l0..l1).map(|i| LOG[i].load(Ordering::SeqCst)).collect();
    if other != vec![7] {
        bad.push(format!("OTHER a delivery of SIGUSR2 ran {:?}, its registered action is [7]", other));
    }
    let drops: Vec<usize> = (1..=nact + 1).map(|t| DROPS[t].load(Ordering::SeqCst)).collect();
    for t in 1..=nact + 1 {
        let want = if removed.contains(&t) { 1 } else { 0 };
        if DROPS[t].load(Ordering::SeqCst) != want {
            bad.push(format!("DROP what action {} captured was dropped {} time(s), expected {}", t, DROPS[t].load(Ordering::SeqCst), want));
        }
    }
    if DROP_WHILE_RUNNING.load(Ordering::SeqCst) != 0 {
        bad.push("DROP a capture was dropped while its action was running".to_string());
    }
    out(&format!("K {} {} | nested ran {:?} prev {} | ret {} | after ran {:?} prev {} | drops {:?}\n", k,
                 if bad.is_empty() { "OK".to_string() } else { format!("BAD {}", bad.join("; ")) }, nested, nprev, ret, after, aprev, drops));
    if child {
        unsafe { libc::_exit(0) };
    }
    out(&format!("E {}\n", STEP.load(Ordering::Relaxed)));
    unsafe { libc::_exit(0) };
}
