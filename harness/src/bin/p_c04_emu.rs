//! A pre-existing three-argument handler keeps receiving the kernel's info after OTHER parts of the library were used on
//! its signal (C04: chained "with the calling convention it was installed with (three-argument with the kernel's info and
//! context)", on every delivery).  For each of the ignore / stop kind signals given: a siginfo handler is installed, the
//! library takes the signal over (an action is registered), a delivery carrying a payload is made (sigqueue), then
//! `emulate_default_handler(sig)` is called from normal context (a stop-kind signal stops the child; the parent continues
//! it), then a second delivery with another payload.  In a forked child per signal.
//!
//!   p_c04_emu <sig>...    prints   V <sig> ok | V <sig> bad <which delivery> signo=<..> code=<..> value=<..> calls=<n> | V <sig> died:<how>
use sh_harness::forked::{reset_all_dispositions, run_child_opts, Outcome};
use std::io::{Read, Write};
use std::os::unix::io::FromRawFd;
use std::sync::atomic::{AtomicI64, AtomicUsize, Ordering};
use std::time::Duration;

extern "C" {
    fn sigqueue(pid: libc::pid_t, sig: libc::c_int, value: libc::sigval) -> libc::c_int;
}
static CALLS: AtomicUsize = AtomicUsize::new(0);
static SIGNO: AtomicI64 = AtomicI64::new(0);
static CODE: AtomicI64 = AtomicI64::new(0);
static VALUE: AtomicI64 = AtomicI64::new(0);

extern "C" fn prev(_sig: libc::c_int, info: *mut libc::siginfo_t, _ctx: *mut libc::c_void) {
    CALLS.fetch_add(1, Ordering::SeqCst);
    if !info.is_null() {
        unsafe {
            SIGNO.store((*info).si_signo as i64, Ordering::SeqCst);
            CODE.store((*info).si_code as i64, Ordering::SeqCst);
            VALUE.store((*info).si_value().sival_ptr as i64, Ordering::SeqCst);
        }
    } else {
        SIGNO.store(-1, Ordering::SeqCst);
    }
}

fn deliver(sig: i32, payload: i64) -> Option<String> {
    let before = CALLS.load(Ordering::SeqCst);
    SIGNO.store(0, Ordering::SeqCst);
    VALUE.store(0, Ordering::SeqCst);
    // scribble over the dead stack below, so that an info the kernel did not fill in is recognisable
    let junk = [0xAAu8; 4096];
    std::hint::black_box(&junk);
    unsafe { sigqueue(libc::getpid(), sig, libc::sigval { sival_ptr: payload as *mut libc::c_void }) };
    let calls = CALLS.load(Ordering::SeqCst) - before;
    let (s, c, v) = (SIGNO.load(Ordering::SeqCst), CODE.load(Ordering::SeqCst), VALUE.load(Ordering::SeqCst));
    if calls != 1 || s != sig as i64 || c != -1 || v != payload {
        return Some(format!("signo={} code={} value={:#x} calls={}", s, c, v, calls));
    }
    None
}

fn case(sig: i32) -> String {
    unsafe {
        let mut act: libc::sigaction = std::mem::zeroed();
        act.sa_sigaction = prev as usize;
        act.sa_flags = libc::SA_SIGINFO;
        libc::sigemptyset(&mut act.sa_mask);
        libc::sigaction(sig, &act, std::ptr::null_mut());
    }
    let _id = unsafe { signal_hook_registry::register(sig, || ()) }.unwrap();
    if let Some(b) = deliver(sig, 0x1111) {
        return format!("bad first {}", b);
    }
    let _ = signal_hook::low_level::emulate_default_handler(sig);
    if let Some(b) = deliver(sig, 0x2222) {
        return format!("bad after-emulation {}", b);
    }
    "ok".to_string()
}

fn main() {
    let sigs: Vec<i32> = std::env::args().skip(1).filter_map(|a| a.parse().ok()).collect();
    for &sig in &sigs {
        let mut fds = [0i32; 2];
        unsafe { libc::pipe(fds.as_mut_ptr()) };
        let (rd, wr) = (fds[0], fds[1]);
        let out = run_child_opts(
            move || {
                unsafe {
                    libc::close(rd);
                    reset_all_dispositions();
                }
                let s = case(sig);
                let mut f = unsafe { std::fs::File::from_raw_fd(wr) };
                let _ = f.write_all(s.as_bytes());
                0
            },
            Duration::from_secs(10),
            true,
        );
        unsafe { libc::close(wr) };
        let mut f = unsafe { std::fs::File::from_raw_fd(rd) };
        let mut s = String::new();
        let _ = f.read_to_string(&mut s);
        if s.is_empty() {
            s = match out {
                Outcome::Exited(c) => format!("died:exit:{}", c),
                Outcome::Signaled(c) => format!("died:sig:{}", c),
                Outcome::Stopped(c) => format!("died:stop:{}", c),
                Outcome::Timeout => "died:timeout".to_string(),
            };
        }
        println!("V {} {}", sig, s);
    }
    let _ = std::io::stdout().flush();
}
