//! Removal waits for a LONG delivery on another thread (C01: when a removal returns no invocation of
//! the removed action is in progress; what it captured is released exactly once, not inside it).
//! Real threads, no scheduler: thread A raises the signal, the action stays in the handler for
//! <ms> milliseconds; thread B starts the removal 50 ms into that and reports whether the action
//! was still running when the removal returned.  Each case in a forked child.
//!
//!   p_quiesce <ms>...     per (how, ms):  Q <how u|x|d> <ms> <returned_while_running 0|1> <drops at return> <drops at end> <dropped_while_running 0|1> <removal ms>
//!   how: u = unregister(id), x = unregister_signal(sig), d = drop of an iterator instance watching the signal
use sh_harness::forked::{reset_all_dispositions, run_child, Outcome};
use std::io::{Read, Write};
use std::os::unix::io::FromRawFd;
use std::sync::atomic::{AtomicUsize, Ordering};
use std::time::{Duration, Instant};

static RUNNING: AtomicUsize = AtomicUsize::new(0);
static DROPS: AtomicUsize = AtomicUsize::new(0);
static DROPPED_WHILE_RUNNING: AtomicUsize = AtomicUsize::new(0);
static HOLD_MS: AtomicUsize = AtomicUsize::new(0);

struct Cap;
impl Drop for Cap {
    fn drop(&mut self) {
        DROPS.fetch_add(1, Ordering::SeqCst);
        if RUNNING.load(Ordering::SeqCst) != 0 {
            DROPPED_WHILE_RUNNING.fetch_add(1, Ordering::SeqCst);
        }
    }
}

fn hold() {
    RUNNING.store(1, Ordering::SeqCst);
    let until = Instant::now() + Duration::from_millis(HOLD_MS.load(Ordering::SeqCst) as u64);
    // busy wait: nothing but clock reads inside the handler
    while Instant::now() < until {
        std::hint::spin_loop();
    }
    RUNNING.store(0, Ordering::SeqCst);
}

fn case(how: &str, ms: usize) -> String {
    let sig = libc::SIGUSR1;
    HOLD_MS.store(ms, Ordering::SeqCst);
    // the action whose removal is measured
    let cap = Cap;
    let id = unsafe {
        signal_hook_registry::register(sig, move || {
            let _c = &cap;
            hold();
        })
    }
    .unwrap();
    let inst = if how == "d" { Some(signal_hook::iterator::Signals::new(&[sig]).unwrap()) } else { None };
    let a = std::thread::spawn(move || unsafe {
        libc::raise(sig);
    });
    // wait until the action is inside the handler, then a little longer
    let t0 = Instant::now();
    while RUNNING.load(Ordering::SeqCst) == 0 && t0.elapsed() < Duration::from_secs(2) {
        std::thread::yield_now();
    }
    std::thread::sleep(Duration::from_millis(50));
    let t1 = Instant::now();
    match how {
        "u" => {
            signal_hook_registry::unregister(id);
        }
        "x" => {
            #[allow(deprecated)]
            signal_hook_registry::unregister_signal(sig);
        }
        _ => {
            // dropping the iterator removes ITS action; the held action is ours: the barrier is the same
            drop(inst);
            signal_hook_registry::unregister(id);
        }
    }
    let still = RUNNING.load(Ordering::SeqCst);
    let drops_at_return = DROPS.load(Ordering::SeqCst);
    let took = t1.elapsed().as_millis();
    let _ = a.join();
    format!("{} {} {} {} {}", still, drops_at_return, DROPS.load(Ordering::SeqCst), DROPPED_WHILE_RUNNING.load(Ordering::SeqCst), took)
}

fn main() {
    let mss: Vec<usize> = std::env::args().skip(1).filter_map(|a| a.parse().ok()).collect();
    for how in ["u", "x", "d"] {
        for &ms in &mss {
            let mut fds = [0i32; 2];
            unsafe { libc::pipe(fds.as_mut_ptr()) };
            let (rd, wr) = (fds[0], fds[1]);
            let out = run_child(
                move || {
                    unsafe {
                        libc::close(rd);
                        reset_all_dispositions();
                        // as in every Rust program: SIGPIPE is ignored (a delivery in flight while an iterator is dropped
                        // writes into a socket whose read end is already closed)
                        libc::signal(libc::SIGPIPE, libc::SIG_IGN);
                    }
                    let s = case(how, ms);
                    let mut f = unsafe { std::fs::File::from_raw_fd(wr) };
                    let _ = f.write_all(s.as_bytes());
                    0
                },
                Duration::from_secs(20),
            );
            unsafe { libc::close(wr) };
            let mut f = unsafe { std::fs::File::from_raw_fd(rd) };
            let mut s = String::new();
            let _ = f.read_to_string(&mut s);
            if s.is_empty() {
                s = match out {
                    Outcome::Exited(c) => format!("died:exit:{}", c),
                    Outcome::Signaled(c) => format!("died:sig:{}", c),
                    Outcome::Stopped(c) => format!("died:stop:{}", c),
                    Outcome::Timeout => "died:timeout".to_string(),
                };
            }
            println!("Q {} {} {}", how, ms, s);
        }
    }
}
