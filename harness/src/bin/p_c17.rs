//! C17 probes: what `Origin` (through the `WithOrigin` exfiltrator and extracted by hand inside
//! the handler) reports for real deliveries and for synthetic `siginfo_t` records, next to an
//! independent reading of the raw `siginfo_t` (own `#[repr(C)]` view, no libc accessors, no
//! extract.c) and the ground truth (getpid / getuid / child pid).
//!
//! Usage
//!   p_c17 real [--uid N] <mech> <sig> [<mech> <sig> ...]   every pair runs in its own forked child
//!                                                  (which first becomes user N when asked to)
//!   p_c17 synth                                    stdin: lines `signo code pid uid`
//!
//! Output of `real`, one line per delivery seen by the raw action (index i = i-th delivery):
//!   real <mech> <sig> <i> raw=<signo>,<code>,<w0>,<w1>,<w2> hand=<signal>,<cause>,<pid|->,<uid|->
//!        iter=<signal>,<cause>,<pid|->,<uid|->  (or iter=missing)  me=<pid>,<uid> peer=<pid>,<uid>
//!   (w0 = i32 at byte 16, w1 = u32 at byte 20, w2 = i32 at byte 24 of siginfo_t: for kill /
//!    sigqueue / SIGCHLD records these are si_pid, si_uid, si_status|si_value)
//! and one line per case:
//!   case <mech> <sig> nraw=<n> niter=<m> setup=<ok|text> outcome=<exit:0|...>
//! Output of `synth`:
//!   synth <signo> <code> <pid> <uid> -> <signal> <cause> <pid|-> <uid|->
//! Cause numbering: Unknown 0, Kernel 1, Sent(User) 2, TKill 3, Queue 4, MesgQ 5, Chld(Exited) 6,
//! Killed 7, Dumped 8, Trapped 9, Stopped 10, Continued 11, anything else 99.
use sh_harness::forked::{run_child, Outcome};
use signal_hook::iterator::exfiltrator::WithOrigin;
use signal_hook::iterator::SignalsInfo;
use signal_hook::low_level::siginfo::{Cause, Chld, Origin, Sent};
use std::io::{BufRead, Write};
use std::sync::atomic::{AtomicI64, AtomicUsize, Ordering};
use std::time::{Duration, Instant};

/// Independent view of the head of the kernel's siginfo_t on 64-bit Linux: three ints, padding
/// to the 8-byte aligned union, then the first three 32-bit words of the union.
#[repr(C)]
struct RawInfo {
    si_signo: i32,
    si_errno: i32,
    si_code: i32,
    pad: i32,
    w0: i32,
    w1: u32,
    w2: i32,
    w3: i32,
}

const MAXREC: usize = 16;
const W: usize = 10;
#[allow(clippy::declare_interior_mutable_const)]
const Z: AtomicI64 = AtomicI64::new(0);
static REC: [AtomicI64; MAXREC * W] = [Z; MAXREC * W];
static NREC: AtomicUsize = AtomicUsize::new(0);

fn cause_code(c: &Cause) -> i64 {
    match c {
        Cause::Unknown => 0,
        Cause::Kernel => 1,
        Cause::Sent(Sent::User) => 2,
        Cause::Sent(Sent::TKill) => 3,
        Cause::Sent(Sent::Queue) => 4,
        Cause::Sent(Sent::MesgQ) => 5,
        Cause::Chld(Chld::Exited) => 6,
        Cause::Chld(Chld::Killed) => 7,
        Cause::Chld(Chld::Dumped) => 8,
        Cause::Chld(Chld::Trapped) => 9,
        Cause::Chld(Chld::Stopped) => 10,
        Cause::Chld(Chld::Continued) => 11,
        _ => 99,
    }
}

fn origin_text(o: &Origin) -> String {
    match &o.process {
        Some(p) => format!("{},{},{},{}", o.signal, cause_code(&o.cause), p.pid, p.uid),
        None => format!("{},{},-,-", o.signal, cause_code(&o.cause)),
    }
}

/// The raw action: async-signal-safe (atomics only + Origin::extract, which is documented so).
fn raw_action(info: &libc::siginfo_t) {
    let r = unsafe { &*(info as *const libc::siginfo_t as *const RawInfo) };
    let i = NREC.fetch_add(1, Ordering::SeqCst);
    if i >= MAXREC {
        return;
    }
    let o = unsafe { Origin::extract(info) };
    let b = i * W;
    REC[b].store(r.si_signo as i64, Ordering::SeqCst);
    REC[b + 1].store(r.si_code as i64, Ordering::SeqCst);
    REC[b + 2].store(r.w0 as i64, Ordering::SeqCst);
    REC[b + 3].store(r.w1 as i64, Ordering::SeqCst);
    REC[b + 4].store(r.w2 as i64, Ordering::SeqCst);
    REC[b + 5].store(o.signal as i64, Ordering::SeqCst);
    REC[b + 6].store(cause_code(&o.cause), Ordering::SeqCst);
    match o.process {
        Some(p) => {
            REC[b + 7].store(1, Ordering::SeqCst);
            REC[b + 8].store(p.pid as i64, Ordering::SeqCst);
            REC[b + 9].store(p.uid as i64, Ordering::SeqCst);
        }
        None => REC[b + 7].store(0, Ordering::SeqCst),
    }
}

extern "C" {
    fn sigqueue(pid: libc::pid_t, sig: libc::c_int, value: libc::sigval) -> libc::c_int;
    fn setitimer(which: libc::c_int, new: *const libc::itimerval, old: *mut libc::itimerval) -> libc::c_int;
}
const F_SETSIG: libc::c_int = 10;
const F_SETOWN: libc::c_int = 8;
const O_ASYNC: libc::c_int = 0o20000;
const PTRACE_TRACEME: libc::c_uint = 0;

struct Case {
    signals: SignalsInfo<WithOrigin>,
    seen: Vec<Origin>,
    spin: bool,
}

impl Case {
    /// Collect origins until `n` have been seen in total (or 3 s), then linger a little.
    fn wait_for(&mut self, n: usize) {
        let start = Instant::now();
        while self.seen.len() < n && start.elapsed() < Duration::from_secs(3) {
            for o in self.signals.pending() {
                self.seen.push(o);
            }
            if self.spin {
                for _ in 0..2000 {
                    std::hint::spin_loop();
                }
            } else {
                std::thread::sleep(Duration::from_micros(200));
            }
        }
    }
    fn linger(&mut self) {
        std::thread::sleep(Duration::from_millis(8));
        for o in self.signals.pending() {
            self.seen.push(o);
        }
    }
}

unsafe fn fork_do<F: FnOnce()>(f: F) -> libc::pid_t {
    let pid = libc::fork();
    if pid == 0 {
        f();
        libc::_exit(0);
    }
    pid
}

/// A grandchild runs `send`, then waits until we have seen the signal before it exits, so that
/// its own exit (a second, CLD_EXITED delivery when `sig` is SIGCHLD) cannot merge with it.
unsafe fn child_sender<F: FnOnce()>(c: &mut Case, sig: i32, send: F) -> libc::pid_t {
    let mut p = [0i32; 2];
    libc::pipe(p.as_mut_ptr());
    let gc = fork_do(|| {
        send();
        let mut b = [0u8; 1];
        libc::read(p[0], b.as_mut_ptr() as *mut libc::c_void, 1);
    });
    c.wait_for(1);
    libc::write(p[1], b"x".as_ptr() as *const libc::c_void, 1);
    if sig == libc::SIGCHLD {
        c.wait_for(2);
    }
    reap(gc);
    gc
}

unsafe fn reap(pid: libc::pid_t) {
    let mut st = 0;
    libc::waitpid(pid, &mut st, 0);
}

unsafe fn async_pair(sig_override: Option<i32>) -> Result<(i32, i32), String> {
    let mut fds = [0i32; 2];
    if libc::socketpair(libc::AF_UNIX, libc::SOCK_STREAM, 0, fds.as_mut_ptr()) != 0 {
        return Err("socketpair".into());
    }
    if libc::fcntl(fds[0], F_SETOWN, libc::getpid()) != 0 {
        return Err("F_SETOWN".into());
    }
    if let Some(s) = sig_override {
        if libc::fcntl(fds[0], F_SETSIG, s) != 0 {
            return Err("F_SETSIG".into());
        }
    }
    let fl = libc::fcntl(fds[0], libc::F_GETFL);
    if libc::fcntl(fds[0], libc::F_SETFL, fl | O_ASYNC) != 0 {
        return Err("O_ASYNC".into());
    }
    Ok((fds[0], fds[1]))
}

const OTHER_UID: libc::uid_t = 54321;

/// Runs inside the forked child.  Returns (setup text, peer pid, peer uid).
unsafe fn run_mech(mech: &str, sig: i32, c: &mut Case) -> (String, i32, u32) {
    let (setup, peer) = run_mech_inner(mech, sig, c);
    let uid = if mech.ends_with("_uid") { OTHER_UID } else { libc::getuid() };
    (setup, peer, uid)
}

unsafe fn run_mech_inner(mech: &str, sig: i32, c: &mut Case) -> (String, i32) {
    let me = libc::getpid();
    let mut peer = 0;
    let ok = "ok".to_string();
    if mech.ends_with("_uid") && libc::getuid() != 0 {
        return ("needs-root".into(), 0);
    }
    match mech {
        "chld_exit_uid" => {
            let gc = fork_do(|| {
                if libc::setuid(OTHER_UID) == 0 {
                    libc::_exit(7)
                }
                libc::_exit(99)
            });
            peer = gc;
            c.wait_for(1);
            reap(gc);
        }
        "kill_self" => {
            libc::kill(me, sig);
            peer = me;
            c.wait_for(1);
        }
        "kill_pgrp" => {
            libc::kill(0, sig);
            peer = me;
            c.wait_for(1);
        }
        "kill_child" => {
            peer = child_sender(c, sig, || {
                libc::kill(libc::getppid(), sig);
            });
        }
        "raise" => {
            libc::raise(sig);
            peer = me;
            c.wait_for(1);
        }
        "tgkill" => {
            libc::syscall(libc::SYS_tgkill, me as libc::c_long, libc::gettid() as libc::c_long, sig as libc::c_long);
            peer = me;
            c.wait_for(1);
        }
        "pthread_kill" => {
            libc::pthread_kill(libc::pthread_self(), sig);
            peer = me;
            c.wait_for(1);
        }
        "sigqueue_self" => {
            sigqueue(me, sig, libc::sigval { sival_ptr: 0x1234 as *mut libc::c_void });
            peer = me;
            c.wait_for(1);
        }
        "sigqueue_child" => {
            peer = child_sender(c, sig, || {
                sigqueue(libc::getppid(), sig, libc::sigval { sival_ptr: 0x4321 as *mut libc::c_void });
            });
        }
        "chld_exit" => {
            let gc = fork_do(|| libc::_exit(7));
            peer = gc;
            c.wait_for(1);
            reap(gc);
        }
        "chld_kill" => {
            let gc = fork_do(|| {
                libc::raise(libc::SIGKILL);
            });
            peer = gc;
            c.wait_for(1);
            reap(gc);
        }
        "chld_dump" => {
            let dir = std::env::temp_dir().join(format!("p_c17_core_{}", me));
            let _ = std::fs::create_dir_all(&dir);
            let cdir = std::ffi::CString::new(dir.to_str().unwrap_or("/tmp")).unwrap();
            let gc = fork_do(|| {
                libc::chdir(cdir.as_ptr());
                let lim = libc::rlimit { rlim_cur: 1 << 26, rlim_max: 1 << 26 };
                libc::setrlimit(libc::RLIMIT_CORE, &lim);
                libc::prctl(libc::PR_SET_DUMPABLE, 1 as libc::c_ulong);
                let mut act: libc::sigaction = std::mem::zeroed();
                act.sa_sigaction = libc::SIG_DFL;
                libc::sigaction(libc::SIGQUIT, &act, std::ptr::null_mut());
                libc::raise(libc::SIGQUIT);
            });
            peer = gc;
            c.wait_for(1);
            reap(gc);
            let _ = std::fs::remove_dir_all(&dir);
        }
        "chld_stop_cont" => {
            let mut p = [0i32; 2];
            libc::pipe(p.as_mut_ptr());
            let gc = fork_do(|| {
                libc::raise(libc::SIGSTOP);
                let mut b = [0u8; 1];
                libc::read(p[0], b.as_mut_ptr() as *mut libc::c_void, 1);
                libc::_exit(3);
            });
            peer = gc;
            c.wait_for(1);
            libc::kill(gc, libc::SIGCONT);
            c.wait_for(2);
            libc::write(p[1], b"x".as_ptr() as *const libc::c_void, 1);
            c.wait_for(3);
            reap(gc);
        }
        "chld_trap" => {
            let gc = fork_do(|| {
                if libc::ptrace(PTRACE_TRACEME, 0, 0, 0) != 0 {
                    libc::_exit(9);
                }
                libc::raise(libc::SIGUSR2);
                libc::_exit(4);
            });
            peer = gc;
            c.wait_for(1);
            libc::kill(gc, libc::SIGKILL);
            c.wait_for(2);
            reap(gc);
        }
        "alarm" | "itimer_virtual" | "itimer_prof" => {
            let which = match mech {
                "alarm" => 0,
                "itimer_virtual" => 1,
                _ => 2,
            };
            let tv = libc::itimerval {
                it_interval: libc::timeval { tv_sec: 0, tv_usec: 0 },
                it_value: libc::timeval { tv_sec: 0, tv_usec: 3000 },
            };
            c.spin = which != 0;
            if setitimer(which, &tv, std::ptr::null_mut()) != 0 {
                return ("setitimer failed".into(), 0);
            }
            c.wait_for(1);
        }
        "timer" => {
            let mut ev: libc::sigevent = std::mem::zeroed();
            ev.sigev_notify = libc::SIGEV_SIGNAL;
            ev.sigev_signo = sig;
            ev.sigev_value = libc::sigval { sival_ptr: 77 as *mut libc::c_void };
            // a first, unused timer takes id 0, so that the bytes shared with si_pid are not zero
            let mut ev0: libc::sigevent = std::mem::zeroed();
            ev0.sigev_notify = libc::SIGEV_SIGNAL;
            ev0.sigev_signo = sig;
            let mut t0: libc::timer_t = std::mem::zeroed();
            libc::timer_create(libc::CLOCK_MONOTONIC, &mut ev0, &mut t0);
            let mut t: libc::timer_t = std::mem::zeroed();
            if libc::timer_create(libc::CLOCK_MONOTONIC, &mut ev, &mut t) != 0 {
                return ("timer_create failed".into(), 0);
            }
            let its = libc::itimerspec {
                it_interval: libc::timespec { tv_sec: 0, tv_nsec: 0 },
                it_value: libc::timespec { tv_sec: 0, tv_nsec: 2_000_000 },
            };
            libc::timer_settime(t, 0, &its, std::ptr::null_mut());
            c.wait_for(1);
            libc::timer_delete(t);
        }
        "sigio" | "setsig" => {
            let (a, b) = match async_pair(if mech == "setsig" { Some(sig) } else { None }) {
                Ok(x) => x,
                Err(e) => return (e, 0),
            };
            libc::write(b, b"x".as_ptr() as *const libc::c_void, 1);
            c.wait_for(1);
            libc::close(a);
            libc::close(b);
        }
        "pipe" => {
            let mut p = [0i32; 2];
            libc::pipe(p.as_mut_ptr());
            libc::close(p[0]);
            libc::write(p[1], b"x".as_ptr() as *const libc::c_void, 1);
            peer = me;
            c.wait_for(1);
        }
        "xfsz" => {
            let name = std::ffi::CString::new("p_c17").unwrap();
            let fd = libc::memfd_create(name.as_ptr(), 0);
            if fd < 0 {
                return ("memfd_create failed".into(), 0);
            }
            let mut old: libc::rlimit = std::mem::zeroed();
            libc::getrlimit(libc::RLIMIT_FSIZE, &mut old);
            let lim = libc::rlimit { rlim_cur: 4, rlim_max: old.rlim_max };
            libc::setrlimit(libc::RLIMIT_FSIZE, &lim);
            libc::write(fd, b"0123456789".as_ptr() as *const libc::c_void, 10);
            libc::write(fd, b"0123456789".as_ptr() as *const libc::c_void, 10);
            libc::setrlimit(libc::RLIMIT_FSIZE, &old);
            peer = me;
            c.wait_for(1);
        }
        "xcpu" => {
            let lim = libc::rlimit { rlim_cur: 1, rlim_max: 5 };
            libc::setrlimit(libc::RLIMIT_CPU, &lim);
            c.spin = true;
            c.wait_for(1);
        }
        "mesgq" => {
            let name = std::ffi::CString::new(format!("/p_c17_{}", me)).unwrap();
            let mut attr: libc::mq_attr = std::mem::zeroed();
            attr.mq_maxmsg = 2;
            attr.mq_msgsize = 8;
            let q = libc::mq_open(name.as_ptr(), libc::O_CREAT | libc::O_RDWR, 0o600 as libc::c_uint, &mut attr as *mut libc::mq_attr);
            if q < 0 {
                return (format!("mq_open failed errno {}", *libc::__errno_location()), 0);
            }
            let mut ev: libc::sigevent = std::mem::zeroed();
            ev.sigev_notify = libc::SIGEV_SIGNAL;
            ev.sigev_signo = sig;
            ev.sigev_value = libc::sigval { sival_ptr: 55 as *mut libc::c_void };
            if libc::syscall(libc::SYS_mq_notify, q as libc::c_long, &ev as *const libc::sigevent) != 0 {
                libc::mq_unlink(name.as_ptr());
                return ("mq_notify failed".into(), 0);
            }
            // the message is sent by a grandchild, so si_pid must be the grandchild's
            peer = child_sender(c, sig, || {
                libc::mq_send(q, b"m".as_ptr() as *const libc::c_char, 1, 0);
            });
            libc::mq_close(q);
            libc::mq_unlink(name.as_ptr());
        }
        _ => return (format!("unknown-mechanism"), 0),
    }
    c.linger();
    (ok, peer)
}

fn one_case(mech: &str, sig: i32, run_as: Option<u32>) -> String {
    let mut out = String::new();
    if let Some(u) = run_as {
        if unsafe { libc::setgid(u) != 0 || libc::setuid(u) != 0 } {
            return format!("case {} {} nraw=0 niter=0 setup=setuid-failed", mech, sig);
        }
    }
    // for every second signal number a foreign handler is in place before the library takes the signal over: a plain
    // one-argument handler that asked for the alternate stack (what CPython's faulthandler installs); what Origin
    // reports may not depend on it
    if sig % 2 == 0 {
        extern "C" fn plain(_s: libc::c_int) {}
        unsafe {
            let mut act: libc::sigaction = std::mem::zeroed();
            act.sa_sigaction = plain as usize;
            act.sa_flags = libc::SA_ONSTACK;
            libc::sigemptyset(&mut act.sa_mask);
            libc::sigaction(sig, &act, std::ptr::null_mut());
        }
    }
    let signals = match SignalsInfo::<WithOrigin>::new(&[sig]) {
        Ok(s) => s,
        Err(e) => return format!("case {} {} nraw=0 niter=0 setup=register-failed:{:?}", mech, sig, e.kind()),
    };
    if unsafe { signal_hook_registry::register_sigaction(sig, raw_action) }.is_err() {
        return format!("case {} {} nraw=0 niter=0 setup=register-raw-failed", mech, sig);
    }
    let mut c = Case { signals, seen: Vec::new(), spin: false };
    let (setup, peer, peer_uid) = unsafe { run_mech(mech, sig, &mut c) };
    let n = NREC.load(Ordering::SeqCst).min(MAXREC);
    let (me, uid) = unsafe { (libc::getpid(), libc::getuid()) };
    for i in 0..n {
        let g = |k: usize| REC[i * W + k].load(Ordering::SeqCst);
        let hand = if g(7) == 1 {
            format!("{},{},{},{}", g(5), g(6), g(8), g(9))
        } else {
            format!("{},{},-,-", g(5), g(6))
        };
        let iter = c.seen.get(i).map(origin_text).unwrap_or_else(|| "missing".to_string());
        out.push_str(&format!(
            "real {} {} {} raw={},{},{},{},{} hand={} iter={} me={},{} peer={},{}\n",
            mech, sig, i, g(0), g(1), g(2), g(3), g(4), hand, iter, me, uid, peer, peer_uid
        ));
    }
    out.push_str(&format!("case {} {} nraw={} niter={} setup={}", mech, sig, n, c.seen.len(), setup));
    out
}

fn real(args: &[String]) -> i32 {
    assert_eq!(std::mem::size_of::<libc::siginfo_t>(), 128);
    let mut i = 0;
    let mut run_as: Option<u32> = None;
    if args.first().map(|s| s.as_str()) == Some("--uid") {
        run_as = args.get(1).and_then(|x| x.parse().ok());
        i = 2;
    }
    while i + 1 < args.len() {
        let mech = args[i].clone();
        let sig: i32 = args[i + 1].parse().expect("signal number");
        i += 2;
        std::io::stdout().flush().unwrap();
        let (m2, s2) = (mech.clone(), sig);
        let body = move || {
            let text = one_case(&m2, s2, run_as);
            print!("{}", text);
            std::io::stdout().flush().unwrap();
            0
        };
        // `run_child` lowers the hard core-size limit to 0, which an unprivileged grandchild
        // cannot raise again; the one case that wants a real core dump forks by itself.
        let oc = if mech == "chld_dump" { run_child_keep_core(body, Duration::from_secs(12)) } else { run_child(body, Duration::from_secs(12)) };
        // the child's last line has no newline: complete it with the outcome
        println!(" outcome={}", oc.text());
    }
    0
}

fn run_child_keep_core<F: FnOnce() -> i32>(f: F, timeout: Duration) -> Outcome {
    unsafe {
        let pid = libc::fork();
        assert!(pid >= 0, "fork failed");
        if pid == 0 {
            libc::setpgid(0, 0);
            let code = std::panic::catch_unwind(std::panic::AssertUnwindSafe(f)).unwrap_or(101);
            libc::_exit(code);
        }
        libc::setpgid(pid, pid);
        let start = Instant::now();
        loop {
            let mut status: libc::c_int = 0;
            if libc::waitpid(pid, &mut status, libc::WNOHANG) == pid {
                return if libc::WIFEXITED(status) { Outcome::Exited(libc::WEXITSTATUS(status)) } else { Outcome::Signaled(libc::WTERMSIG(status)) };
            }
            if start.elapsed() > timeout {
                libc::kill(pid, libc::SIGKILL);
                libc::waitpid(pid, &mut status, 0);
                return Outcome::Timeout;
            }
            std::thread::sleep(Duration::from_micros(300));
        }
    }
}

fn synth() -> i32 {
    let stdin = std::io::stdin();
    let mut out = String::new();
    for line in stdin.lock().lines() {
        let line = line.unwrap();
        let p: Vec<i64> = line.split_whitespace().filter_map(|x| x.parse().ok()).collect();
        if p.len() != 4 {
            continue;
        }
        let mut info = std::mem::MaybeUninit::<libc::siginfo_t>::zeroed();
        let o = unsafe {
            // everything that is neither si_signo, si_code, si_pid nor si_uid gets a pattern, so a
            // reader of the wrong member is noticed
            let words = info.as_mut_ptr() as *mut u32;
            for k in 0..32 {
                *words.add(k) = 0x5a5a_0000 + k as u32;
            }
            let r = &mut *(info.as_mut_ptr() as *mut RawInfo);
            r.si_signo = p[0] as i32;
            r.si_code = p[1] as i32;
            r.w0 = p[2] as i32;
            r.w1 = p[3] as u32;
            Origin::extract(&*info.as_ptr())
        };
        let t = origin_text(&o).replace(',', " ");
        out.push_str(&format!("synth {} {} {} {} -> {}\n", p[0], p[1], p[2], p[3], t));
    }
    print!("{}", out);
    0
}

fn main() {
    let args: Vec<String> = std::env::args().collect();
    let code = match args.get(1).map(|s| s.as_str()) {
        Some("real") => real(&args[2..]),
        Some("synth") => synth(),
        _ => {
            eprintln!("usage: p_c17 real <mech> <sig> ... | p_c17 synth < lines");
            2
        }
    };
    std::process::exit(code);
}
