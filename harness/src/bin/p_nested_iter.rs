//! A delivery landing at every instruction boundary of an iterator call (C09, C10; DESIGN 4.2).
//!
//! `p_nested_iter <exf o|r> <outer p|w|f> <pre> [konly]`
//!   exf   o = SignalOnly, r = WithRawSiginfo
//!   outer p = drain `pending()`, w = drain `wait()` (needs a pre delivery), f = `forever().next()`
//!           (one item; needs a pre delivery), c = `close()` of ANOTHER instance (watching SIGWINCH): a delivery for this
//!           instance while the library is busy with a different one, a = `add_signal(SIGUSR2)` with SIGUSR2 delivered at the boundary, d = `drop(instance)`
//!           h = the library's HANDLER itself, running for a delivery of SIGUSR1, single-stepped (an action registered
//!           before the instance turns the trap flag on inside the handler); SIGUSR2 is delivered - really nested - at every
//!           boundary;  H = the same with `close()` of ANOTHER instance (watching SIGWINCH) called at every boundary
//!           D = `drop(handle)` of the LAST Handle of an instance whose object is already gone (the handle keeps the
//!           registration alive), a delivery at every boundary: the iterator's action must not allocate or free heap memory
//!           inside the handler (C03) - counted by this binary's allocator between a first and a last action of the signal
//!           G = the handler single-stepped as in h, running for an instance whose object is gone and whose last Handle is
//!           dropped BY ANOTHER THREAD at the boundary (it gets as far as the removal, which waits for this delivery): again no
//!           heap traffic inside the handler (C03)
//!   pre   deliveries made before the outer call: a string over {s, t} (s = SIGUSR1, t = SIGUSR2)
//!
//! The outer call is single-stepped (x86 trap flag).  At EVERY trap the process forks: the child
//! delivers one more SIGUSR1 right there (sigqueue to itself: the real handler of the library
//! runs nested inside the interrupted call, as the kernel would run it), stops single-stepping,
//! lets the interrupted call finish, evaluates the property on what comes out and reports one
//! line; the parent goes on to the next instruction.  So every boundary costs one fork, not a
//! re-run.  No hook of the library is used.
//!
//!   K <k> OK|BAD <reason> | outer ... | rest ...      one line per boundary (written by the child)
//!   X <k> <wait status>                                the child died (SIGALRM = it blocked)
//!   E <boundaries>                                     end of the sweep
//!
//! What is checked (the sentences of C09 / C10): only watched numbers are yielded; SIGUSR2 is
//! yielded exactly as often as it was delivered; SIGUSR1: with records (r) exactly the delivered
//! records, each once, in delivery order, each field as sent (signo, code SI_QUEUE, pid, value);
//! without records (o) at least once and at most once per delivery; and if the outer call did
//! not report the new delivery, a following `wait()` does not block and it is reported then.
//! Finally a LATER delivery is made when everything has been consumed: `wait()` must wake up for
//! it and it must come out exactly once.
#![cfg(all(target_os = "linux", target_arch = "x86_64"))]
use std::arch::asm;
use std::fmt::Write as _;
use std::ptr;
use std::sync::atomic::{AtomicBool, AtomicUsize, Ordering};

use signal_hook::iterator::exfiltrator::raw::WithRawSiginfo;
use signal_hook::iterator::exfiltrator::{Exfiltrator, SignalOnly};
use signal_hook::iterator::SignalsInfo;

const S: i32 = libc::SIGUSR1;
const T: i32 = libc::SIGUSR2;
const TF: i64 = 0x100;
const SI_QUEUE: i32 = -1;
extern "C" {
    fn sigqueue(pid: libc::pid_t, sig: libc::c_int, value: libc::sigval) -> libc::c_int;
}

static STEP: AtomicUsize = AtomicUsize::new(0);
static KONLY: AtomicUsize = AtomicUsize::new(0);
static ARMED: AtomicBool = AtomicBool::new(false);
static IS_CHILD: AtomicBool = AtomicBool::new(false);
static INNER_SEQ: AtomicUsize = AtomicUsize::new(0);
static INNER_SIG: AtomicUsize = AtomicUsize::new(libc::SIGUSR1 as usize);
// did the delivery made in the child write a wake-up byte into this instance's self-pipe?
static INNER_WOKE: AtomicBool = AtomicBool::new(false);
// outer h / H: the trap flag is switched on by an action inside the handler; H: the event is a close() of OTHER
static TRAP_IN_HANDLER: AtomicBool = AtomicBool::new(false);
static INNER_CLOSE: AtomicBool = AtomicBool::new(false);
static INNER_DROP_HANDLE: AtomicBool = AtomicBool::new(false);
static mut OTHER: Option<signal_hook::iterator::Handle> = None;
// outer D: heap traffic while the library's handler runs the actions between the first and the last action of the signal
static IN_HANDLER: AtomicBool = AtomicBool::new(false);
static HEAP_ALLOCS: AtomicUsize = AtomicUsize::new(0);
static HEAP_FREES: AtomicUsize = AtomicUsize::new(0);

// (only the thread that runs the handler counts: in a forked child that is the thread whose id is the process id)
fn on_handler_thread() -> bool {
    unsafe { libc::syscall(libc::SYS_gettid) == libc::getpid() as libc::c_long }
}
static HANDLER_CLOSES: AtomicUsize = AtomicUsize::new(0);
/// every close() of the statically linked crates goes through here: descriptors released inside the handler are counted
#[no_mangle]
pub unsafe extern "C" fn close(fd: libc::c_int) -> libc::c_int {
    if IN_HANDLER.load(Ordering::Relaxed) && on_handler_thread() {
        HANDLER_CLOSES.fetch_add(1, Ordering::Relaxed);
    }
    libc::syscall(libc::SYS_close, fd) as libc::c_int
}
struct CountInHandler;
unsafe impl std::alloc::GlobalAlloc for CountInHandler {
    unsafe fn alloc(&self, l: std::alloc::Layout) -> *mut u8 {
        if IN_HANDLER.load(Ordering::Relaxed) && on_handler_thread() {
            HEAP_ALLOCS.fetch_add(1, Ordering::Relaxed);
        }
        std::alloc::System.alloc(l)
    }
    unsafe fn dealloc(&self, p: *mut u8, l: std::alloc::Layout) {
        if IN_HANDLER.load(Ordering::Relaxed) && on_handler_thread() {
            HEAP_FREES.fetch_add(1, Ordering::Relaxed);
        }
        std::alloc::System.dealloc(p, l)
    }
}
#[global_allocator]
static ALLOC: CountInHandler = CountInHandler;
static mut OTHER_INST: Option<signal_hook::iterator::Signals> = None;
// the consumer thread blocked in wait() on the other instance: 0 not started, 1 running, 2 returned (+ what it yielded)
static OTHER_STATE: AtomicUsize = AtomicUsize::new(0);
static OTHER_YIELDED: AtomicUsize = AtomicUsize::new(0);

/// H: a consumer of the OTHER instance goes to sleep in wait() on a thread of its own, then close() is called for it here
fn close_other_with_blocked_consumer() {
    unsafe {
        if let Some(mut inst) = (*std::ptr::addr_of_mut!(OTHER_INST)).take() {
            OTHER_STATE.store(1, Ordering::SeqCst);
            std::thread::spawn(move || {
                let n = inst.wait().count();
                OTHER_YIELDED.store(n, Ordering::SeqCst);
                OTHER_STATE.store(2, Ordering::SeqCst);
                std::mem::forget(inst);
            });
            // let it reach the blocking read (if it has not, it sees the flag instead: a missed case, never a wrong one)
            std::thread::sleep(std::time::Duration::from_millis(20));
        }
        if let Some(h) = (*std::ptr::addr_of!(OTHER)).as_ref() {
            h.close();
        }
    }
}
static CHILD_K: AtomicUsize = AtomicUsize::new(0);
// children that died (blocked or crashed): after 12 of them the rest of the sweep is skipped - the
// point is made and every blocked child costs its alarm
static DEAD: AtomicUsize = AtomicUsize::new(0);
// the self-pipe of the instance (found by comparing the descriptor table around its creation): a
// forked child shares the socket with the parent, so the parent restores its content afterwards
static READ_FD: AtomicUsize = AtomicUsize::new(0);
static WRITE_FD: AtomicUsize = AtomicUsize::new(0);

fn open_fds() -> Vec<i32> {
    (0..256).filter(|fd| unsafe { libc::fcntl(*fd, libc::F_GETFD) } != -1).collect()
}

fn pipe_bytes() -> i32 {
    let mut n: libc::c_int = 0;
    unsafe { libc::ioctl(READ_FD.load(Ordering::Relaxed) as i32, libc::FIONREAD, &mut n) };
    n
}

fn pipe_restore(n: i32) {
    let (r, w) = (READ_FD.load(Ordering::Relaxed) as i32, WRITE_FD.load(Ordering::Relaxed) as i32);
    let mut buf = [0u8; 64];
    while unsafe { libc::recv(r, buf.as_mut_ptr() as *mut libc::c_void, buf.len(), libc::MSG_DONTWAIT) } > 0 {}
    for _ in 0..n {
        unsafe { libc::send(w, b"X".as_ptr() as *const libc::c_void, 1, libc::MSG_DONTWAIT | libc::MSG_NOSIGNAL) };
    }
}

fn out(s: &str) {
    unsafe { libc::write(1, s.as_ptr() as *const libc::c_void, s.len()) };
}

fn queue(sig: i32, seq: usize) {
    let v = libc::sigval { sival_ptr: seq as *mut libc::c_void };
    unsafe { sigqueue(libc::getpid(), sig, v) };
}

extern "C" fn on_trap(_sig: libc::c_int, _info: *mut libc::siginfo_t, ctx: *mut libc::c_void) {
    if !ARMED.load(Ordering::Relaxed) {
        return;
    }
    let step = STEP.fetch_add(1, Ordering::Relaxed) + 1;
    let konly = KONLY.load(Ordering::Relaxed);
    if konly != 0 && step != konly {
        return;
    }
    let before = pipe_bytes();
    let pid = unsafe { libc::fork() };
    if pid == 0 {
        IS_CHILD.store(true, Ordering::Relaxed);
        CHILD_K.store(step, Ordering::Relaxed);
        ARMED.store(false, Ordering::Relaxed);
        unsafe { libc::alarm(3) };
        if INNER_DROP_HANDLE.load(Ordering::Relaxed) {
            // another thread drops the last handle now; it proceeds until the removal has to wait for this delivery
            unsafe {
                if let Some(h) = (*std::ptr::addr_of_mut!(OTHER)).take() {
                    let was = IN_HANDLER.swap(false, Ordering::Relaxed);
                    std::thread::spawn(move || drop(h));
                    std::thread::sleep(std::time::Duration::from_millis(20));
                    IN_HANDLER.store(was, Ordering::Relaxed);
                }
            }
        } else if INNER_CLOSE.load(Ordering::Relaxed) {
            close_other_with_blocked_consumer();
        } else {
            queue(INNER_SIG.load(Ordering::Relaxed) as i32, INNER_SEQ.load(Ordering::Relaxed));
        }
        INNER_WOKE.store(pipe_bytes() > before, Ordering::Relaxed);
        let uc = ctx as *mut libc::ucontext_t;
        unsafe { (*uc).uc_mcontext.gregs[libc::REG_EFL as usize] &= !TF };
    } else if pid > 0 {
        let mut st = 0;
        unsafe { libc::waitpid(pid, &mut st, 0) };
        pipe_restore(before);
        if !(libc::WIFEXITED(st) && libc::WEXITSTATUS(st) == 0) {
            let why = if libc::WIFSIGNALED(st) { format!("signal {}", libc::WTERMSIG(st)) } else { format!("exit {}", libc::WEXITSTATUS(st)) };
            out(&format!("X {} {}\n", step, why));
            if DEAD.fetch_add(1, Ordering::Relaxed) + 1 >= 12 {
                ARMED.store(false, Ordering::Relaxed);
                let uc = ctx as *mut libc::ucontext_t;
                unsafe { (*uc).uc_mcontext.gregs[libc::REG_EFL as usize] &= !TF };
            }
        }
    }
}

#[inline(always)]
unsafe fn trap_flag_on() {
    asm!("pushfq", "or qword ptr [rsp], 0x100", "popfq");
}
#[inline(always)]
unsafe fn trap_flag_off() {
    asm!("pushfq", "and qword ptr [rsp], -257", "popfq");
}

/// What a yielded item says: (signal, Some((code, pid, value))) for records.
trait Item {
    fn describe(&self) -> (i32, Option<(i32, i32, usize)>);
}
impl Item for libc::c_int {
    fn describe(&self) -> (i32, Option<(i32, i32, usize)>) {
        (*self, None)
    }
}
impl Item for libc::siginfo_t {
    fn describe(&self) -> (i32, Option<(i32, i32, usize)>) {
        let (pid, val) = unsafe { (self.si_pid(), self.si_value().sival_ptr as usize) };
        (self.si_signo, Some((self.si_code, pid, val)))
    }
}

type Got = Vec<(i32, Option<(i32, i32, usize)>)>;

fn show(g: &Got) -> String {
    let mut s = String::new();
    for (sig, r) in g {
        match r {
            Some((c, p, v)) => { let _ = write!(s, " {}:{}:{}:{}", sig, c, p, v); }
            None => { let _ = write!(s, " {}", sig); }
        }
    }
    s
}

fn sweep<E>(exf: E, outer: &str, pre: &str, raw: bool)
where
    E: Exfiltrator,
    E::Output: Item,
{
    // outer c: another, unrelated instance whose handle is closed while the delivery for THIS instance arrives
    let other = if outer == "c" { Some(signal_hook::iterator::Signals::new(&[libc::SIGWINCH]).unwrap()) } else { None };
    let fds0 = open_fds();
    let mut signals = SignalsInfo::with_exfiltrator(&[S, T], exf).unwrap();
    let new: Vec<i32> = open_fds().into_iter().filter(|fd| !fds0.contains(fd)).collect();
    assert_eq!(new.len(), 2, "the instance opened {:?}", new);
    READ_FD.store(new[0] as usize, Ordering::Relaxed);
    WRITE_FD.store(new[1] as usize, Ordering::Relaxed);
    let parent_pid = unsafe { libc::getpid() };
    // the deliveries before the call; sequence numbers 1, 2, ...
    let mut sent: Vec<(i32, usize)> = Vec::new();
    for (i, c) in pre.chars().enumerate() {
        let sig = if c == 's' { S } else { T };
        queue(sig, i + 1);
        sent.push((sig, i + 1));
    }
    let inner_seq = pre.len() + 1;
    INNER_SEQ.store(inner_seq, Ordering::Relaxed);
    let mut got_outer: Got = Vec::new();
    let pre_s = sent.iter().filter(|(sig, _)| *sig == S).count();
    let pre_t = sent.iter().filter(|(sig, _)| *sig == T).count();
    // a burst longer than the 5-record buffer: what does not fit is discarded (C06), so with 5 or
    // more records outstanding the new delivery need not produce one
    let optional_new = raw && pre_s >= 5;
    // has the consumer been handed everything that was delivered?
    let complete = |g: &Got| {
        let gs = g.iter().filter(|(sig, _)| *sig == S).count();
        let gt = g.iter().filter(|(sig, _)| *sig == T).count();
        if raw {
            gs >= pre_s.min(5) + if optional_new { 0 } else { 1 } && gt >= pre_t.min(5)
        } else {
            gs >= 1 && gt >= pre_t.min(1)
        }
    };
    STEP.store(0, Ordering::Relaxed);
    ARMED.store(true, Ordering::Relaxed);
    let after_call = || {
        unsafe { trap_flag_off() };
        ARMED.store(false, Ordering::Relaxed);
        if !IS_CHILD.load(Ordering::Relaxed) {
            // the boundary after the last instruction: the delivery arrives when the call has returned
            queue(S, inner_seq);
            unsafe { libc::alarm(3) };
        }
    };
    match outer {
        "p" => {
            unsafe { trap_flag_on() };
            for x in signals.pending() {
                got_outer.push(x.describe());
            }
            after_call();
        }
        "w" => {
            unsafe { trap_flag_on() };
            for x in signals.wait() {
                got_outer.push(x.describe());
            }
            after_call();
        }
        "c" => {
            let h = other.as_ref().unwrap().handle();
            unsafe { trap_flag_on() };
            h.close();
            after_call();
        }
        _ => {
            // the first next() is single-stepped; the consumer then keeps calling next() - it drains
            // what it is handed - until everything delivered has been reported
            let mut it = signals.forever();
            unsafe { trap_flag_on() };
            let first = it.next();
            after_call();
            if let Some(x) = first {
                got_outer.push(x.describe());
            }
            while !complete(&got_outer) {
                match it.next() {
                    Some(x) => got_outer.push(x.describe()),
                    None => break,
                }
            }
        }
    }
    let child = IS_CHILD.load(Ordering::Relaxed);
    let k = if child { CHILD_K.load(Ordering::Relaxed) } else { STEP.load(Ordering::Relaxed) + 1 };
    let me = unsafe { libc::getpid() };
    // is the new delivery reported already?
    let new_reported = |g: &Got| {
        if raw {
            g.iter().any(|(sig, r)| *sig == S && r.map(|x| x.2) == Some(inner_seq))
        } else {
            let pre_s = sent.iter().filter(|(sig, _)| *sig == S).count();
            g.iter().filter(|(sig, _)| *sig == S).count() > pre_s
        }
    };
    let mut rest: Got = Vec::new();
    let mut waited = false;
    let must_wait = if optional_new || outer == "f" { false } else if raw { !new_reported(&got_outer) } else { got_outer.iter().filter(|(sig, _)| *sig == S).count() == 0 && pre_s == 0 };
    if must_wait {
        // the consumer goes to sleep: the wake-up of the new delivery must be there
        waited = true;
        for x in signals.wait() {
            rest.push(x.describe());
        }
    }
    if optional_new {
        // burst configurations: make room before the later delivery
        for x in signals.pending() {
            rest.push(x.describe());
        }
    }
    // with records: by now the consumer has been through a complete scan that began after the delivery (the call itself,
    // or the wait() it went on to) - the record must have come out; one that only appears together with a LATER delivery
    // was sitting there unreported while the consumer slept
    let stuck = raw && !optional_new && {
        let mut sofar = got_outer.clone();
        sofar.extend(rest.iter().cloned());
        !new_reported(&sofar)
    };
    // a LATER delivery, straight after the call (no scan in between): the consumer goes to sleep in
    // wait() and must be woken by it and be handed it
    let later_seq = inner_seq + 1;
    queue(S, later_seq);
    let mut later: Got = Vec::new();
    for x in signals.wait() {
        later.push(x.describe());
    }
    for x in signals.pending() {
        later.push(x.describe());
    }
    let mut all = got_outer.clone();
    all.extend(rest.iter().cloned());
    all.extend(later.iter().cloned());
    // every complaint starts with its kind: LOST (C09), EXTRA / UNWATCHED / FIELD / ORDER (C10)
    let mut bad: Vec<String> = Vec::new();
    if stuck {
        bad.push(format!("LOST the record of the delivery (value {}) had not come out after the call and the wait() that followed it; the consumer would sleep on it", inner_seq));
    }
    for (sig, _) in &all {
        if *sig != S && *sig != T {
            bad.push(format!("UNWATCHED yielded {} which is not watched", sig));
        }
    }
    let got_t = all.iter().filter(|(sig, _)| *sig == T).count();
    let got_s = all.iter().filter(|(sig, _)| *sig == S).count();
    let compare = |name: &str, have: &Vec<usize>, want: &Vec<usize>, optional: Option<usize>, bad: &mut Vec<String>| {
        let missing: Vec<usize> = want.iter().cloned().filter(|q| !have.contains(q) && Some(*q) != optional).collect();
        let mut extra: Vec<usize> = Vec::new();
        for (i, q) in have.iter().enumerate() {
            if !want.contains(q) || have[..i].contains(q) {
                extra.push(*q);
            }
        }
        if !missing.is_empty() {
            bad.push(format!("LOST records of {} with values {:?} never came out (delivered {:?}, yielded {:?})", name, missing, want, have));
        }
        if !extra.is_empty() {
            bad.push(format!("EXTRA records of {} with values {:?} were not delivered or came out twice (delivered {:?}, yielded {:?})", name, extra, want, have));
        }
        if missing.is_empty() && extra.is_empty() {
            let mut sorted = have.clone();
            sorted.sort();
            if sorted != *have {
                bad.push(format!("ORDER records of {} came out as {:?}, delivered in the order {:?}", name, have, want));
            }
        }
    };
    if raw {
        let kept: Vec<usize> = sent.iter().filter(|(sig, _)| *sig == S).map(|(_, q)| *q).take(5).collect();
        let want_s: Vec<usize> = kept.iter().cloned().chain(std::iter::once(inner_seq)).chain(std::iter::once(later_seq)).collect();
        let have_s: Vec<usize> = all.iter().filter(|(sig, _)| *sig == S).map(|(_, r)| r.unwrap().2).collect();
        compare("SIGUSR1", &have_s, &want_s, if optional_new { Some(inner_seq) } else { None }, &mut bad);
        let want_t: Vec<usize> = sent.iter().filter(|(sig, _)| *sig == T).map(|(_, q)| *q).take(5).collect();
        let have_t: Vec<usize> = all.iter().filter(|(sig, _)| *sig == T).map(|(_, r)| r.unwrap().2).collect();
        compare("SIGUSR2", &have_t, &want_t, None, &mut bad);
        for (sig, r) in &all {
            let (code, pid, val) = r.unwrap();
            let want_pid = if val >= inner_seq && *sig == S { me } else { parent_pid };
            if code != SI_QUEUE || pid != want_pid {
                bad.push(format!("FIELD record {}:{} has code {} pid {} (sent: code {} pid {})", sig, val, code, pid, SI_QUEUE, want_pid));
            }
        }
    } else {
        if got_t < pre_t.min(1) {
            bad.push(format!("LOST SIGUSR2 yielded {} times, delivered {} time(s)", got_t, pre_t));
        }
        if got_t > pre_t {
            bad.push(format!("EXTRA SIGUSR2 yielded {} times, delivered {} time(s)", got_t, pre_t));
        }
        if got_s < 1 {
            bad.push(format!("LOST SIGUSR1 yielded {} times for {} deliveries", got_s, pre_s + 1));
        }
        if got_s > pre_s + 2 {
            bad.push(format!("EXTRA SIGUSR1 yielded {} times for {} deliveries", got_s, pre_s + 2));
        }
        if !later.iter().any(|(sig, _)| *sig == S) {
            bad.push("LOST the later delivery of SIGUSR1 (after the call) was not reported by the wait() that followed it".to_string());
        }
    }
    let line = format!("K {} {} | outer{} | {}rest{} | later{}\n", k, if bad.is_empty() { "OK".to_string() } else { format!("BAD {}", bad.join("; ")) },
                       show(&got_outer), if waited { "waited " } else { "" }, show(&rest), show(&later));
    out(&line);
    if child {
        unsafe { libc::_exit(0) };
    }
    out(&format!("E {}\n", STEP.load(Ordering::Relaxed)));
}

/// The handler itself single-stepped (outer h / H).  One delivery of SIGUSR1 (sequence 1); at every boundary inside the
/// handler - from the first registered action, which switches the trap flag on, to the return into the kernel - the
/// child delivers SIGUSR2 (sequence 2; h) or closes another instance (H).  Then: wait() must not block, SIGUSR1 and (h)
/// SIGUSR2 come out exactly once each with the records as sent; (H) the other instance is closed, its wait() returns
/// at once and yields nothing; a later delivery of SIGUSR1 wakes wait() and comes out once.
fn sweep_handler<E>(exf: E, raw: bool, close: bool)
where
    E: Exfiltrator,
    E::Output: Item,
{
    let _first = unsafe {
        signal_hook_registry::register(S, || {
            if ARMED.load(Ordering::Relaxed) && TRAP_IN_HANDLER.load(Ordering::Relaxed) && !IS_CHILD.load(Ordering::Relaxed) {
                trap_flag_on();
            }
        })
    }
    .unwrap();
    let other = signal_hook::iterator::Signals::new(&[libc::SIGWINCH]).unwrap();
    let other_handle = other.handle();
    unsafe {
        *std::ptr::addr_of_mut!(OTHER) = Some(other.handle());
        *std::ptr::addr_of_mut!(OTHER_INST) = Some(other);
    }
    let fds0 = open_fds();
    let mut signals = SignalsInfo::with_exfiltrator(&[S, T], exf).unwrap();
    let new: Vec<i32> = open_fds().into_iter().filter(|fd| !fds0.contains(fd)).collect();
    assert_eq!(new.len(), 2, "the instance opened {:?}", new);
    READ_FD.store(new[0] as usize, Ordering::Relaxed);
    WRITE_FD.store(new[1] as usize, Ordering::Relaxed);
    INNER_SIG.store(T as usize, Ordering::Relaxed);
    INNER_SEQ.store(2, Ordering::Relaxed);
    INNER_CLOSE.store(close, Ordering::Relaxed);
    STEP.store(0, Ordering::Relaxed);
    let parent_pid = unsafe { libc::getpid() };
    TRAP_IN_HANDLER.store(true, Ordering::Relaxed);
    ARMED.store(true, Ordering::Relaxed);
    queue(S, 1);
    // (the trap flag is gone with the return from the handler: the interrupted context never had it)
    ARMED.store(false, Ordering::Relaxed);
    TRAP_IN_HANDLER.store(false, Ordering::Relaxed);
    let child = IS_CHILD.load(Ordering::Relaxed);
    let k = if child { CHILD_K.load(Ordering::Relaxed) } else { STEP.load(Ordering::Relaxed) + 1 };
    if !child {
        // the boundary after the handler has returned
        unsafe { libc::alarm(3) };
        if close {
            close_other_with_blocked_consumer();
        } else {
            queue(T, 2);
        }
    }
    let mut bad: Vec<String> = Vec::new();
    let mut got: Got = Vec::new();
    for x in signals.wait() {
        got.push(x.describe());
    }
    for x in signals.pending() {
        got.push(x.describe());
    }
    let count = |g: &Got, sig: i32, seq: usize| g.iter().filter(|e| e.0 == sig && (!raw || e.1.map(|x| x.2) == Some(seq))).count();
    if count(&got, S, 1) == 0 {
        bad.push("LOST the delivery of SIGUSR1 whose handler was interrupted was not reported".to_string());
    }
    if !close && count(&got, T, 2) == 0 {
        bad.push("LOST the delivery of SIGUSR2 that arrived inside the handler was not reported".to_string());
    }
    let expect = if close { 1 } else { 2 };
    if got.len() != expect || got.iter().any(|e| e.0 != S && e.0 != T) || (close && got.iter().any(|e| e.0 == T)) {
        bad.push(format!("EXTRA {} deliveries, the iterator yielded{}", expect, show(&got)));
    }
    if raw {
        for e in &got {
            if let Some((code, pid, seq)) = e.1 {
                // (the first delivery was sent before the fork, by the parent process)
                let sender = if seq == 1 { parent_pid } else { unsafe { libc::getpid() } };
                if code != SI_QUEUE || pid != sender {
                    bad.push(format!("FIELD record {} says code {} pid {} (sent: SI_QUEUE by process {})", seq, code, pid, sender));
                }
            }
        }
    }
    if close {
        // the consumer that was asleep in wait() on the other instance when close() was called must come back
        let t0 = std::time::Instant::now();
        while OTHER_STATE.load(Ordering::SeqCst) != 2 && t0.elapsed() < std::time::Duration::from_millis(1500) {
            std::thread::sleep(std::time::Duration::from_millis(2));
        }
        if OTHER_STATE.load(Ordering::SeqCst) != 2 {
            bad.push("STRANDED a consumer asleep in wait() on the other instance was not woken by close() (1.5 s)".to_string());
        } else if OTHER_YIELDED.load(Ordering::SeqCst) != 0 {
            bad.push(format!("EXTRA the closed instance yielded {} signals nobody delivered", OTHER_YIELDED.load(Ordering::SeqCst)));
        }
        if !other_handle.is_closed() {
            bad.push("STICKY the other instance does not say closed after close() returned".to_string());
        }
    }
    queue(S, 3);
    let mut later: Got = Vec::new();
    for x in signals.wait() {
        later.push(x.describe());
    }
    for x in signals.pending() {
        later.push(x.describe());
    }
    if count(&later, S, 3) == 0 {
        bad.push("LOST a later delivery of SIGUSR1 was not reported".to_string());
    }
    if later.len() != 1 {
        bad.push(format!("EXTRA after one later delivery the iterator yielded{}", show(&later)));
    }
    out(&format!("K {} {} | got{} | later{}\n", k, if bad.is_empty() { "OK".to_string() } else { format!("BAD {}", bad.join("; ")) }, show(&got), show(&later)));
    if child {
        unsafe { libc::_exit(0) };
    }
    out(&format!("E {}\n", STEP.load(Ordering::Relaxed)));
}

/// `add_signal(SIGUSR2)` single-stepped on an instance that watches SIGUSR1; SIGUSR2 already has the library's
/// handler (a flag is registered for it), so a delivery of it is harmless at any instant.  The child delivers
/// SIGUSR2 at the boundary: from the instant this instance's action runs for it (it writes the wake-up byte) the
/// delivery must come out; a delivery after add_signal returned must come out exactly once.
fn sweep_add<E>(exf: E, raw: bool)
where
    E: Exfiltrator,
    E::Output: Item,
{
    let flag = std::sync::Arc::new(std::sync::atomic::AtomicBool::new(false));
    signal_hook::flag::register(T, flag.clone()).unwrap();
    let fds0 = open_fds();
    let mut signals = SignalsInfo::with_exfiltrator(&[S], exf).unwrap();
    let new: Vec<i32> = open_fds().into_iter().filter(|fd| !fds0.contains(fd)).collect();
    assert_eq!(new.len(), 2, "the instance opened {:?}", new);
    READ_FD.store(new[0] as usize, Ordering::Relaxed);
    WRITE_FD.store(new[1] as usize, Ordering::Relaxed);
    INNER_SIG.store(T as usize, Ordering::Relaxed);
    INNER_SEQ.store(1, Ordering::Relaxed);
    STEP.store(0, Ordering::Relaxed);
    ARMED.store(true, Ordering::Relaxed);
    unsafe { trap_flag_on() };
    let r = signals.add_signal(T);
    unsafe { trap_flag_off() };
    ARMED.store(false, Ordering::Relaxed);
    let child = IS_CHILD.load(Ordering::Relaxed);
    let k = if child { CHILD_K.load(Ordering::Relaxed) } else { STEP.load(Ordering::Relaxed) + 1 };
    let woke = if child {
        INNER_WOKE.load(Ordering::Relaxed)
    } else {
        unsafe { libc::alarm(3) };
        let before = pipe_bytes();
        queue(T, 1);
        pipe_bytes() > before
    };
    let mut bad: Vec<String> = Vec::new();
    if r.is_err() {
        bad.push("RESULT add_signal returned an error".to_string());
    }
    let mut got: Got = Vec::new();
    if woke {
        for x in signals.wait() {
            got.push(x.describe());
        }
    }
    for x in signals.pending() {
        got.push(x.describe());
    }
    let is_inner = |e: &(i32, Option<(i32, i32, usize)>)| e.0 == T && (!raw || e.1.map(|x| x.2) == Some(1));
    let n_inner = got.iter().filter(|e| is_inner(e)).count();
    if woke && n_inner == 0 {
        bad.push("LOST the delivery of SIGUSR2 ran this instance's action (its wake-up byte was written) but was not reported".to_string());
    }
    if !woke && n_inner > 0 {
        bad.push("LOST the delivery of SIGUSR2 was stored for this instance but no wake-up byte was written for it".to_string());
    }
    if n_inner > 1 || got.iter().any(|e| e.0 != T) {
        bad.push(format!("EXTRA after one delivery of SIGUSR2 the iterator yielded{}", show(&got)));
    }
    // a delivery after add_signal has returned
    queue(T, 2);
    let mut later: Got = Vec::new();
    for x in signals.wait() {
        later.push(x.describe());
    }
    for x in signals.pending() {
        later.push(x.describe());
    }
    let n_later = later.iter().filter(|e| e.0 == T && (!raw || e.1.map(|x| x.2) == Some(2))).count();
    if n_later == 0 {
        bad.push("LOST a delivery of SIGUSR2 after add_signal returned was not reported".to_string());
    }
    if n_later > 1 || later.iter().any(|e| e.0 != T) || (raw && later.len() != n_later) {
        bad.push(format!("EXTRA after a later delivery of SIGUSR2 the iterator yielded{}", show(&later)));
    }
    let line = format!("K {} {} | woke {} got{} | later{}\n", k, if bad.is_empty() { "OK".to_string() } else { format!("BAD {}", bad.join("; ")) },
                       woke as i32, show(&got), show(&later));
    out(&line);
    if child {
        unsafe { libc::_exit(0) };
    }
    out(&format!("E {}\n", STEP.load(Ordering::Relaxed)));
}

/// The handler single-stepped while another thread drops the last Handle of the instance it runs for (outer G).
fn sweep_handler_drop<E>(exf: E)
where
    E: Exfiltrator,
    E::Output: Item,
{
    let _a1 = unsafe {
        signal_hook_registry::register(S, || {
            IN_HANDLER.store(true, Ordering::Relaxed);
            if ARMED.load(Ordering::Relaxed) && TRAP_IN_HANDLER.load(Ordering::Relaxed) && !IS_CHILD.load(Ordering::Relaxed) {
                trap_flag_on();
            }
        })
    }
    .unwrap();
    let signals = SignalsInfo::with_exfiltrator(&[S], exf).unwrap();
    let _a2 = unsafe { signal_hook_registry::register(S, || IN_HANDLER.store(false, Ordering::Relaxed)) }.unwrap();
    unsafe { *std::ptr::addr_of_mut!(OTHER) = Some(signals.handle()) };
    drop(signals);
    READ_FD.store(usize::MAX, Ordering::Relaxed);
    WRITE_FD.store(usize::MAX, Ordering::Relaxed);
    INNER_DROP_HANDLE.store(true, Ordering::Relaxed);
    STEP.store(0, Ordering::Relaxed);
    TRAP_IN_HANDLER.store(true, Ordering::Relaxed);
    ARMED.store(true, Ordering::Relaxed);
    queue(S, 1);
    ARMED.store(false, Ordering::Relaxed);
    TRAP_IN_HANDLER.store(false, Ordering::Relaxed);
    let child = IS_CHILD.load(Ordering::Relaxed);
    let k = if child { CHILD_K.load(Ordering::Relaxed) } else { STEP.load(Ordering::Relaxed) + 1 };
    let (a, f) = (HEAP_ALLOCS.load(Ordering::Relaxed), HEAP_FREES.load(Ordering::Relaxed));
    let mut bad: Vec<String> = Vec::new();
    if a + f != 0 {
        bad.push(format!("ALLOC the delivery during which another thread dropped the last handle made {} allocation(s) and {} release(s) of heap memory inside the handler", a, f));
    }
    let c = HANDLER_CLOSES.load(Ordering::Relaxed);
    if c != 0 {
        bad.push(format!("RELEASE the delivery during which another thread dropped the last handle closed {} descriptor(s) inside the handler (what the action captured is for the removing thread to release)", c));
    }
    out(&format!("K {} {} | allocs {} frees {} closes {}\n", k, if bad.is_empty() { "OK".to_string() } else { format!("BAD {}", bad.join("; ")) }, a, f, c));
    if child {
        // give the dropping thread the time to finish the removal
        std::thread::sleep(std::time::Duration::from_millis(5));
        unsafe { libc::_exit(0) };
    }
    out(&format!("E {}\n", STEP.load(Ordering::Relaxed)));
}

/// `drop(handle)` of the last Handle single-stepped, the object of the instance dropped before (outer D).
fn sweep_drop_handle<E>(exf: E)
where
    E: Exfiltrator,
    E::Output: Item,
{
    let _a1 = unsafe { signal_hook_registry::register(S, || IN_HANDLER.store(true, Ordering::Relaxed)) }.unwrap();
    let signals = SignalsInfo::with_exfiltrator(&[S], exf).unwrap();
    let _a2 = unsafe { signal_hook_registry::register(S, || IN_HANDLER.store(false, Ordering::Relaxed)) }.unwrap();
    let handle = signals.handle();
    drop(signals);
    READ_FD.store(usize::MAX, Ordering::Relaxed);
    WRITE_FD.store(usize::MAX, Ordering::Relaxed);
    // the registration is still there: a delivery runs the action, without touching the heap
    queue(S, 7);
    let mut bad: Vec<String> = Vec::new();
    if HEAP_ALLOCS.load(Ordering::Relaxed) + HEAP_FREES.load(Ordering::Relaxed) != 0 {
        bad.push(format!("ALLOC a delivery before the drop: {} allocation(s), {} release(s) inside the handler", HEAP_ALLOCS.load(Ordering::Relaxed), HEAP_FREES.load(Ordering::Relaxed)));
    }
    INNER_SEQ.store(1, Ordering::Relaxed);
    STEP.store(0, Ordering::Relaxed);
    ARMED.store(true, Ordering::Relaxed);
    unsafe { trap_flag_on() };
    drop(handle);
    unsafe { trap_flag_off() };
    ARMED.store(false, Ordering::Relaxed);
    let child = IS_CHILD.load(Ordering::Relaxed);
    let k = if child { CHILD_K.load(Ordering::Relaxed) } else { STEP.load(Ordering::Relaxed) + 1 };
    if !child {
        unsafe { libc::alarm(3) };
        queue(S, 1);
    }
    let (a, f) = (HEAP_ALLOCS.load(Ordering::Relaxed), HEAP_FREES.load(Ordering::Relaxed));
    if a + f != 0 && bad.is_empty() {
        bad.push(format!("ALLOC the delivery that overlapped the drop of the last handle made {} allocation(s) and {} release(s) of heap memory inside the handler", a, f));
    }
    out(&format!("K {} {} | allocs {} frees {}\n", k, if bad.is_empty() { "OK".to_string() } else { format!("BAD {}", bad.join("; ")) }, a, f));
    if child {
        unsafe { libc::_exit(0) };
    }
    out(&format!("E {}\n", STEP.load(Ordering::Relaxed)));
}

/// `drop(instance)` single-stepped (C12: once the instance and all its handles are gone every registration is
/// removed and its pipe closed), SIGUSR1 - which keeps the library's handler through a flag - delivered at the
/// boundary.  Afterwards a delivery must not reach the dropped instance (no byte on a duplicate of its read end)
/// and both descriptors of the instance must be closed.
fn sweep_drop<E>(exf: E)
where
    E: Exfiltrator,
    E::Output: Item,
{
    let flag = std::sync::Arc::new(std::sync::atomic::AtomicBool::new(false));
    signal_hook::flag::register(S, flag.clone()).unwrap();
    let fds0 = open_fds();
    let signals = SignalsInfo::with_exfiltrator(&[S], exf).unwrap();
    let new: Vec<i32> = open_fds().into_iter().filter(|fd| !fds0.contains(fd)).collect();
    assert_eq!(new.len(), 2, "the instance opened {:?}", new);
    let dup_r = unsafe { libc::dup(new[0]) };
    READ_FD.store(dup_r as usize, Ordering::Relaxed);
    WRITE_FD.store(new[1] as usize, Ordering::Relaxed);
    INNER_SEQ.store(1, Ordering::Relaxed);
    STEP.store(0, Ordering::Relaxed);
    ARMED.store(true, Ordering::Relaxed);
    unsafe { trap_flag_on() };
    drop(signals);
    unsafe { trap_flag_off() };
    ARMED.store(false, Ordering::Relaxed);
    let child = IS_CHILD.load(Ordering::Relaxed);
    let k = if child { CHILD_K.load(Ordering::Relaxed) } else { STEP.load(Ordering::Relaxed) + 1 };
    let mut bad: Vec<String> = Vec::new();
    // whatever the delivery at the boundary left in the pipe is taken out first
    let mut buf = [0u8; 64];
    while unsafe { libc::recv(dup_r, buf.as_mut_ptr() as *mut libc::c_void, buf.len(), libc::MSG_DONTWAIT) } > 0 {}
    unsafe { libc::alarm(3) };
    queue(S, 2);
    let n = unsafe { libc::recv(dup_r, buf.as_mut_ptr() as *mut libc::c_void, buf.len(), libc::MSG_DONTWAIT) };
    let e = std::io::Error::last_os_error().raw_os_error().unwrap_or(0);
    if n > 0 {
        bad.push(format!("SURVIVED a delivery after the instance was dropped still wrote {} wake-up byte(s) into its pipe", n));
    }
    // (end of file on the duplicate cannot be expected here: the stopped parent process still holds the socket open;
    // what must hold in this process is that both descriptors of the instance are closed)
    let left: Vec<i32> = open_fds().into_iter().filter(|fd| !fds0.contains(fd) && *fd != dup_r).collect();
    if !left.is_empty() {
        bad.push(format!("OPEN descriptors {:?} of the instance are still open", left));
    }
    out(&format!("K {} {} | recv after drop {} errno {}\n", k, if bad.is_empty() { "OK".to_string() } else { format!("BAD {}", bad.join("; ")) }, n, if n < 0 { e } else { 0 }));
    if child {
        unsafe { libc::_exit(0) };
    }
    out(&format!("E {}\n", STEP.load(Ordering::Relaxed)));
}

fn main() {
    let a: Vec<String> = std::env::args().collect();
    if a.len() < 4 {
        eprintln!("usage: p_nested_iter <exf o|r> <outer p|w|f> <pre> [konly]");
        std::process::exit(2);
    }
    if a.len() > 4 {
        KONLY.store(a[4].parse().unwrap(), Ordering::Relaxed);
    }
    std::panic::set_hook(Box::new(|info| {
        let msg = if let Some(s) = info.payload().downcast_ref::<&str>() { s.to_string() }
                  else if let Some(s) = info.payload().downcast_ref::<String>() { s.clone() } else { "?".to_string() };
        out(&format!("P {} {}\n", CHILD_K.load(Ordering::Relaxed), msg.replace('\n', " ")));
        unsafe { libc::_exit(3) };
    }));
    unsafe {
        let mut sa: libc::sigaction = std::mem::zeroed();
        sa.sa_sigaction = on_trap as *const () as usize;
        sa.sa_flags = libc::SA_SIGINFO;
        libc::sigemptyset(&mut sa.sa_mask);
        assert_eq!(0, libc::sigaction(libc::SIGTRAP, &sa, ptr::null_mut()));
    }
    let pre = if a[3] == "-" { "" } else { a[3].as_str() };
    if a[2] == "G" {
        if a[1] == "r" { sweep_handler_drop(WithRawSiginfo::default()) } else { sweep_handler_drop(SignalOnly::default()) }
        return;
    }
    if a[2] == "D" {
        if a[1] == "r" { sweep_drop_handle(WithRawSiginfo::default()) } else { sweep_drop_handle(SignalOnly::default()) }
        return;
    }
    if a[2] == "d" {
        if a[1] == "r" { sweep_drop(WithRawSiginfo::default()) } else { sweep_drop(SignalOnly::default()) }
        return;
    }
    if a[2] == "h" || a[2] == "H" {
        if a[1] == "r" { sweep_handler(WithRawSiginfo::default(), true, a[2] == "H") } else { sweep_handler(SignalOnly::default(), false, a[2] == "H") }
        return;
    }
    if a[2] == "a" {
        if a[1] == "r" { sweep_add(WithRawSiginfo::default(), true) } else { sweep_add(SignalOnly::default(), false) }
        return;
    }
    if a[1] == "r" {
        sweep(WithRawSiginfo::default(), &a[2], pre, true);
    } else {
        sweep(SignalOnly::default(), &a[2], pre, false);
    }
}
