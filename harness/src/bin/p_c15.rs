//! C15 probe: runs scripts of flag registrations / application writes / deliveries against the
//! real crates, each script in a forked child, and prints what could be observed.
//!
//! stdin, one case per line:   <case-id> <nbool> <nusize> <op ints ...>
//!   flags 0..nbool-1 are `Arc<AtomicBool>`, nbool..nbool+nusize-1 are `Arc<AtomicUsize>`, all
//!   initially false / 0.  Ops (same encoding as coq/flag/Run.v):
//!     1 f v            store v into flag f (bool flags: v != 0)
//!     2 sig            libc::raise(sig)
//!     3 sig f          flag::register(sig, f)
//!     4 sig f v        flag::register_usize(sig, f, v)
//!     5 sig status c   flag::register_conditional_shutdown(sig, status, c)
//!     6 sig c          flag::register_conditional_default(sig, c)
//!     7 k              low_level::unregister(id of the k-th registration op)
//!     8 sig k          low_level::register(sig, observer k)   -- reports all flags when run
//!     9 sig k          low_level::register(sig, observer k that also raises sig the first time it runs): the
//!                      signal is blocked inside its own handler, so that raise stays pending until the handler
//!                      returns and is delivered then (a second signal arriving during the first delivery)
//!   environment ops, only at the front, neither counted nor reported (the property does not
//!   depend on them):
//!     -1 sig d         disposition of sig before anything is registered: d = 1 SIG_IGN, 2 a
//!                      foreign no-op handler, 3 a foreign no-op handler with SA_RESETHAND|SA_NODEFER
//!     -2 n             n additional idle threads
//! stdout, one line per case:  <case-id> <record ints ...>
//!     1 i res f0..      op i completed (written by the child after the op returned)
//!     2 k 0 f0..        observer k ran (written from inside the signal handler)
//!     9 kind code hooks final: 0 script completed | 1 exited(code) | 2 killed(code) | 3 stopped
//!                       | 6 timeout | 7 child panicked ; hooks = 1 if the child's atexit hook ran
use sh_harness::forked::{reset_all_dispositions, run_child, Outcome};
use signal_hook::SigId;
use std::io::{BufRead, Write};
use std::sync::atomic::{AtomicBool, AtomicI32, AtomicUsize, Ordering};
use std::sync::Arc;
use std::time::Duration;

const MAXF: usize = 16;
static PIPE_W: AtomicI32 = AtomicI32::new(-1);
static NFLAGS: AtomicUsize = AtomicUsize::new(0);

#[derive(Clone)]
struct Flags {
    b: Vec<Arc<AtomicBool>>,
    u: Vec<Arc<AtomicUsize>>,
}

impl Flags {
    /// async-signal-safe: fixed buffer, one write(2)
    fn report(&self, tag: i64, a: i64, b: i64) {
        let mut buf = [0i64; 3 + MAXF];
        buf[0] = tag;
        buf[1] = a;
        buf[2] = b;
        let mut n = 3;
        for f in &self.b {
            buf[n] = f.load(Ordering::SeqCst) as i64;
            n += 1;
        }
        for f in &self.u {
            buf[n] = f.load(Ordering::SeqCst) as i64;
            n += 1;
        }
        unsafe {
            libc::write(PIPE_W.load(Ordering::SeqCst), buf.as_ptr() as *const libc::c_void, n * 8);
        }
    }
}

extern "C" fn atexit_hook() {
    let n = 3 + NFLAGS.load(Ordering::SeqCst);
    let mut buf = [0i64; 3 + MAXF];
    buf[0] = 3;
    unsafe {
        libc::write(PIPE_W.load(Ordering::SeqCst), buf.as_ptr() as *const libc::c_void, n * 8);
    }
}

extern "C" fn foreign_handler(_sig: libc::c_int) {}

fn child(nb: usize, nu: usize, ops: &[i64]) -> i32 {
    unsafe {
        reset_all_dispositions();
        libc::atexit(atexit_hook);
    }
    let flags = Flags {
        b: (0..nb).map(|_| Arc::new(AtomicBool::new(false))).collect(),
        u: (0..nu).map(|_| Arc::new(AtomicUsize::new(0))).collect(),
    };
    let mut ids: Vec<Option<SigId>> = Vec::new();
    let mut i = 0usize;
    let mut opno: i64 = 0;
    let arg = |j: usize| -> i64 { ops[j] };
    while i < ops.len() && ops[i] < 0 {
        if ops[i] == -1 {
            let (sig, d) = (arg(i + 1) as i32, arg(i + 2));
            unsafe {
                let mut sa: libc::sigaction = std::mem::zeroed();
                sa.sa_sigaction = if d == 1 { libc::SIG_IGN } else { foreign_handler as *const () as usize };
                sa.sa_flags = if d == 3 { libc::SA_RESETHAND | libc::SA_NODEFER } else { 0 };
                libc::sigemptyset(&mut sa.sa_mask);
                libc::sigaction(sig, &sa, std::ptr::null_mut());
            }
            i += 3;
        } else {
            for _ in 0..arg(i + 1) {
                std::thread::spawn(|| loop {
                    std::thread::sleep(Duration::from_secs(3600));
                });
            }
            i += 2;
        }
    }
    while i < ops.len() {
        let mut res = 0i64;
        match ops[i] {
            1 => {
                let (f, v) = (arg(i + 1) as usize, arg(i + 2));
                if f < nb {
                    flags.b[f].store(v != 0, Ordering::SeqCst);
                } else {
                    flags.u[f - nb].store(v as usize, Ordering::SeqCst);
                }
                i += 3;
            }
            2 => {
                unsafe { libc::raise(arg(i + 1) as i32) };
                i += 2;
            }
            3 => {
                let r = signal_hook::flag::register(arg(i + 1) as i32, Arc::clone(&flags.b[arg(i + 2) as usize]));
                res = r.is_ok() as i64;
                ids.push(r.ok());
                i += 3;
            }
            4 => {
                let f = arg(i + 2) as usize - nb;
                let r = signal_hook::flag::register_usize(arg(i + 1) as i32, Arc::clone(&flags.u[f]), arg(i + 3) as usize);
                res = r.is_ok() as i64;
                ids.push(r.ok());
                i += 4;
            }
            5 => {
                let r = signal_hook::flag::register_conditional_shutdown(
                    arg(i + 1) as i32,
                    arg(i + 2) as i32,
                    Arc::clone(&flags.b[arg(i + 3) as usize]),
                );
                res = r.is_ok() as i64;
                ids.push(r.ok());
                i += 4;
            }
            6 => {
                let r = signal_hook::flag::register_conditional_default(arg(i + 1) as i32, Arc::clone(&flags.b[arg(i + 2) as usize]));
                res = r.is_ok() as i64;
                ids.push(r.ok());
                i += 3;
            }
            7 => {
                if let Some(Some(id)) = ids.get(arg(i + 1) as usize) {
                    res = signal_hook::low_level::unregister(*id) as i64;
                }
                i += 2;
            }
            8 => {
                let fl = flags.clone();
                let k = arg(i + 2);
                let r = unsafe { signal_hook::low_level::register(arg(i + 1) as i32, move || fl.report(2, k, 0)) };
                res = r.is_ok() as i64;
                ids.push(r.ok());
                i += 3;
            }
            9 => {
                let fl = flags.clone();
                let k = arg(i + 2);
                let sig = arg(i + 1) as i32;
                let fired = AtomicBool::new(false);
                let r = unsafe {
                    signal_hook::low_level::register(sig, move || {
                        fl.report(2, k, 0);
                        if !fired.swap(true, Ordering::SeqCst) {
                            libc::raise(sig);
                        }
                    })
                };
                res = r.is_ok() as i64;
                ids.push(r.ok());
                i += 3;
            }
            _ => return 99,
        }
        flags.report(1, opno, res);
        opno += 1;
    }
    77
}

fn count_ops(ops: &[i64]) -> Option<usize> {
    let mut i = 0;
    let mut n = 0;
    while i < ops.len() && ops[i] < 0 {
        i += if ops[i] == -1 { 3 } else { 2 };
    }
    while i < ops.len() {
        i += match ops[i] {
            1 => 3,
            2 => 2,
            3 => 3,
            4 => 4,
            5 => 4,
            6 => 3,
            7 => 2,
            8 | 9 => 3,
            _ => return None,
        };
        n += 1;
    }
    if i == ops.len() {
        Some(n)
    } else {
        None
    }
}

fn run_case(nb: usize, nu: usize, ops: &[i64]) -> Vec<i64> {
    let nops = match count_ops(ops) {
        Some(n) if nb + nu <= MAXF => n,
        _ => return vec![9, 5, 0, 0],
    };
    let mut fds = [0i32; 2];
    unsafe {
        assert_eq!(libc::pipe(fds.as_mut_ptr()), 0);
        // the parent reads only after the child has ended: make room for long logs
        libc::fcntl(fds[1], libc::F_SETPIPE_SZ, 1 << 20);
    }
    PIPE_W.store(fds[1], Ordering::SeqCst);
    NFLAGS.store(nb + nu, Ordering::SeqCst);
    let rd = fds[0];
    let out = run_child(
        move || {
            unsafe { libc::close(rd) };
            match std::panic::catch_unwind(|| child(nb, nu, ops)) {
                Ok(c) => c,
                Err(_) => {
                    // tell the parent that this was a panic, not an exit status
                    let mut buf = [0i64; 3 + MAXF];
                    buf[0] = 7;
                    unsafe {
                        libc::write(PIPE_W.load(Ordering::SeqCst), buf.as_ptr() as *const libc::c_void, (3 + nb + nu) * 8);
                    }
                    101
                }
            }
        },
        Duration::from_secs(5),
    );
    let mut raw: Vec<u8> = Vec::new();
    unsafe {
        libc::close(fds[1]);
        let mut buf = [0u8; 4096];
        loop {
            let n = libc::read(fds[0], buf.as_mut_ptr() as *mut libc::c_void, buf.len());
            if n <= 0 {
                break;
            }
            raw.extend_from_slice(&buf[..n as usize]);
        }
        libc::close(fds[0]);
    }
    let rec = 3 + nb + nu;
    let words: Vec<i64> = raw
        .chunks_exact(8)
        .map(|c| i64::from_le_bytes([c[0], c[1], c[2], c[3], c[4], c[5], c[6], c[7]]))
        .collect();
    let mut log = Vec::new();
    let mut hooks = 0;
    let mut done = 0;
    let mut panicked = false;
    for r in words.chunks(rec) {
        match r[0] {
            3 => hooks = 1,
            7 => panicked = true,
            1 => {
                done += 1;
                log.extend_from_slice(r)
            }
            _ => log.extend_from_slice(r),
        }
    }
    let fin = match out {
        Outcome::Exited(77) if done == nops => vec![9, 0, 0, hooks],
        Outcome::Exited(_) if panicked => vec![9, 7, 0, hooks],
        Outcome::Exited(c) => vec![9, 1, c as i64, hooks],
        Outcome::Signaled(s) => vec![9, 2, s as i64, hooks],
        Outcome::Stopped(_) => vec![9, 3, 0, hooks],
        Outcome::Timeout => vec![9, 6, 0, hooks],
    };
    log.extend(fin);
    log
}

fn main() {
    if std::env::args().nth(1).as_deref() == Some("term") {
        // the crate's own list of termination signals
        let v: Vec<String> = signal_hook::consts::TERM_SIGNALS.iter().map(|s| s.to_string()).collect();
        println!("{}", v.join(" "));
        return;
    }
    let stdin = std::io::stdin();
    let stdout = std::io::stdout();
    let mut o = stdout.lock();
    for line in stdin.lock().lines() {
        let line = line.unwrap();
        let toks: Vec<&str> = line.split_whitespace().collect();
        if toks.len() < 3 {
            continue;
        }
        let nb: usize = toks[1].parse().unwrap();
        let nu: usize = toks[2].parse().unwrap();
        let ops: Vec<i64> = toks[3..].iter().map(|t| t.parse().unwrap()).collect();
        let log = run_case(nb, nu, &ops);
        let txt: Vec<String> = log.iter().map(|x| x.to_string()).collect();
        writeln!(o, "{} {}", toks[0], txt.join(" ")).unwrap();
        // nothing buffered may be inherited by the next forked child
        o.flush().unwrap();
    }
}
