//! C03 probe: one real delivery (the library's dispatcher called as the kernel would) with every
//! built-in action registered for the signal - flag, usize flag, conditional shutdown (disarmed),
//! conditional default (disarmed), self-pipe wake on a completely FULL socket and on a full pipe,
//! iterator with SignalOnly, iterator with WithRawSiginfo (channel send) - while the allocator
//! wrapper counts heap traffic and the shim records every synchronisation operation.
//! Then 1500 more deliveries that nobody drains (the iterators' own socket pairs fill up).
//! Output: `ops <n>`, `kinds <op codes seen>`, `allocs <n> frees <n>`, `elapsed_us <n>`, `burst_elapsed_us <n>`.
use sh_harness::sched;
use signal_hook::iterator::exfiltrator::WithRawSiginfo;
use signal_hook::iterator::{Signals, SignalsInfo};
use signal_hook_registry::verif::{self, Directive, Event};
use std::os::unix::io::AsRawFd;
use std::os::unix::net::UnixStream;
use std::sync::atomic::{AtomicBool, AtomicUsize, Ordering};
use std::sync::Arc;

#[global_allocator]
static ALLOC: sched::CountingAlloc = sched::CountingAlloc;

static OPS: AtomicUsize = AtomicUsize::new(0);
static KINDS: AtomicUsize = AtomicUsize::new(0);
static RECORD: AtomicBool = AtomicBool::new(false);

fn before(_e: &Event) -> Directive {
    Directive::Proceed
}
fn after(e: &Event) {
    if RECORD.load(Ordering::SeqCst) {
        OPS.fetch_add(1, Ordering::SeqCst);
        KINDS.fetch_or(1 << (e.op as u8), Ordering::SeqCst);
    }
}
static HOOKS: verif::Hooks = verif::Hooks { before, after };

fn fill(fd: i32) {
    unsafe {
        let fl = libc::fcntl(fd, libc::F_GETFL, 0);
        libc::fcntl(fd, libc::F_SETFL, fl | libc::O_NONBLOCK);
        let buf = [0u8; 4096];
        while libc::write(fd, buf.as_ptr() as *const _, buf.len()) > 0 {}
        while libc::write(fd, buf.as_ptr() as *const _, 1) > 0 {}
        libc::fcntl(fd, libc::F_SETFL, fl);
    }
}

fn main() {
    // the whole probe runs in a forked child under a time limit: a delivery that does not return
    // (e.g. a wake that retries on a full pipe) is reported as `hang 1` instead of hanging the check
    let o = sh_harness::forked::run_child(|| { real_main(); 0 }, std::time::Duration::from_secs(15));
    match o {
        sh_harness::forked::Outcome::Exited(0) => {}
        other => println!("hang 1 {}", other.text()),
    }
}

fn real_main() {
    let bursts: usize = std::env::args().nth(1).and_then(|a| a.parse().ok()).unwrap_or(3);
    let sig = libc::SIGUSR1;
    let flag = Arc::new(AtomicBool::new(false));
    let uflag = Arc::new(AtomicUsize::new(0));
    let disarmed = Arc::new(AtomicBool::new(false));
    signal_hook::flag::register(sig, flag.clone()).unwrap();
    signal_hook::flag::register_usize(sig, uflag.clone(), 7).unwrap();
    signal_hook::flag::register_conditional_shutdown(sig, 3, disarmed.clone()).unwrap();
    signal_hook::flag::register_conditional_default(sig, disarmed.clone()).unwrap();
    let (r1, w1) = UnixStream::pair().unwrap();
    fill(w1.as_raw_fd());
    signal_hook::low_level::pipe::register(sig, w1).unwrap();
    let mut fds = [0i32; 2];
    unsafe { libc::pipe(fds.as_mut_ptr()) };
    fill(fds[1]);
    signal_hook::low_level::pipe::register_raw(sig, fds[1]).unwrap();
    let mut sigs = Signals::new(&[sig]).unwrap();
    let mut infos = SignalsInfo::<WithRawSiginfo>::new(&[sig]).unwrap();
    verif::install(&HOOKS);
    let mut info: libc::siginfo_t = unsafe { std::mem::zeroed() };
    info.si_signo = sig;
    let mut ctx = 0u64;
    let t0 = std::time::Instant::now();
    for _ in 0..bursts {
        RECORD.store(true, Ordering::SeqCst);
        sched::in_delivery(|| unsafe {
            signal_hook_registry::verif_api::dispatch(sig, &mut info, &mut ctx as *mut u64 as *mut libc::c_void)
        });
        RECORD.store(false, Ordering::SeqCst);
    }
    let el = t0.elapsed().as_micros();
    println!("ops {}", OPS.load(Ordering::SeqCst));
    println!("kinds {}", KINDS.load(Ordering::SeqCst));
    println!(
        "allocs {} frees {}",
        sched::ALLOCS_IN_DELIVERY.load(Ordering::SeqCst),
        sched::FREES_IN_DELIVERY.load(Ordering::SeqCst)
    );
    println!("elapsed_us {}", el);
    // a burst nobody drains: the iterators' own self-pipes (std socket pairs in blocking mode) fill up after a few
    // hundred wake-ups; every further delivery must still return at once
    let t1 = std::time::Instant::now();
    for _ in 0..1500 {
        unsafe { signal_hook_registry::verif_api::dispatch(sig, &mut info, &mut ctx as *mut u64 as *mut libc::c_void) };
    }
    println!("burst_elapsed_us {}", t1.elapsed().as_micros());
    println!("flag {} uflag {}", flag.load(Ordering::SeqCst) as i32, uflag.load(Ordering::SeqCst));
    println!("signals {:?}", sigs.pending().collect::<Vec<_>>());
    println!("infos {}", infos.pending().count());
    drop(r1);
}
