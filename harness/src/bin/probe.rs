fn main() {
    let args: Vec<String> = std::env::args().collect();
    let cmd = args.get(1).map(|s| s.as_str()).unwrap_or("");
    let rest = &args[2.min(args.len())..];
    let code = match cmd {
        "consts" => sh_harness::consts::main(rest),
        "c16" => sh_harness::c16::main(rest),
        _ => {
            eprintln!("unknown subcommand {:?}", cmd);
            2
        }
    };
    std::process::exit(code);
}
