//! Every signal number through the iterators (C09: nothing lost, C10: nothing else yielded), the
//! edges of the number range included (SIGRTMIN .. SIGRTMAX).  Each number in its own forked child:
//! an instance watching just that number (SignalOnly and WithRawSiginfo), one `raise`, then
//! `wait()` must come back and yield exactly that number once; a second instance created later for
//! the same number gets the next delivery too.
//!
//!   p_allsigs <sig>...      prints  A <sig> <exf o|r> <outcome>
//!     outcome: ok | refused:<errno|panic> | lost | extra:<what was yielded> | died:<how>
use sh_harness::forked::{reset_all_dispositions, run_child, Outcome};
use signal_hook::iterator::exfiltrator::{Exfiltrator, SignalOnly, WithRawSiginfo};
use signal_hook::iterator::SignalsInfo;
use std::io::{Read, Write};
use std::os::unix::io::FromRawFd;
use std::panic::{catch_unwind, AssertUnwindSafe};
use std::time::Duration;

trait Num {
    fn num(&self) -> i32;
}
impl Num for libc::c_int {
    fn num(&self) -> i32 {
        *self
    }
}
impl Num for libc::siginfo_t {
    fn num(&self) -> i32 {
        self.si_signo
    }
}

fn case<E: Exfiltrator + Default>(sig: i32) -> String
where
    E::Output: Num,
{
    std::panic::set_hook(Box::new(|_| {}));
    let mut inst = match catch_unwind(AssertUnwindSafe(|| SignalsInfo::<E>::new(&[sig]))) {
        Ok(Ok(s)) => s,
        Ok(Err(e)) => return format!("refused:{}", e.raw_os_error().unwrap_or(-1)),
        Err(_) => return "refused:panic".to_string(),
    };
    unsafe { libc::alarm(5) };
    {
        // the same number listed twice in a constructor's set is still one registration: one record per delivery
        let mut dup = SignalsInfo::<E>::new(&[sig, sig]).unwrap();
        unsafe { libc::raise(sig) };
        let d: Vec<i32> = dup.wait().map(|x| x.num()).chain(dup.pending().map(|x| x.num())).collect();
        let mine: Vec<i32> = inst.pending().map(|x| x.num()).collect();
        if d != vec![sig] || mine != vec![sig] {
            return format!("extra:listed-twice:{:?}:{:?}", d, mine).replace(' ', "");
        }
    }
    unsafe { libc::raise(sig) };
    let got: Vec<i32> = inst.wait().map(|x| x.num()).collect();
    if got.is_empty() {
        return "lost".to_string();
    }
    if got != vec![sig] {
        return format!("extra:{:?}", got).replace(' ', "");
    }
    // a second instance for the same number: both get the next delivery, each once
    let mut second = SignalsInfo::<E>::new(&[sig]).unwrap();
    unsafe { libc::raise(sig) };
    let a: Vec<i32> = inst.wait().map(|x| x.num()).collect();
    let b: Vec<i32> = second.wait().map(|x| x.num()).collect();
    if a != vec![sig] || b != vec![sig] {
        return format!("extra:second-round:{:?}:{:?}", a, b).replace(' ', "");
    }
    let rest: Vec<i32> = inst.pending().map(|x| x.num()).chain(second.pending().map(|x| x.num())).collect();
    if !rest.is_empty() {
        return format!("extra:afterwards:{:?}", rest).replace(' ', "");
    }
    "ok".to_string()
}

fn main() {
    let sigs: Vec<i32> = std::env::args().skip(1).filter_map(|a| a.parse().ok()).collect();
    for &sig in &sigs {
        for exf in ["o", "r"] {
            let mut fds = [0i32; 2];
            unsafe { libc::pipe(fds.as_mut_ptr()) };
            let (rd, wr) = (fds[0], fds[1]);
            let out = run_child(
                move || {
                    unsafe {
                        libc::close(rd);
                        reset_all_dispositions();
                    }
                    let s = if exf == "o" { case::<SignalOnly>(sig) } else { case::<WithRawSiginfo>(sig) };
                    let mut f = unsafe { std::fs::File::from_raw_fd(wr) };
                    let _ = f.write_all(s.as_bytes());
                    0
                },
                Duration::from_secs(10),
            );
            unsafe { libc::close(wr) };
            let mut f = unsafe { std::fs::File::from_raw_fd(rd) };
            let mut s = String::new();
            let _ = f.read_to_string(&mut s);
            if s.is_empty() {
                s = match out {
                    Outcome::Exited(c) => format!("died:exit:{}", c),
                    Outcome::Signaled(c) => format!("died:sig:{}", c),
                    Outcome::Stopped(c) => format!("died:stop:{}", c),
                    Outcome::Timeout => "died:timeout".to_string(),
                };
            }
            println!("A {} {} {}", sig, exf, s);
        }
    }
}
