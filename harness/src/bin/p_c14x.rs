//! C14 supplement: the info-carrying iterators (WithRawSiginfo, WithOrigin) are checked entry points
//! too - constructor and add_signal on a live instance, for every forbidden signal and a few
//! invalid numbers.  Each case in a forked child.
//!
//!   p_c14x <sig>...      per (exfiltrator, entry, sig):
//!     (entry new2 = constructor with the list [SIGUSR1, sig]: a valid signal is registered first, then the refusal unwinds
//!      through the half-built instance; also for the default exfiltrator, exf = only)
//!     X <exf raw|origin|only> <entry new|add|new2> <sig> <outcome ok|err:<errno>|panic> <disposition unchanged 0|1> <fds leaked>
use sh_harness::forked::{reset_all_dispositions, run_child, Outcome};
use signal_hook::iterator::exfiltrator::origin::WithOrigin;
use signal_hook::iterator::exfiltrator::{Exfiltrator, WithRawSiginfo};
use signal_hook::iterator::SignalsInfo;
use std::io::{Read, Write};
use std::os::unix::io::FromRawFd;
use std::panic::{catch_unwind, AssertUnwindSafe};
use std::time::Duration;

fn disposition(sig: i32) -> (usize, i32) {
    unsafe {
        let mut old: libc::sigaction = std::mem::zeroed();
        if libc::sigaction(sig, std::ptr::null(), &mut old) != 0 {
            return (usize::MAX, -1);
        }
        (old.sa_sigaction, old.sa_flags & !0x0400_0000)
    }
}

fn open_fds() -> i32 {
    (0..256).filter(|fd| unsafe { libc::fcntl(*fd, libc::F_GETFD) } != -1).count() as i32
}

fn case<E: Exfiltrator + Default>(entry: &str, sig: i32) -> String {
    std::panic::set_hook(Box::new(|_| {}));
    let before = disposition(sig);
    let fds0;
    let outcome;
    if entry == "new" {
        fds0 = open_fds();
        outcome = match catch_unwind(AssertUnwindSafe(|| SignalsInfo::<E>::new(&[sig]))) {
            Ok(Ok(s)) => {
                drop(s);
                "ok".to_string()
            }
            Ok(Err(e)) => format!("err:{}", e.raw_os_error().unwrap_or(-1)),
            Err(_) => "panic".to_string(),
        };
    } else if entry == "new2" {
        fds0 = open_fds();
        outcome = match catch_unwind(AssertUnwindSafe(|| SignalsInfo::<E>::new(&[libc::SIGUSR1, sig]))) {
            Ok(Ok(s)) => {
                drop(s);
                "ok".to_string()
            }
            Ok(Err(e)) => format!("err:{}", e.raw_os_error().unwrap_or(-1)),
            Err(_) => "panic".to_string(),
        };
        // the registration of SIGUSR1 the constructor had made must be gone again
        #[allow(deprecated)]
        let left = signal_hook_registry::unregister_signal(libc::SIGUSR1);
        let after = disposition(sig);
        return format!("{} {} {}", outcome, (after == before && !left) as i32, open_fds() - fds0);
    } else {
        let inst = SignalsInfo::<E>::new(&[libc::SIGUSR1]).unwrap();
        fds0 = open_fds();
        outcome = match catch_unwind(AssertUnwindSafe(|| inst.add_signal(sig))) {
            Ok(Ok(())) => "ok".to_string(),
            Ok(Err(e)) => format!("err:{}", e.raw_os_error().unwrap_or(-1)),
            Err(_) => "panic".to_string(),
        };
        let leaked = open_fds() - fds0;
        let after = disposition(sig);
        drop(inst);
        return format!("{} {} {}", outcome, (after == before) as i32, leaked);
    }
    let after = disposition(sig);
    format!("{} {} {}", outcome, (after == before) as i32, open_fds() - fds0)
}

fn main() {
    let sigs: Vec<i32> = std::env::args().skip(1).filter_map(|a| a.parse().ok()).collect();
    for exf in ["raw", "origin", "only"] {
        for entry in ["new", "add", "new2"] {
            if exf == "only" && entry != "new2" {
                continue;
            }
            for &sig in &sigs {
                let mut fds = [0i32; 2];
                unsafe { libc::pipe(fds.as_mut_ptr()) };
                let (rd, wr) = (fds[0], fds[1]);
                let out = run_child(
                    move || {
                        unsafe {
                            libc::close(rd);
                            reset_all_dispositions();
                        }
                        let s = if exf == "raw" {
                            case::<WithRawSiginfo>(entry, sig)
                        } else if exf == "origin" {
                            case::<WithOrigin>(entry, sig)
                        } else {
                            case::<signal_hook::iterator::exfiltrator::SignalOnly>(entry, sig)
                        };
                        let mut f = unsafe { std::fs::File::from_raw_fd(wr) };
                        let _ = f.write_all(s.as_bytes());
                        0
                    },
                    Duration::from_secs(10),
                );
                unsafe { libc::close(wr) };
                let mut f = unsafe { std::fs::File::from_raw_fd(rd) };
                let mut s = String::new();
                let _ = f.read_to_string(&mut s);
                if s.is_empty() {
                    s = match out {
                        Outcome::Exited(c) => format!("died:exit:{} 0 0", c),
                        Outcome::Signaled(c) => format!("died:sig:{} 0 0", c),
                        Outcome::Stopped(c) => format!("died:stop:{} 0 0", c),
                        Outcome::Timeout => "died:timeout 0 0".to_string(),
                    };
                }
                println!("X {} {} {} {}", exf, entry, sig, s);
            }
        }
    }
}
