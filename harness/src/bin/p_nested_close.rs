//! close() landing at every instruction boundary of a consumer call (C11; DESIGN 4.2).
//!
//! `p_nested_close <outer w|f|q> <pre> [konly]`
//!   outer  w = drain `wait()` (needs a pre delivery: the call must not block in the parent)
//!          f = `forever().next()` (needs a pre delivery)
//!          q = one `poll_signal` of the asynchronous back end with a non-blocking readiness
//!              callback that records its consultations (what the adapters do)
//!   pre    deliveries made before the call: a string over {s, t} (SIGUSR1, SIGUSR2), `-` for none; for q an
//!          upper-case letter means: deliver and poll once (leaves a stale wake-up byte behind)
//!
//! The call is single-stepped (trap flag); at every trap the process forks and the CHILD calls
//! `Handle::close()` right there (inside the SIGTRAP handler, as if another thread had closed at
//! that instant), lets the call finish and checks:
//!   * is_closed() is true after close() returned and stays true;
//!   * q: the call may answer Pending only if it consulted the callback in this call and the last
//!        answer was "nothing there" (a wake-up is armed); the next poll answers Closed (after the
//!        signals that were already delivered);
//!   * w/f: a consumer that goes on - wait() again, forever() - comes back every time and its
//!        forever() ends (a 3 s alarm turns a consumer that is stuck into a dead child);
//!   * nothing is yielded that was not delivered, nothing twice.
//!   K <k> OK|BAD <reasons> | <what the call returned> | <what followed>
//!   X <k> <how the child died>      E <boundaries>
#![cfg(all(target_os = "linux", target_arch = "x86_64"))]
use std::arch::asm;
use std::os::unix::io::AsRawFd;
use std::os::unix::net::UnixStream;
use std::ptr;
use std::sync::atomic::{AtomicBool, AtomicPtr, AtomicUsize, Ordering};

use signal_hook::iterator::backend::{Handle, PollResult, SignalDelivery, SignalIterator};
use signal_hook::iterator::exfiltrator::SignalOnly;
use signal_hook::iterator::Signals;

const S: i32 = libc::SIGUSR1;
const T: i32 = libc::SIGUSR2;
const TF: i64 = 0x100;

static STEP: AtomicUsize = AtomicUsize::new(0);
static KONLY: AtomicUsize = AtomicUsize::new(0);
static ARMED: AtomicBool = AtomicBool::new(false);
static IS_CHILD: AtomicBool = AtomicBool::new(false);
static CHILD_K: AtomicUsize = AtomicUsize::new(0);
static DEAD: AtomicUsize = AtomicUsize::new(0);
static HANDLE: AtomicPtr<Handle> = AtomicPtr::new(ptr::null_mut());
static READ_FD: AtomicUsize = AtomicUsize::new(0);
static WRITE_FD: AtomicUsize = AtomicUsize::new(0);
// the readiness callback's log for the current poll: consultations, last answer (1 available, 0 nothing)
static CB_CALLS: AtomicUsize = AtomicUsize::new(0);
static CB_LAST: AtomicUsize = AtomicUsize::new(9);

fn out(s: &str) {
    unsafe { libc::write(1, s.as_ptr() as *const libc::c_void, s.len()) };
}
fn open_fds() -> Vec<i32> {
    (0..256).filter(|fd| unsafe { libc::fcntl(*fd, libc::F_GETFD) } != -1).collect()
}
fn pipe_bytes() -> i32 {
    let mut n: libc::c_int = 0;
    unsafe { libc::ioctl(READ_FD.load(Ordering::Relaxed) as i32, libc::FIONREAD, &mut n) };
    n
}
fn pipe_restore(n: i32) {
    let (r, w) = (READ_FD.load(Ordering::Relaxed) as i32, WRITE_FD.load(Ordering::Relaxed) as i32);
    let mut buf = [0u8; 64];
    while unsafe { libc::recv(r, buf.as_mut_ptr() as *mut libc::c_void, buf.len(), libc::MSG_DONTWAIT) } > 0 {}
    for _ in 0..n {
        unsafe { libc::send(w, b"X".as_ptr() as *const libc::c_void, 1, libc::MSG_DONTWAIT | libc::MSG_NOSIGNAL) };
    }
}

extern "C" fn on_trap(_sig: libc::c_int, _info: *mut libc::siginfo_t, ctx: *mut libc::c_void) {
    if !ARMED.load(Ordering::Relaxed) {
        return;
    }
    let step = STEP.fetch_add(1, Ordering::Relaxed) + 1;
    let konly = KONLY.load(Ordering::Relaxed);
    if konly != 0 && step != konly {
        return;
    }
    let before = pipe_bytes();
    let pid = unsafe { libc::fork() };
    if pid == 0 {
        IS_CHILD.store(true, Ordering::Relaxed);
        CHILD_K.store(step, Ordering::Relaxed);
        ARMED.store(false, Ordering::Relaxed);
        unsafe { libc::alarm(3) };
        unsafe { (*HANDLE.load(Ordering::Relaxed)).close() };
        let uc = ctx as *mut libc::ucontext_t;
        unsafe { (*uc).uc_mcontext.gregs[libc::REG_EFL as usize] &= !TF };
    } else if pid > 0 {
        let mut st = 0;
        unsafe { libc::waitpid(pid, &mut st, 0) };
        pipe_restore(before);
        if !(libc::WIFEXITED(st) && libc::WEXITSTATUS(st) == 0) {
            let why = if libc::WIFSIGNALED(st) { format!("signal {}", libc::WTERMSIG(st)) } else { format!("exit {}", libc::WEXITSTATUS(st)) };
            out(&format!("X {} {}\n", step, why));
            if DEAD.fetch_add(1, Ordering::Relaxed) + 1 >= 12 {
                ARMED.store(false, Ordering::Relaxed);
                let uc = ctx as *mut libc::ucontext_t;
                unsafe { (*uc).uc_mcontext.gregs[libc::REG_EFL as usize] &= !TF };
            }
        }
    }
}

#[inline(always)]
unsafe fn trap_flag_on() {
    asm!("pushfq", "or qword ptr [rsp], 0x100", "popfq");
}
#[inline(always)]
unsafe fn trap_flag_off() {
    asm!("pushfq", "and qword ptr [rsp], -257", "popfq");
}

fn after_call(h: &Handle) {
    unsafe { trap_flag_off() };
    ARMED.store(false, Ordering::Relaxed);
    if !IS_CHILD.load(Ordering::Relaxed) {
        // the boundary after the last instruction: close() when the call has returned
        unsafe { libc::alarm(3) };
        h.close();
    }
}

fn check_yields(all: &[i32], pre: &str, bad: &mut Vec<String>) {
    for sig in [S, T] {
        let delivered = pre.chars().filter(|c| (*c == 's') == (sig == S)).count();
        let got = all.iter().filter(|x| **x == sig).count();
        if got > delivered {
            bad.push(format!("EXTRA signal {} yielded {} times, delivered {}", sig, got, delivered));
        }
    }
    if all.iter().any(|x| *x != S && *x != T) {
        bad.push(format!("UNWATCHED yielded {:?}", all));
    }
}

fn blocking_sweep(outer: &str, pre: &str) {
    let fds0 = open_fds();
    let mut signals = Signals::new(&[S, T]).unwrap();
    let new: Vec<i32> = open_fds().into_iter().filter(|fd| !fds0.contains(fd)).collect();
    assert_eq!(new.len(), 2);
    READ_FD.store(new[0] as usize, Ordering::Relaxed);
    WRITE_FD.store(new[1] as usize, Ordering::Relaxed);
    let h = Box::leak(Box::new(signals.handle()));
    HANDLE.store(h as *mut Handle, Ordering::Relaxed);
    for c in pre.chars() {
        unsafe { libc::raise(if c == 's' { S } else { T }) };
    }
    let mut got: Vec<i32> = Vec::new();
    let mut ended = false;
    STEP.store(0, Ordering::Relaxed);
    ARMED.store(true, Ordering::Relaxed);
    if outer == "w" {
        unsafe { trap_flag_on() };
        for x in signals.wait() {
            got.push(x);
        }
        after_call(h);
    } else {
        let mut it = signals.forever();
        unsafe { trap_flag_on() };
        let first = it.next();
        after_call(h);
        match first {
            Some(x) => got.push(x),
            None => ended = true,
        }
    }
    let child = IS_CHILD.load(Ordering::Relaxed);
    let k = if child { CHILD_K.load(Ordering::Relaxed) } else { STEP.load(Ordering::Relaxed) + 1 };
    let mut bad: Vec<String> = Vec::new();
    if !h.is_closed() || !signals.is_closed() {
        bad.push("STICKY is_closed() is false after close() returned".to_string());
    }
    // the consumer goes on: every further call comes back, the infinite iterator ends
    let mut later: Vec<i32> = Vec::new();
    for _ in 0..2 {
        for x in signals.wait() {
            later.push(x);
        }
    }
    let mut n = 0;
    for x in signals.forever() {
        later.push(x);
        n += 1;
        if n > 8 {
            bad.push("ENDLESS forever() keeps yielding after close()".to_string());
            break;
        }
    }
    for x in signals.pending() {
        later.push(x);
    }
    if !signals.is_closed() {
        bad.push("STICKY is_closed() became false again".to_string());
    }
    let mut all = got.clone();
    all.extend(later.iter().cloned());
    check_yields(&all, pre, &mut bad);
    out(&format!("K {} {} | call {:?}{} | later {:?}\n", k, if bad.is_empty() { "OK".to_string() } else { format!("BAD {}", bad.join("; ")) },
                 got, if ended { " ended" } else { "" }, later));
    if child {
        unsafe { libc::_exit(0) };
    }
    out(&format!("E {}\n", STEP.load(Ordering::Relaxed)));
}

fn cb(read: &mut UnixStream) -> Result<bool, std::io::Error> {
    CB_CALLS.fetch_add(1, Ordering::Relaxed);
    let mut b = [0u8; 1];
    let r = unsafe { libc::recv(read.as_raw_fd(), b.as_mut_ptr() as *mut libc::c_void, 1, libc::MSG_DONTWAIT) };
    let ans = r > 0;
    CB_LAST.store(ans as usize, Ordering::Relaxed);
    Ok(ans)
}

fn poll_once(it: &mut SignalIterator<SignalDelivery<UnixStream, SignalOnly>, SignalOnly>) -> (String, usize, usize) {
    CB_CALLS.store(0, Ordering::Relaxed);
    CB_LAST.store(9, Ordering::Relaxed);
    let r = match it.poll_signal(&mut cb) {
        PollResult::Signal(x) => format!("Signal({})", x),
        PollResult::Pending => "Pending".to_string(),
        PollResult::Closed => "Closed".to_string(),
        PollResult::Err(_) => "Err".to_string(),
    };
    (r, CB_CALLS.load(Ordering::Relaxed), CB_LAST.load(Ordering::Relaxed))
}

fn poll_sweep(pre: &str) {
    let (read, write) = UnixStream::pair().unwrap();
    READ_FD.store(read.as_raw_fd() as usize, Ordering::Relaxed);
    WRITE_FD.store(write.as_raw_fd() as usize, Ordering::Relaxed);
    let delivery = SignalDelivery::with_pipe(read, write, SignalOnly::default(), &[S, T]).unwrap();
    let h = Box::leak(Box::new(delivery.handle()));
    HANDLE.store(h as *mut Handle, Ordering::Relaxed);
    let mut it = SignalIterator::new(delivery);
    // lower case: deliver; upper case: deliver and poll once (the batch the iterator holds hands the signal out
    // and its wake-up byte stays in the pipe: a stale byte for the poll under test)
    for c in pre.chars() {
        unsafe { libc::raise(if c == 's' || c == 'S' { S } else { T }) };
        if c.is_uppercase() {
            let _ = poll_once(&mut it);
        }
    }
    // what is still to be reported by the poll under test and after it
    let remaining: String = pre.chars().filter(|c| c.is_lowercase()).collect();
    STEP.store(0, Ordering::Relaxed);
    ARMED.store(true, Ordering::Relaxed);
    CB_CALLS.store(0, Ordering::Relaxed);
    CB_LAST.store(9, Ordering::Relaxed);
    unsafe { trap_flag_on() };
    let first = it.poll_signal(&mut cb);
    after_call(h);
    let (calls, last) = (CB_CALLS.load(Ordering::Relaxed), CB_LAST.load(Ordering::Relaxed));
    let child = IS_CHILD.load(Ordering::Relaxed);
    let k = if child { CHILD_K.load(Ordering::Relaxed) } else { STEP.load(Ordering::Relaxed) + 1 };
    let mut bad: Vec<String> = Vec::new();
    let mut all: Vec<i32> = Vec::new();
    let first_txt = match first {
        PollResult::Signal(x) => {
            all.push(x);
            format!("Signal({})", x)
        }
        PollResult::Pending => {
            if calls == 0 || last != 0 {
                bad.push(format!("UNARMED Pending with the callback consulted {} time(s), last answer {}: no wake-up is armed", calls,
                                 match last { 1 => "available", 0 => "nothing", _ => "none" }));
            }
            "Pending".to_string()
        }
        PollResult::Closed => "Closed".to_string(),
        PollResult::Err(_) => {
            bad.push("ERR poll_signal returned an error".to_string());
            "Err".to_string()
        }
    };
    if !h.is_closed() {
        bad.push("STICKY is_closed() is false after close() returned".to_string());
    }
    // the poller is polled again (its wake-up fired: close wrote a byte): signals already delivered, then Closed for good
    let mut later: Vec<String> = Vec::new();
    let mut closed_seen = false;
    for _ in 0..8 {
        let (r, c2, l2) = poll_once(&mut it);
        if r == "Pending" {
            bad.push(format!("STRANDED Pending after close() returned (callback consulted {} time(s), last answer {})", c2, l2));
            later.push(r);
            break;
        }
        if r == "Closed" {
            closed_seen = true;
            later.push(r);
            break;
        }
        if let Some(x) = r.strip_prefix("Signal(").and_then(|t| t.strip_suffix(')')).and_then(|t| t.parse::<i32>().ok()) {
            all.push(x);
        }
        later.push(r);
    }
    if !closed_seen && !later.iter().any(|r| r == "Pending") {
        bad.push("ENDLESS the poller never answers Closed".to_string());
    }
    let (r3, _, _) = poll_once(&mut it);
    if closed_seen && r3 != "Closed" {
        bad.push(format!("STICKY a poll after Closed answered {}", r3));
    }
    check_yields(&all, &remaining, &mut bad);
    out(&format!("K {} {} | call {} cb={}/{} | later {:?}\n", k, if bad.is_empty() { "OK".to_string() } else { format!("BAD {}", bad.join("; ")) },
                 first_txt, calls, last, later));
    if child {
        unsafe { libc::_exit(0) };
    }
    out(&format!("E {}\n", STEP.load(Ordering::Relaxed)));
}

fn main() {
    let a: Vec<String> = std::env::args().collect();
    if a.len() < 3 {
        eprintln!("usage: p_nested_close <outer w|f|q> <pre> [konly]");
        std::process::exit(2);
    }
    if a.len() > 3 {
        KONLY.store(a[3].parse().unwrap(), Ordering::Relaxed);
    }
    std::panic::set_hook(Box::new(|info| {
        let msg = if let Some(s) = info.payload().downcast_ref::<&str>() { s.to_string() }
                  else if let Some(s) = info.payload().downcast_ref::<String>() { s.clone() } else { "?".to_string() };
        out(&format!("P {} {}\n", CHILD_K.load(Ordering::Relaxed), msg.replace('\n', " ")));
        unsafe { libc::_exit(3) };
    }));
    unsafe {
        let mut sa: libc::sigaction = std::mem::zeroed();
        sa.sa_sigaction = on_trap as *const () as usize;
        sa.sa_flags = libc::SA_SIGINFO;
        libc::sigemptyset(&mut sa.sa_mask);
        assert_eq!(0, libc::sigaction(libc::SIGTRAP, &sa, ptr::null_mut()));
    }
    let pre = if a[2] == "-" { "" } else { a[2].as_str() };
    if a[1] == "q" {
        poll_sweep(pre);
    } else {
        blocking_sweep(&a[1], pre);
    }
}
