//! C13 probes (DESIGN 5.13): kernel oracle for write/send per descriptor kind, and histories of
//! register / register_raw / deliveries / drains / unregister against the real
//! `signal_hook::low_level::pipe`, each history in a forked child.
//!
//! `p_c13 oracle`
//!     prints  `O kind full other_err sys len flags nonblock code errno`   one row per measurement
//!     kind: 0 pipe 1 stream 2 dgram 3 /dev/null 4 eventfd 5 regular file 6 invalid
//!     sys: 0 write 1 send 2 getsockopt(level = len, option = flags);  code: 0 ok 1 EAGAIN 2 blocks (no return within 300 ms) 3 other error
//! `p_c13 run`   reads one history per line from stdin:
//!     `<hid> <nchan> {kind blocking prefill_mode prefill_n bufsize}*nchan  ops...`
//!       prefill_mode: 0 none | 1 n one-byte units | 2 full (one-byte units) | 3 n empty datagrams
//!                     | 4 full of empty datagrams
//!       bufsize: 0 default | pipes: F_SETPIPE_SZ | sockets: SO_SNDBUF
//!       ops: 1 generic sig ch | 5 sig n | 7 sig n (as 5, errno preset to a stale EINTR/EAGAIN) | 3 ch n | 4 id | 6 (descriptor-number reuse probe, last)
//!   prints (prefix `<hid>`):
//!     C ch cap npre prelen        capacity in units measured on an identically built sibling
//!     1 outcome fd_open nonblock  outcome: 0 ok 1 err 2 panic
//!     5 n elapsed_ms
//!     3 units bytes xbytes
//!     4 removed fd_open
//!     6 nreused foreign_bytes all_open
//!     9 ch units bytes xbytes nonblock filesize
//!     E <how the child ended>
use sh_harness::forked::{run_child, Outcome};
use std::io::{BufRead, Write};
use std::os::unix::io::FromRawFd;
use std::time::{Duration, Instant};

const K_PIPE: i64 = 0;
const K_STREAM: i64 = 1;
const K_DGRAM: i64 = 2;
const K_NULL: i64 = 3;
const K_EVENTFD: i64 = 4;
const K_FILE: i64 = 5;
const K_INVALID: i64 = 6;

struct Chan {
    kind: i64,
    w: i32,
    r: i32,
}

fn errno() -> i32 {
    std::io::Error::last_os_error().raw_os_error().unwrap_or(0)
}

unsafe fn set_nonblock(fd: i32, on: bool) {
    let fl = libc::fcntl(fd, libc::F_GETFL);
    if fl < 0 {
        return;
    }
    let nf = if on { fl | libc::O_NONBLOCK } else { fl & !libc::O_NONBLOCK };
    libc::fcntl(fd, libc::F_SETFL, nf);
}

unsafe fn is_nonblock(fd: i32) -> i64 {
    let fl = libc::fcntl(fd, libc::F_GETFL);
    if fl < 0 {
        0
    } else if fl & libc::O_NONBLOCK != 0 {
        1
    } else {
        0
    }
}

unsafe fn fd_open(fd: i32) -> i64 {
    if libc::fcntl(fd, libc::F_GETFD) == -1 {
        0
    } else {
        1
    }
}

static FILE_SEQ: std::sync::atomic::AtomicU32 = std::sync::atomic::AtomicU32::new(0);

unsafe fn make_chan(kind: i64, blocking: i64, bufsize: i64) -> Chan {
    let mut fds = [-1i32; 2];
    let (w, r) = match kind {
        K_PIPE => {
            assert_eq!(libc::pipe(fds.as_mut_ptr()), 0);
            if bufsize > 0 {
                libc::fcntl(fds[1], libc::F_SETPIPE_SZ, bufsize as libc::c_int);
            }
            (fds[1], fds[0])
        }
        K_STREAM | K_DGRAM => {
            let ty = if kind == K_STREAM { libc::SOCK_STREAM } else { libc::SOCK_DGRAM };
            assert_eq!(libc::socketpair(libc::AF_UNIX, ty, 0, fds.as_mut_ptr()), 0);
            if bufsize > 0 {
                let v: libc::c_int = bufsize as libc::c_int;
                libc::setsockopt(fds[1], libc::SOL_SOCKET, libc::SO_SNDBUF, &v as *const _ as *const libc::c_void, 4);
            }
            (fds[1], fds[0])
        }
        K_NULL => (libc::open(b"/dev/null\0".as_ptr() as *const libc::c_char, libc::O_WRONLY), -1),
        K_EVENTFD => (libc::eventfd(0, 0), -1),
        K_FILE => {
            let seq = FILE_SEQ.fetch_add(1, std::sync::atomic::Ordering::SeqCst);
            let name = format!("/tmp/p_c13_{}_{}\0", libc::getpid(), seq);
            let fd = libc::open(name.as_ptr() as *const libc::c_char, libc::O_RDWR | libc::O_CREAT | libc::O_TRUNC | libc::O_APPEND, 0o600);
            libc::unlink(name.as_ptr() as *const libc::c_char);
            (fd, -1)
        }
        _ => (-1, -1),
    };
    if kind != K_INVALID {
        assert!(w >= 0, "could not create channel of kind {}", kind);
        set_nonblock(w, blocking == 0);
    }
    if r >= 0 {
        set_nonblock(r, true);
    }
    Chan { kind, w, r }
}

unsafe fn close_chan(c: &Chan) {
    if c.w >= 0 {
        libc::close(c.w);
    }
    if c.r >= 0 {
        libc::close(c.r);
    }
}

/// queue `n` units (usize::MAX = until EAGAIN) of `len` bytes (0 or 1) without ever blocking; restores the flags
unsafe fn fill(c: &Chan, n: usize, len: usize) -> usize {
    if !(c.kind == K_PIPE || c.kind == K_STREAM || c.kind == K_DGRAM) {
        return 0;
    }
    let was = is_nonblock(c.w);
    set_nonblock(c.w, true);
    let mut k = 0usize;
    while k < n {
        let x = if c.kind == K_PIPE {
            libc::write(c.w, b"F".as_ptr() as *const libc::c_void, len)
        } else {
            libc::send(c.w, b"F".as_ptr() as *const libc::c_void, len, libc::MSG_DONTWAIT)
        };
        if x != len as isize {
            break;
        }
        k += 1;
        if k > 4_000_000 {
            break;
        }
    }
    set_nonblock(c.w, was == 1);
    k
}

/// take up to n units (0 = all) from the read end: (units, bytes, bytes equal to b'X')
unsafe fn drain(c: &Chan, n: usize) -> (usize, usize, usize) {
    if c.r < 0 {
        return (0, 0, 0);
    }
    let want = if n == 0 { usize::MAX } else { n };
    let (mut units, mut bytes, mut xs) = (0usize, 0usize, 0usize);
    let mut buf = vec![0u8; 65536];
    if c.kind == K_DGRAM {
        while units < want {
            let x = libc::recv(c.r, buf.as_mut_ptr() as *mut libc::c_void, 64, libc::MSG_DONTWAIT);
            if x < 0 {
                break;
            }
            units += 1;
            bytes += x as usize;
            if x == 1 && buf[0] == b'X' {
                xs += 1;
            }
        }
    } else {
        while units < want {
            let ask = std::cmp::min(want - units, buf.len());
            let x = libc::read(c.r, buf.as_mut_ptr() as *mut libc::c_void, ask);
            if x <= 0 {
                break;
            }
            units += x as usize;
            bytes += x as usize;
            xs += buf[..x as usize].iter().filter(|b| **b == b'X').count();
        }
    }
    (units, bytes, xs)
}

fn classify(ret: isize, len: usize, e: i32) -> (i64, i32) {
    if ret == len as isize {
        (0, 0)
    } else if e == libc::EAGAIN || e == libc::EWOULDBLOCK {
        (1, e)
    } else {
        (3, e)
    }
}

/// one measurement in a forked child (so that a blocking call is observed as a timeout); the
/// child prints the row itself, the parent prints it with code 2 when the child had to be killed
fn measure(kind: i64, full: bool, oe: i32, sys: i64, len: usize, flags: i32, nonblock: bool) {
    let head = format!("O {} {} {} {} {} {} {}", kind, full as i32, oe, sys, len, flags, nonblock as i32);
    std::io::stdout().flush().ok();
    let out = run_child(
        || unsafe {
            let c = make_chan(kind, 1, if kind == K_PIPE { 4096 } else { 0 });
            if full {
                fill(&c, usize::MAX, 1);
            }
            let fd = if kind == K_INVALID { 987 } else { c.w };
            if kind != K_INVALID {
                set_nonblock(fd, nonblock);
            }
            let (code, e) = if sys == 2 {
                // getsockopt(fd, level = len, option = flags): the probe of register_raw
                let mut val: libc::c_int = 0;
                let mut sl = std::mem::size_of::<libc::c_int>() as libc::socklen_t;
                let r = libc::getsockopt(fd, len as libc::c_int, flags, &mut val as *mut libc::c_int as *mut libc::c_void, &mut sl);
                let e = errno();
                if r == 0 {
                    (0, 0)
                } else {
                    (3, e)
                }
            } else {
                let ret = if sys == 0 {
                    libc::write(fd, b"X".as_ptr() as *const libc::c_void, len)
                } else {
                    libc::send(fd, b"X".as_ptr() as *const libc::c_void, len, flags)
                };
                let e = errno();
                classify(ret, len, e)
            };
            println!("{} {} {}", head, code, e);
            std::io::stdout().flush().ok();
            0
        },
        Duration::from_millis(300),
    );
    match out {
        Outcome::Exited(0) => {}
        Outcome::Timeout => println!("{} 2 0", head),
        o => println!("{} 9 {}", head, o.text()),
    }
}

fn oracle() -> i32 {
    unsafe {
        // SIGPIPE must not kill the measuring children
        libc::signal(libc::SIGPIPE, libc::SIG_IGN);
    }
    let dw = libc::MSG_DONTWAIT;
    for kind in 0..=6i64 {
        let fills: &[bool] = if kind <= 2 { &[false, true] } else { &[false] };
        let oe = if kind == K_EVENTFD { 1 } else { 0 };
        for &full in fills {
            let rows: Vec<(i64, usize, i32, bool)> = vec![
                (2, libc::SOL_SOCKET as usize, libc::SO_TYPE, false), // the probe of register_raw
                (1, 0, dw, false), // the probe register_raw used to make (zero-length send)
                (1, 1, dw, false), // wake, method Send
                (1, 1, dw, true),
                (0, 1, 0, true),   // wake, method Write after set_flags
                (0, 1, 0, false),  // what a write would do had O_NONBLOCK not been set
                (1, 1, 0, false),  // what a send would do without MSG_DONTWAIT
            ];
            for (sys, len, flags, nb) in rows {
                measure(kind, full, oe, sys, len, flags, nb);
            }
        }
    }
    0
}

fn run_history(hid: &str, v: &[i64]) -> i32 {
    unsafe {
        let mut p = 0usize;
        let nchan = v[p] as usize;
        p += 1;
        let mut chans: Vec<Chan> = Vec::new();
        for ch in 0..nchan {
            let (kind, blocking, mode, n, bufsize) = (v[p], v[p + 1], v[p + 2], v[p + 3], v[p + 4]);
            p += 5;
            // capacity: measured on a sibling built the same way
            let mut cap = 0usize;
            if kind <= 2 {
                let sib = make_chan(kind, blocking, bufsize);
                cap = fill(&sib, usize::MAX, if mode == 3 || mode == 4 { 0 } else { 1 });
                close_chan(&sib);
            }
            let c = make_chan(kind, blocking, bufsize);
            let (npre, prelen) = match mode {
                1 => (fill(&c, n as usize, 1), 1),
                2 => (fill(&c, usize::MAX, 1), 1),
                3 => (fill(&c, n as usize, 0), 0),
                4 => (fill(&c, usize::MAX, 0), 0),
                _ => (0, 1),
            };
            if mode == 2 || mode == 4 {
                cap = npre;
            }
            println!("{} C {} {} {} {}", hid, ch, cap, npre, prelen);
            chans.push(c);
        }
        for s in [libc::SIGUSR1, libc::SIGUSR2, 34, 35, 36, 37, 38, 39, 40] {
            libc::signal(s, libc::SIG_IGN);
        }
        libc::signal(libc::SIGPIPE, libc::SIG_IGN);
        std::panic::set_hook(Box::new(|_| {}));
        // (handed descriptor number, id if registered)
        let mut regs: Vec<(i32, Option<signal_hook::SigId>, usize)> = Vec::new();
        while p < v.len() {
            match v[p] {
                1 => {
                    let (g, sig, ch) = (v[p + 1], v[p + 2] as i32, v[p + 3] as usize);
                    p += 4;
                    let idx = regs.len() as i32;
                    let base = 200 + idx;
                    let fd = if ch < chans.len() && chans[ch].kind != K_INVALID {
                        libc::fcntl(chans[ch].w, libc::F_DUPFD, base)
                    } else {
                        base // not open
                    };
                    assert!(fd >= 0);
                    let r = std::panic::catch_unwind(|| {
                        if g != 0 {
                            signal_hook::low_level::pipe::register(sig, std::fs::File::from_raw_fd(fd))
                        } else {
                            signal_hook::low_level::pipe::register_raw(sig, fd)
                        }
                    });
                    let (outcome, id) = match r {
                        Ok(Ok(id)) => (0, Some(id)),
                        Ok(Err(_)) => (1, None),
                        Err(_) => (2, None),
                    };
                    let nb = if ch < chans.len() { is_nonblock(chans[ch].w) } else { 0 };
                    println!("{} 1 {} {} {}", hid, outcome, fd_open(fd), nb);
                    regs.push((fd, id, ch));
                }
                5 | 7 => {
                    // 7: the interrupted code's errno is a stale EINTR / EAGAIN when the signal arrives (the state
                    // of any poll- or read-loop after an interruption); what the delivery does may not depend on it
                    let stale = v[p] == 7;
                    let (sig, n) = (v[p + 1] as i32, v[p + 2]);
                    p += 3;
                    let t0 = Instant::now();
                    for k in 0..n {
                        if stale {
                            *libc::__errno_location() = if k % 2 == 0 { libc::EINTR } else { libc::EAGAIN };
                        }
                        libc::raise(sig);
                    }
                    println!("{} 5 {} {}", hid, n, t0.elapsed().as_millis());
                }
                3 => {
                    let (ch, n) = (v[p + 1] as usize, v[p + 2] as usize);
                    p += 3;
                    let (u, b, x) = if ch < chans.len() { drain(&chans[ch], n) } else { (0, 0, 0) };
                    println!("{} 3 {} {} {}", hid, u, b, x);
                }
                4 => {
                    let id = v[p + 1] as usize;
                    p += 2;
                    if id < regs.len() {
                        let removed = match regs[id].1.take() {
                            Some(sid) => signal_hook::low_level::unregister(sid) as i32,
                            None => 0,
                        };
                        println!("{} 4 {} {}", hid, removed, fd_open(regs[id].0));
                    } else {
                        println!("{} 4 0 -1", hid);
                    }
                }
                6 => {
                    p += 1;
                    // every descriptor number the library has closed is re-occupied by a fresh pipe;
                    // then every signal is delivered a few times: nothing may arrive in those pipes
                    // and none of them may get closed
                    let mut fresh: Vec<(i32, i32)> = Vec::new();
                    for (fd, _, _) in regs.iter() {
                        if fd_open(*fd) == 0 {
                            let mut fds = [-1i32; 2];
                            assert_eq!(libc::pipe(fds.as_mut_ptr()), 0);
                            assert_eq!(libc::dup2(fds[1], *fd), *fd);
                            libc::close(fds[1]);
                            set_nonblock(fds[0], true);
                            fresh.push((*fd, fds[0]));
                        }
                    }
                    for s in [libc::SIGUSR1, libc::SIGUSR2, 34, 35, 36] {
                        for _ in 0..3 {
                            libc::raise(s);
                        }
                    }
                    // unregistering again (stale ids were taken above; nothing left to remove) and
                    // dropping nothing: count foreign bytes
                    let mut foreign = 0usize;
                    let mut all_open = 1;
                    let mut buf = [0u8; 64];
                    for (fd, rd) in fresh.iter() {
                        let x = libc::read(*rd, buf.as_mut_ptr() as *mut libc::c_void, 64);
                        if x > 0 {
                            foreign += x as usize;
                        }
                        if fd_open(*fd) == 0 {
                            all_open = 0;
                        }
                    }
                    println!("{} 6 {} {} {}", hid, fresh.len(), foreign, all_open);
                }
                _ => {
                    println!("{} E bad-op {}", hid, v[p]);
                    return 3;
                }
            }
        }
        for (ch, c) in chans.iter().enumerate() {
            let (u, b, x) = drain(c, 0);
            let mut size: i64 = -1;
            if c.kind == K_FILE {
                let mut st: libc::stat = std::mem::zeroed();
                if libc::fstat(c.w, &mut st) == 0 {
                    size = st.st_size as i64;
                }
            }
            println!("{} 9 {} {} {} {} {} {}", hid, ch, u, b, x, if c.w >= 0 { is_nonblock(c.w) } else { 0 }, size);
        }
        std::io::stdout().flush().ok();
        0
    }
}

fn run() -> i32 {
    let stdin = std::io::stdin();
    let lines: Vec<String> = stdin.lock().lines().map(|l| l.unwrap()).collect();
    for line in lines {
        let toks: Vec<&str> = line.split_whitespace().collect();
        if toks.len() < 2 {
            continue;
        }
        let hid = toks[0].to_string();
        let v: Vec<i64> = toks[1..].iter().map(|t| t.parse().unwrap()).collect();
        std::io::stdout().flush().ok();
        // generous wall-clock bound: 4 s + 1 s per 20000 deliveries (a delivery takes microseconds)
        let mut total: i64 = 0;
        {
            let mut p = 1 + 5 * (v[0] as usize);
            while p < v.len() {
                match v[p] {
                    1 => p += 4,
                    5 | 7 => {
                        total += v[p + 2];
                        p += 3
                    }
                    3 => p += 3,
                    4 => p += 2,
                    _ => p += 1,
                }
            }
        }
        let out = run_child(|| run_history(&hid, &v), Duration::from_millis(4000 + (total as u64) / 20));
        println!("{} E {}", hid, out.text());
        std::io::stdout().flush().ok();
    }
    0
}

fn main() {
    let args: Vec<String> = std::env::args().collect();
    let code = match args.get(1).map(|s| s.as_str()) {
        Some("oracle") => oracle(),
        Some("run") => run(),
        _ => {
            eprintln!("usage: p_c13 oracle | run");
            2
        }
    };
    std::process::exit(code);
}
