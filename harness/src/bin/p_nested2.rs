//! Channel operations nested two deep at every pair of instruction boundaries (C06, C07, C08;
//! thorough tier; DESIGN 4.2).
//!
//! `p_nested2 <outer s|r> <mid s|r> <inner s|r> <fill>`
//!
//! The outer operation is single-stepped; at every trap k1 the process forks a child in which a
//! handler starts the middle operation, itself single-stepped; at every trap k2 of the middle
//! operation that child forks a grandchild in which a second-level handler runs the inner
//! operation to completion, after which the middle and the outer operation finish at full speed.
//! One fork per boundary pair; nothing of the library is hooked.  The grandchild prints
//!
//!   K <k1> <k2> O <ret> M <ret> I <ret> D <drained...> C <created> <once> <never> <twice>
//!   P <k1> <k2> <message>          a panic (exit code 3)
//! and a child that dies otherwise is reported by its parent as
//!   X <k1> <k2> <how>
//! Boundaries after the end of an operation are covered by the runs in which the nested
//! operation is started when the enclosing one has returned (k = last + 1).
//! Tags as in p_nested: set-up 0..fill-1, then outer, middle, inner sends in that order.
#![cfg(all(target_os = "linux", target_arch = "x86_64"))]
use std::arch::asm;
use std::ptr;
use std::sync::atomic::{AtomicBool, AtomicPtr, AtomicU32, AtomicUsize, Ordering};

use signal_hook::low_level::channel::Channel;

const NIDS: usize = 16;
#[allow(clippy::declare_interior_mutable_const)]
const Z: AtomicU32 = AtomicU32::new(0);
static DROPS: [AtomicU32; NIDS] = [Z; NIDS];
static CREATED: AtomicUsize = AtomicUsize::new(0);

struct V(usize);
impl V {
    fn new(tag: usize) -> V {
        CREATED.fetch_add(1, Ordering::Relaxed);
        V(tag)
    }
}
impl Drop for V {
    fn drop(&mut self) {
        DROPS[self.0 % NIDS].fetch_add(1, Ordering::Relaxed);
    }
}

const TF: i64 = 0x100;
static LEVEL: AtomicUsize = AtomicUsize::new(0); // 0: stepping the outer op, 1: stepping the middle op
static ARMED: AtomicBool = AtomicBool::new(false);
static K1: AtomicUsize = AtomicUsize::new(0);
static K2: AtomicUsize = AtomicUsize::new(0);
static STEP1: AtomicUsize = AtomicUsize::new(0);
static STEP2: AtomicUsize = AtomicUsize::new(0);
static MID_SEND: AtomicBool = AtomicBool::new(false);
static INNER_SEND: AtomicBool = AtomicBool::new(false);
static MID_TAG: AtomicUsize = AtomicUsize::new(0);
static INNER_TAG: AtomicUsize = AtomicUsize::new(0);
static MID_RET: AtomicUsize = AtomicUsize::new(0);
static INNER_RET: AtomicUsize = AtomicUsize::new(0);
static MID_DONE: AtomicBool = AtomicBool::new(false);
static INNER_DONE: AtomicBool = AtomicBool::new(false);
static IS_CHILD: AtomicBool = AtomicBool::new(false);
static IS_LEAF: AtomicBool = AtomicBool::new(false);
static CHAN: AtomicPtr<Channel<V>> = AtomicPtr::new(ptr::null_mut());

fn out(s: &str) {
    unsafe { libc::write(1, s.as_ptr() as *const libc::c_void, s.len()) };
}
fn ret_of(r: Option<V>) -> usize {
    match r {
        Some(v) => v.0 + 1,
        None => 0,
    }
}
#[inline(always)]
unsafe fn trap_flag_on() {
    asm!("pushfq", "or qword ptr [rsp], 0x100", "popfq");
}
#[inline(always)]
unsafe fn trap_flag_off() {
    asm!("pushfq", "and qword ptr [rsp], -257", "popfq");
}

fn run_inner() {
    let chan = unsafe { &*CHAN.load(Ordering::Relaxed) };
    if INNER_SEND.load(Ordering::Relaxed) {
        chan.send(V::new(INNER_TAG.load(Ordering::Relaxed)));
        INNER_RET.store(0, Ordering::Relaxed);
    } else {
        INNER_RET.store(ret_of(chan.recv()), Ordering::Relaxed);
    }
    INNER_DONE.store(true, Ordering::Relaxed);
}

/// the middle operation, single-stepped (level 1); runs inside the level-0 trap handler
fn run_mid_stepped() {
    let chan = unsafe { &*CHAN.load(Ordering::Relaxed) };
    STEP2.store(0, Ordering::Relaxed);
    LEVEL.store(1, Ordering::Relaxed);
    ARMED.store(true, Ordering::Relaxed);
    let send = MID_SEND.load(Ordering::Relaxed);
    let val = if send { Some(V::new(MID_TAG.load(Ordering::Relaxed))) } else { None };
    let r;
    unsafe { trap_flag_on() };
    if let Some(v) = val {
        chan.send(v);
        r = 0;
    } else {
        r = ret_of(chan.recv());
    }
    unsafe { trap_flag_off() };
    ARMED.store(false, Ordering::Relaxed);
    MID_RET.store(r, Ordering::Relaxed);
    MID_DONE.store(true, Ordering::Relaxed);
    if !IS_LEAF.load(Ordering::Relaxed) {
        // this process stepped the whole middle operation without running the inner one: it is the
        // run "inner after the middle operation has returned"
        K2.store(STEP2.load(Ordering::Relaxed) + 1, Ordering::Relaxed);
        IS_LEAF.store(true, Ordering::Relaxed);
        run_inner();
    }
}

fn reap(pid: libc::pid_t, k1: usize, k2: usize) {
    let mut st = 0;
    unsafe { libc::waitpid(pid, &mut st, 0) };
    if !(libc::WIFEXITED(st) && (libc::WEXITSTATUS(st) == 0 || libc::WEXITSTATUS(st) == 3)) {
        let why = if libc::WIFSIGNALED(st) { format!("signal {}", libc::WTERMSIG(st)) } else { format!("exit {}", libc::WEXITSTATUS(st)) };
        out(&format!("X {} {} {}\n", k1, k2, why));
    }
}

extern "C" fn on_trap(_sig: libc::c_int, _info: *mut libc::siginfo_t, ctx: *mut libc::c_void) {
    if !ARMED.load(Ordering::Relaxed) {
        return;
    }
    let uc = ctx as *mut libc::ucontext_t;
    if LEVEL.load(Ordering::Relaxed) == 0 {
        let k1 = STEP1.fetch_add(1, Ordering::Relaxed) + 1;
        let pid = unsafe { libc::fork() };
        if pid == 0 {
            IS_CHILD.store(true, Ordering::Relaxed);
            K1.store(k1, Ordering::Relaxed);
            unsafe { libc::alarm(20) };
            ARMED.store(false, Ordering::Relaxed);
            run_mid_stepped();
            // the outer operation continues at full speed
            unsafe { (*uc).uc_mcontext.gregs[libc::REG_EFL as usize] &= !TF };
        } else if pid > 0 {
            reap(pid, k1, 0);
        }
    } else {
        let k2 = STEP2.fetch_add(1, Ordering::Relaxed) + 1;
        let pid = unsafe { libc::fork() };
        if pid == 0 {
            IS_LEAF.store(true, Ordering::Relaxed);
            K2.store(k2, Ordering::Relaxed);
            unsafe { libc::alarm(10) };
            ARMED.store(false, Ordering::Relaxed);
            run_inner();
            unsafe { (*uc).uc_mcontext.gregs[libc::REG_EFL as usize] &= !TF };
        } else if pid > 0 {
            reap(pid, K1.load(Ordering::Relaxed), k2);
        }
    }
}

fn main() {
    let a: Vec<String> = std::env::args().collect();
    if a.len() < 5 {
        eprintln!("usage: p_nested2 <outer s|r> <mid s|r> <inner s|r> <fill>");
        std::process::exit(2);
    }
    let (outer_send, mid_send, inner_send) = (a[1] == "s", a[2] == "s", a[3] == "s");
    let fill: usize = a[4].parse().unwrap();
    std::panic::set_hook(Box::new(|info| {
        let msg = if let Some(s) = info.payload().downcast_ref::<&str>() { s.to_string() }
                  else if let Some(s) = info.payload().downcast_ref::<String>() { s.clone() } else { "?".to_string() };
        out(&format!("P {} {} {}\n", K1.load(Ordering::Relaxed), K2.load(Ordering::Relaxed), msg.replace('\n', " ")));
        unsafe { libc::_exit(3) };
    }));
    unsafe {
        let mut sa: libc::sigaction = std::mem::zeroed();
        sa.sa_sigaction = on_trap as *const () as usize;
        // the second-level traps arrive while the first-level handler is running
        sa.sa_flags = libc::SA_SIGINFO | libc::SA_NODEFER;
        libc::sigemptyset(&mut sa.sa_mask);
        assert_eq!(0, libc::sigaction(libc::SIGTRAP, &sa, ptr::null_mut()));
    }
    let chan = Channel::<V>::new();
    for i in 0..fill {
        chan.send(V::new(i));
    }
    let mut tag = fill;
    let outer_tag = tag;
    if outer_send { tag += 1; }
    MID_TAG.store(tag, Ordering::Relaxed);
    if mid_send { tag += 1; }
    INNER_TAG.store(tag, Ordering::Relaxed);
    MID_SEND.store(mid_send, Ordering::Relaxed);
    INNER_SEND.store(inner_send, Ordering::Relaxed);
    CHAN.store(&chan as *const _ as *mut _, Ordering::Relaxed);
    let outer_val = if outer_send { Some(V::new(outer_tag)) } else { None };
    LEVEL.store(0, Ordering::Relaxed);
    ARMED.store(true, Ordering::Relaxed);
    let outer_ret;
    unsafe { trap_flag_on() };
    if let Some(v) = outer_val {
        chan.send(v);
        outer_ret = 0;
    } else {
        outer_ret = ret_of(chan.recv());
    }
    unsafe { trap_flag_off() };
    ARMED.store(false, Ordering::Relaxed);
    if !IS_CHILD.load(Ordering::Relaxed) {
        // the top process stepped the whole outer operation: the middle one starts after it
        K1.store(STEP1.load(Ordering::Relaxed) + 1, Ordering::Relaxed);
        IS_CHILD.store(true, Ordering::Relaxed);
        let top = unsafe { libc::fork() };
        if top == 0 {
            unsafe { libc::alarm(20) };
            run_mid_stepped();
        } else {
            reap(top, K1.load(Ordering::Relaxed), 0);
            out(&format!("E {}\n", STEP1.load(Ordering::Relaxed)));
            unsafe { libc::_exit(0) };
        }
    }
    if !IS_LEAF.load(Ordering::Relaxed) || !MID_DONE.load(Ordering::Relaxed) || !INNER_DONE.load(Ordering::Relaxed) {
        // a first-level child that has handed every boundary of its middle operation to a leaf
        unsafe { libc::_exit(0) };
    }
    let mut drained = Vec::new();
    loop {
        let r = ret_of(chan.recv());
        if r == 0 || drained.len() > 8 {
            break;
        }
        drained.push(r);
    }
    CHAN.store(ptr::null_mut(), Ordering::Relaxed);
    drop(chan);
    let created = CREATED.load(Ordering::Relaxed);
    let (mut once, mut never, mut twice) = (0, 0, 0);
    for i in 0..created.min(NIDS) {
        match DROPS[i].load(Ordering::Relaxed) {
            0 => never += 1,
            1 => once += 1,
            _ => twice += 1,
        }
    }
    let mut line = format!("K {} {} O {} M {} I {} D", K1.load(Ordering::Relaxed), K2.load(Ordering::Relaxed), outer_ret,
                           MID_RET.load(Ordering::Relaxed), INNER_RET.load(Ordering::Relaxed));
    for d in &drained {
        line.push_str(&format!(" {}", d));
    }
    line.push_str(&format!(" C {} {} {} {}\n", created, once, never, twice));
    out(&line);
    unsafe { libc::_exit(0) };
}
