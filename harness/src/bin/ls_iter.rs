//! Lock-step driver for the signal iterators (C09, C10, C11; DESIGN 4.2, 5.9-5.11).
//! stdin: one scenario per line (integers):
//!   exraw cap  nsetup sig*  nacts (kind a b)*  nscript (op arg)*  nsched act*
//! activity kinds: 1 delivery of signal a carrying marker b (the dispatcher is called on the
//! activity's thread, as the kernel would), 2 the consumer running the script, 3 close(),
//! 4 add_signal(a), 5 a scanner: another thread draining the a-th of the batches handed out by
//! `pending()` calls made during set-up (the consumer's own batches are numbered after them).  Script ops: 1 pending, 2 wait, 3 forever / SignalIterator::new,
//! 4 Forever::next, 5 poll_signal with a non-blocking readiness callback (its presence selects the
//! backend::SignalDelivery + OwningSignalIterator set-up the async adapters use), 6 one next() on
//! the arg-th batch handed out so far, 7 drain that batch.
//! stdout: one line per scenario
//!   `T <6 ints per line>... | F <finished> | P <panicked> | S <stuck> <drain steps> | Y <final yields> | X <probes ok>`
//! with the trace filtered to the iterator-level locations and canonicalised exactly like the
//! events of coq/iter/Run.v (see there).  Each scenario runs in a forked child.
use sh_harness::sched::{self, Activity, OP_START};
use signal_hook::iterator::backend::{OwningSignalIterator, PollResult, SignalDelivery};
use signal_hook::iterator::exfiltrator::{Exfiltrator, SignalOnly, WithRawSiginfo};
use signal_hook::iterator::{Handle, Pending, SignalsInfo};
use signal_hook_registry as reg;
use std::io::{BufRead, Read, Write};
use std::os::unix::io::{AsRawFd, FromRawFd};
use std::os::unix::net::UnixStream;
use std::sync::{Arc, Mutex};

#[global_allocator]
static ALLOC: sched::CountingAlloc = sched::CountingAlloc;

struct Scenario {
    exraw: bool,
    setup: Vec<i32>,
    acts: Vec<(i64, i64, i64)>,
    script: Vec<(i64, i64)>,
    sched: Vec<(usize, u8)>,
}

fn decode(v: &[i64]) -> Scenario {
    let mut i = 0;
    let mut take = |n: usize| {
        let s = v[i..i + n].to_vec();
        i += n;
        s
    };
    let hd = take(2);
    let ns = take(1)[0] as usize;
    let setup = take(ns).iter().map(|x| *x as i32).collect();
    let na = take(1)[0] as usize;
    let acts = (0..na).map(|_| { let t = take(3); (t[0], t[1], t[2]) }).collect();
    let nscr = take(1)[0] as usize;
    let script = (0..nscr).map(|_| { let t = take(2); (t[0], t[1]) }).collect();
    let nsch = take(1)[0] as usize;
    let sched = (0..nsch).map(|_| (take(1)[0] as usize, 0u8)).collect();
    Scenario { exraw: hd[0] == 1, setup, acts, script, sched }
}

/// The record a simulated delivery carries: every word after si_signo/si_errno/si_code is a
/// function of the marker, so a torn or swapped copy is recognisable.
fn make_info(sig: i32, marker: i64) -> libc::siginfo_t {
    let mut info: libc::siginfo_t = unsafe { std::mem::zeroed() };
    let words = unsafe { std::slice::from_raw_parts_mut(&mut info as *mut _ as *mut i32, std::mem::size_of::<libc::siginfo_t>() / 4) };
    for (k, w) in words.iter_mut().enumerate() {
        *w = (marker as i32).wrapping_mul(1000).wrapping_add(k as i32);
    }
    info.si_signo = sig;
    info.si_errno = 0;
    info.si_code = -1; // SI_QUEUE
    info
}

/// marker of a faithful record of signal `sig`, or a negative number describing the damage
fn check_info(info: &libc::siginfo_t) -> (i32, i64) {
    let words = unsafe { std::slice::from_raw_parts(info as *const _ as *const i32, std::mem::size_of::<libc::siginfo_t>() / 4) };
    let marker = (words[3] - 3) / 1000;
    let mut good = info.si_errno == 0 && info.si_code == -1;
    for (k, w) in words.iter().enumerate().skip(3) {
        if *w != marker.wrapping_mul(1000).wrapping_add(k as i32) {
            good = false;
        }
    }
    (info.si_signo, if good { marker as i64 } else { -1 })
}

unsafe fn deliver(sig: i32, marker: i64) {
    let mut old: libc::sigaction = std::mem::zeroed();
    libc::sigaction(sig, std::ptr::null(), &mut old);
    let mut info = make_info(sig, marker);
    let mut ctx: u64 = 0;
    let ip = &mut info as *mut libc::siginfo_t;
    let cp = &mut ctx as *mut u64 as *mut libc::c_void;
    if old.sa_sigaction == reg::verif_api::handler_addr() {
        sched::user_note(OP_START, 0, sig as i64, marker);
        sched::in_delivery(|| reg::verif_api::dispatch(sig, ip, cp));
    } else {
        sched::user_note(OP_START, 0, sig as i64, -1);
    }
    sched::user_note(37, 0, sig as i64, marker);
}

fn note(op: i64, arg: i64, res: i64) {
    sched::user_note(op, 0, arg, res);
}

/// batch numbers in the script count the `off` set-up batches of the scanners first
fn bat_op<E: Exfiltrator>(batches: &mut Vec<Pending<E>>, op: i64, k: i64, conv: &dyn Fn(&E::Output) -> i64, off: i64) {
    if op == 6 {
        note(33, k, 0);
        match (if k >= off { batches.get_mut((k - off) as usize) } else { None }).and_then(|b| b.next()) {
            Some(v) => note(34, 1, conv(&v)),
            None => note(34, 0, 0),
        }
    } else {
        note(33, 1000 + k, 0);
        // a batch can hold at most MAX_SIGNUM * 5 records; more means next() never ends
        for round in 0..700 {
            match (if k >= off { batches.get_mut((k - off) as usize) } else { None }).and_then(|b| b.next()) {
                Some(v) => note(34, 1, conv(&v)),
                None => {
                    note(34, 0, 0);
                    break;
                }
            }
            if round == 699 {
                note(95, k, 0);
            }
        }
    }
}

/// Another thread draining a batch it was handed (activity kind 5).
fn scanner<E: Exfiltrator + 'static>(mut b: Pending<E>, k: i64, conv: Box<dyn Fn(&E::Output) -> i64 + Send>) -> Activity
where
    Pending<E>: Send,
{
    Box::new(move || {
        note(33, 1000 + k, 0);
        for round in 0..700 {
            match b.next() {
                Some(v) => note(34, 1, conv(&v)),
                None => {
                    note(34, 0, 0);
                    break;
                }
            }
            if round == 699 {
                note(95, k, 0);
            }
        }
    })
}

/// The synchronous front end: SignalsInfo::{pending, wait, forever} + Forever::next.
fn script_sync<E: Exfiltrator>(signals: &mut SignalsInfo<E>, script: &[(i64, i64)], conv: &dyn Fn(&E::Output) -> i64, nscan: i64) {
    let mut batches: Vec<Pending<E>> = Vec::new();

    let mut i = 0;
    while i < script.len() {
        let (op, arg) = script[i];
        i += 1;
        match op {
            1 => {
                note(30, 1, 0);
                let b = signals.pending();
                batches.push(b);
                note(32, 1, 0);
            }
            2 => {
                note(30, 2, 0);
                let b = signals.wait();
                batches.push(b);
                note(32, 1, 0);
            }
            3 => {
                note(30, 3, 0);
                let mut f = signals.forever();
                note(32, 2, 0);
                while i < script.len() {
                    let (op2, arg2) = script[i];
                    match op2 {
                        4 => {
                            note(30, 4, 0);
                            match f.next() {
                                Some(v) => note(32, 3, conv(&v)),
                                None => note(32, 5, 0),
                            }
                        }
                        6 | 7 => bat_op(&mut batches, op2, arg2, conv, nscan),
                        _ => break,
                    }
                    i += 1;
                }
            }
            6 | 7 => bat_op(&mut batches, op, arg, conv, nscan),
            _ => note(96, op, 0),
        }
    }
}

/// The set-up of the asynchronous adapters: SignalDelivery::with_pipe + OwningSignalIterator and
/// poll_signal with a readiness callback that never blocks and records its consultations.
fn script_async(delivery: SignalDelivery<UnixStream, SignalOnly>, script: &[(i64, i64)]) -> Option<OwningSignalIterator<UnixStream, SignalOnly>> {
    let mut delivery = Some(delivery);
    let mut iter: Option<OwningSignalIterator<UnixStream, SignalOnly>> = None;
    let mut batches: Vec<Pending<SignalOnly>> = Vec::new();
    let conv = |v: &libc::c_int| *v as i64;
    for &(op, arg) in script {
        match op {
            1 if delivery.is_some() => {
                note(30, 1, 0);
                let b = delivery.as_mut().unwrap().pending();
                batches.push(b);
                note(32, 1, 0);
            }
            3 if delivery.is_some() => {
                note(30, 3, 0);
                iter = Some(OwningSignalIterator::new(delivery.take().unwrap()));
                note(32, 2, 0);
            }
            5 if iter.is_some() => {
                note(30, 5, 0);
                let r = iter.as_mut().unwrap().poll_signal(&mut nb_callback);
                match r {
                    PollResult::Signal(v) => note(32, 3, v as i64),
                    PollResult::Pending => note(32, 4, 0),
                    PollResult::Closed => note(32, 5, 0),
                    PollResult::Err(_) => note(32, 9, 0),
                }
            }
            6 | 7 => bat_op(&mut batches, op, arg, &conv, 0),
            _ => note(96, op, 0),
        }
    }
    iter
}

fn nb_callback(read: &mut UnixStream) -> Result<bool, std::io::Error> {
    let fd = read.as_raw_fd();
    sched::user_point(36, 3, 0, 0);
    let mut b = [0u8; 1];
    let n = unsafe { libc::recv(fd, b.as_mut_ptr() as *mut libc::c_void, 1, libc::MSG_DONTWAIT) };
    sched::user_note(31, 3, 0, (n > 0) as i64);
    Ok(n > 0)
}

struct Probes {
    closed_addr: i64,
    slot_base: i64,
}

fn run_scenario(sc: Scenario) -> String {
    let layout = reg::verif_api::layout();
    sched::init();
    let is_async = sc.script.iter().any(|o| o.0 == 5);
    // the consumer hands its object back (inside a closure performing the final drain), to be run
    // by the main thread after the scheduled part
    let final_drain: Arc<Mutex<Option<Box<dyn FnOnce() -> Vec<i64> + Send>>>> = Arc::new(Mutex::new(None));
    let mut acts: Vec<Activity> = Vec::new();
    let handle: Handle;
    let mut consumer: Option<Activity> = None;
    let nscan = sc.acts.iter().filter(|a| a.0 == 5).count() as i64;
    let mut scanners: Vec<Option<Activity>> = Vec::new();
    if is_async {
        let (read, write) = UnixStream::pair().unwrap();
        let mut delivery = SignalDelivery::with_pipe(read, write, SignalOnly, sc.setup.iter()).unwrap();
        handle = delivery.handle();
        // probes: is_closed() loads the flag; a scan of an (empty) batch starts at slot 0
        let _ = handle.is_closed();
        let _ = delivery.pending().next();
        let script = sc.script.clone();
        let fd = final_drain.clone();
        consumer = Some(Box::new(move || {
            let it = script_async(delivery, &script);
            if let Some(mut it) = it {
                *fd.lock().unwrap() = Some(Box::new(move || {
                    let mut out = Vec::new();
                    for _ in 0..400 {
                        match it.poll_signal(&mut nb_callback) {
                            PollResult::Signal(v) => out.push(v as i64),
                            _ => break,
                        }
                    }
                    out
                }));
            }
        }));
    } else if sc.exraw {
        let mut signals = SignalsInfo::<WithRawSiginfo>::new(sc.setup.iter()).unwrap();
        handle = signals.handle();
        let _ = handle.is_closed();
        let _ = signals.pending().next();
        for k in 0..nscan {
            let conv = |v: &libc::siginfo_t| { let (sg, m) = check_info(v); if m < 0 { -1 } else { sg as i64 * 1_000_000 + m } };
            scanners.push(Some(scanner(signals.pending(), k, Box::new(conv))));
        }
        let script = sc.script.clone();
        let fd = final_drain.clone();
        consumer = Some(Box::new(move || {
            let conv = |v: &libc::siginfo_t| { let (sg, m) = check_info(v); if m < 0 { -1 } else { sg as i64 * 1_000_000 + m } };
            script_sync(&mut signals, &script, &conv, nscan);
            *fd.lock().unwrap() = Some(Box::new(move || signals.pending().take(700).map(|v| conv(&v)).collect()));
        }));
    } else {
        let mut signals = SignalsInfo::<SignalOnly>::new(sc.setup.iter()).unwrap();
        handle = signals.handle();
        let _ = handle.is_closed();
        let _ = signals.pending().next();
        for k in 0..nscan {
            scanners.push(Some(scanner(signals.pending(), k, Box::new(|v: &libc::c_int| *v as i64))));
        }
        let script = sc.script.clone();
        let fd = final_drain.clone();
        consumer = Some(Box::new(move || {
            let conv = |v: &libc::c_int| *v as i64;
            script_sync(&mut signals, &script, &conv, nscan);
            *fd.lock().unwrap() = Some(Box::new(move || signals.pending().take(700).map(|v| v as i64).collect()));
        }));
    }
    for &(k, a, b) in &sc.acts {
        let h = handle.clone();
        acts.push(match k {
            1 => Box::new(move || unsafe { deliver(a as i32, b) }),
            2 => consumer.take().unwrap_or_else(|| Box::new(|| {})),
            3 => Box::new(move || {
                note(30, 10, 0);
                h.close();
                note(32, 10, 0);
            }),
            5 => scanners.get_mut(a as usize).and_then(|s| s.take()).unwrap_or_else(|| Box::new(|| {})),
            _ => Box::new(move || {
                note(30, 11, a);
                let r = h.add_signal(a as i32);
                note(32, 11, r.is_ok() as i64);
            }),
        });
    }
    let res = sched::run(acts, &sc.sched, true, 4000);
    let f = final_drain.lock().unwrap().take();
    let (y, drained) = match f {
        Some(f) => (f(), true),
        None => (Vec::new(), false),
    };
    canonical(&res, &layout, &y, drained)
}

fn canonical(res: &sched::RunResult, layout: &[[usize; 6]; 2], y: &[i64], drained: bool) -> String {
    let mut reg_addrs: Vec<i64> = Vec::new();
    for l in layout.iter() {
        for j in 0..5 {
            reg_addrs.push(l[j] as i64);
        }
    }
    let data_ptr = layout[0][0] as i64;
    // probes from the set-up lines: first Load = closed flag, first Cas = slot 0
    let mut pr = Probes { closed_addr: -1, slot_base: -1 };
    for l in &res.trace {
        if l.act >= 0 {
            continue;
        }
        if reg_addrs.contains(&l.loc) {
            continue;
        }
        if l.op == 0 && pr.closed_addr < 0 && l.ord == 4 {
            pr.closed_addr = l.loc;
        }
        if l.op == 5 && pr.slot_base < 0 {
            pr.slot_base = l.loc;
        }
    }
    let mut out: Vec<[i64; 6]> = Vec::new();
    for l in &res.trace {
        if l.act < 0 {
            continue;
        }
        let mut c = [l.act, l.op, 0, l.arg, l.res, l.ok];
        match l.op {
            0 | 1 | 5 => {
                if l.loc == pr.closed_addr {
                    c[2] = 1;
                } else if pr.slot_base >= 0 && l.loc >= pr.slot_base && l.loc < pr.slot_base + 128 {
                    c[2] = 100 + (l.loc - pr.slot_base);
                } else {
                    continue;
                }
            }
            2 => {
                if l.loc == data_ptr {
                    c[2] = 5;
                    c[3] = 0;
                    c[4] = 0;
                } else {
                    continue;
                }
            }
            6 | 7 => {
                if reg_addrs.contains(&l.loc) {
                    continue;
                }
                c[2] = 4;
                c[3] = 0;
                c[4] = 0;
            }
            15 => {
                c[2] = if l.arg == 1 { 2 } else { 3 };
            }
            24 => {
                c[2] = 3;
            }
            20 | 30..=37 | 95 => {
                c[2] = l.loc;
            }
            _ => continue,
        }
        out.push(c);
    }
    let mut s = String::from("T");
    for c in &out {
        for x in c.iter() {
            s.push(' ');
            s.push_str(&x.to_string());
        }
    }
    s.push_str(" | F");
    for f in &res.finished { s.push_str(if *f { " 1" } else { " 0" }); }
    s.push_str(" | P");
    for f in &res.panicked { s.push_str(if *f { " 1" } else { " 0" }); }
    s.push_str(&format!(" | S {} {}", res.stuck as i32, res.drain_steps));
    s.push_str(if drained { " | Y 1" } else { " | Y 0" });
    for v in y { s.push_str(&format!(" {}", v)); }
    s.push_str(&format!(" | X {} {}", (pr.closed_addr >= 0) as i32, (pr.slot_base >= 0) as i32));
    s.push_str(&format!(
        " | A {} {}",
        sched::ALLOCS_IN_DELIVERY.load(std::sync::atomic::Ordering::SeqCst),
        sched::FREES_IN_DELIVERY.load(std::sync::atomic::Ordering::SeqCst)
    ));
    s
}

fn main() {
    let stdin = std::io::stdin();
    for line in stdin.lock().lines() {
        let line = line.unwrap();
        let v: Vec<i64> = line.split_whitespace().filter_map(|t| t.parse().ok()).collect();
        if v.is_empty() {
            println!();
            continue;
        }
        unsafe {
            let mut fds = [0i32; 2];
            libc::pipe(fds.as_mut_ptr());
            let pid = libc::fork();
            if pid == 0 {
                libc::close(fds[0]);
                libc::alarm(30);
                let r = std::panic::catch_unwind(|| run_scenario(decode(&v)));
                let s = match r { Ok(s) => s, Err(_) => "!panic".to_string() };
                let mut f = std::fs::File::from_raw_fd(fds[1]);
                let _ = f.write_all(s.as_bytes());
                drop(f);
                libc::_exit(0);
            }
            libc::close(fds[1]);
            let mut f = std::fs::File::from_raw_fd(fds[0]);
            let mut s = String::new();
            let _ = f.read_to_string(&mut s);
            let mut st = 0;
            libc::waitpid(pid, &mut st, 0);
            if s.is_empty() {
                s = format!("!died status={}", st);
            }
            println!("{}", s);
        }
    }
}
