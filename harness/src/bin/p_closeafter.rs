//! close() after rejected additions (C11: close is sticky and releases every consumer - in every
//! history; C12: after a rejected add_signal later calls behave normally).
//!
//! Each history runs in a forked child: an instance watching SIGUSR1, a sequence of add_signal
//! calls that are rejected (by panic: forbidden / negative / >= 128; by error: numbers the OS
//! refuses), each under catch_unwind, then close() - through the object's handle or through an
//! older clone - under catch_unwind, and what can be observed afterwards.
//!
//!   stdin : one history per line:  <exf 0|1> <via 0|1> <n> <sig>*n
//!   stdout: <rejections seen> <close panicked 0|1> <is_closed 0|1> <wait returned 0|1> <forever ended 0|1> <second close panicked 0|1> | <how the child ended>
use sh_harness::forked::{run_child, Outcome};
use signal_hook::iterator::exfiltrator::{Exfiltrator, SignalOnly, WithRawSiginfo};
use signal_hook::iterator::SignalsInfo;
use std::io::{BufRead, Read, Write};
use std::os::unix::io::FromRawFd;
use std::panic::{catch_unwind, AssertUnwindSafe};
use std::sync::mpsc;
use std::time::Duration;

fn history<E: Exfiltrator + Send + 'static>(exf: E, via: bool, sigs: &[i32]) -> String
where
    E::Output: Send,
{
    std::panic::set_hook(Box::new(|_| {}));
    let mut signals = SignalsInfo::with_exfiltrator(&[libc::SIGUSR1], exf).unwrap();
    let old = signals.handle();
    let mut rejected = 0;
    for &s in sigs {
        let h = signals.handle();
        match catch_unwind(AssertUnwindSafe(|| h.add_signal(s))) {
            Ok(Ok(())) => {}
            _ => rejected += 1,
        }
    }
    let closer = if via { old } else { signals.handle() };
    let close_panicked = catch_unwind(AssertUnwindSafe(|| closer.close())).is_err();
    let is_closed = signals.is_closed();
    let h2 = signals.handle();
    // a consumer that starts now must come back from wait() and its forever() must end
    let (tx, rx) = mpsc::channel();
    std::thread::spawn(move || {
        let n = signals.wait().count();
        let _ = tx.send((1, n));
        let ended = signals.forever().next().is_none();
        let _ = tx.send((2, ended as usize));
    });
    let mut wait_ret = 0;
    let mut forever_end = 0;
    for _ in 0..2 {
        match rx.recv_timeout(Duration::from_secs(2)) {
            Ok((1, _)) => wait_ret = 1,
            Ok((2, e)) => forever_end = e,
            _ => break,
        }
    }
    let second = catch_unwind(AssertUnwindSafe(|| h2.close())).is_err();
    format!("{} {} {} {} {} {}", rejected, close_panicked as i32, is_closed as i32, wait_ret, forever_end, second as i32)
}

fn main() {
    let stdin = std::io::stdin();
    for line in stdin.lock().lines() {
        let line = line.unwrap();
        let v: Vec<i64> = line.split_whitespace().filter_map(|t| t.parse().ok()).collect();
        if v.len() < 3 {
            println!();
            continue;
        }
        let mut fds = [0i32; 2];
        unsafe { libc::pipe(fds.as_mut_ptr()) };
        let (rd, wr) = (fds[0], fds[1]);
        let sigs: Vec<i32> = v[3..3 + v[2] as usize].iter().map(|&x| x as i32).collect();
        let out = run_child(
            move || {
                unsafe { libc::close(rd) };
                let s = if v[0] == 1 { history(WithRawSiginfo::default(), v[1] == 1, &sigs) } else { history(SignalOnly::default(), v[1] == 1, &sigs) };
                let mut f = unsafe { std::fs::File::from_raw_fd(wr) };
                let _ = f.write_all(s.as_bytes());
                0
            },
            Duration::from_secs(15),
        );
        unsafe { libc::close(wr) };
        let mut f = unsafe { std::fs::File::from_raw_fd(rd) };
        let mut s = String::new();
        let _ = f.read_to_string(&mut s);
        let how = match out {
            Outcome::Exited(c) => format!("exit:{}", c),
            Outcome::Signaled(c) => format!("sig:{}", c),
            Outcome::Stopped(c) => format!("stop:{}", c),
            Outcome::Timeout => "timeout".to_string(),
        };
        println!("{} | {}", if s.is_empty() { "-".to_string() } else { s }, how);
    }
}
