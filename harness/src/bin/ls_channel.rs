//! Lock-step driver for signal_hook::low_level::channel::Channel (C06, C07, C08).
//!
//! stdin: one request per line.
//!   `S nsetup (kind val)*  nacts (nops (kind val)*)*  nsched (act choice)*`
//!        scheduled scenario: set-up operations on the main thread, then the activities under the
//!        deterministic scheduler (choice 1 = the weak CAS of that step fails spuriously), then
//!        every unfinished activity round-robin, then a final drain (recv until None) on the main
//!        thread.  kind 1 = send(val), 2 = recv().
//!   `H n (kind val)*`   single-thread history without scheduler.
//! stdout, one line per request:
//!   S: `T <9 ints per trace line>... | F <finished> | P <panicked> | S <stuck> <drain steps> | B <drops per tag
//!       before the channel is dropped> | D <drops per tag after> | C <created per tag>`
//!      trace line = act op loc arg arg2 res ok ord ord_fail; act -1 = main thread (new(), set-up,
//!      final drain); loc 1 = empty, 2 = full, 3 = the channel (cell access, arg = slot index);
//!      op 23 = return of an operation (res = 0 for send / recv None, tag+1 for recv Some).
//!   H: `R <result per op: 0 | tag+1> | B ... | D ... | C ...`
use sh_harness::sched::{self, Activity, OP_RET};
use signal_hook::low_level::channel::Channel;
use std::io::{BufRead, Read, Write};
use std::os::unix::io::FromRawFd;
use std::sync::atomic::{AtomicUsize, Ordering};
use std::sync::Arc;

const MAXTAG: usize = 4096;
static CREATED: [AtomicUsize; MAXTAG] = [const { AtomicUsize::new(0) }; MAXTAG];
static DROPPED: [AtomicUsize; MAXTAG] = [const { AtomicUsize::new(0) }; MAXTAG];

/// Payload with a destructor: counts constructions and destructions per tag.
struct Payload {
    tag: usize,
}
impl Payload {
    fn new(tag: usize) -> Payload {
        CREATED[tag % MAXTAG].fetch_add(1, Ordering::SeqCst);
        Payload { tag }
    }
}
impl Drop for Payload {
    fn drop(&mut self) {
        DROPPED[self.tag % MAXTAG].fetch_add(1, Ordering::SeqCst);
    }
}

fn do_op(ch: &Channel<Payload>, kind: i64, val: i64) -> i64 {
    let r = match kind {
        1 => {
            ch.send(Payload::new(val as usize));
            0
        }
        _ => match ch.recv() {
            Some(p) => p.tag as i64 + 1,
            None => 0,
        },
    };
    sched::user_note(OP_RET, 0, 0, r);
    r
}

struct Scenario {
    setup: Vec<(i64, i64)>,
    acts: Vec<Vec<(i64, i64)>>,
    sched: Vec<(usize, u8)>,
}

fn decode(v: &[i64]) -> Scenario {
    let mut i = 0;
    let mut next = || {
        let x = v.get(i).copied().unwrap_or(0);
        i += 1;
        x
    };
    let ns = next() as usize;
    let setup = (0..ns).map(|_| { let k = next(); let x = next(); (k, x) }).collect();
    let na = next() as usize;
    let mut acts = Vec::new();
    for _ in 0..na {
        let n = next() as usize;
        acts.push((0..n).map(|_| { let k = next(); let x = next(); (k, x) }).collect());
    }
    let nsch = next() as usize;
    let sched = (0..nsch).map(|_| { let a = next() as usize; let c = next() as u8; (a, c) }).collect();
    Scenario { setup, acts, sched }
}

fn counters(maxtag: usize) -> (String, String) {
    let d: Vec<String> = (0..maxtag).map(|t| DROPPED[t].load(Ordering::SeqCst).to_string()).collect();
    let c: Vec<String> = (0..maxtag).map(|t| CREATED[t].load(Ordering::SeqCst).to_string()).collect();
    (d.join(" "), c.join(" "))
}

fn run_scenario(sc: Scenario) -> String {
    let maxtag = sc.setup.iter().chain(sc.acts.iter().flatten()).filter(|o| o.0 == 1).map(|o| o.1 as usize + 1).max().unwrap_or(0).min(MAXTAG);
    sched::init();
    let ch: Arc<Channel<Payload>> = Arc::new(Channel::new());
    let addrs = ch.verif_addrs();
    let chan_addr = &*ch as *const Channel<Payload> as usize;
    for &(k, x) in &sc.setup {
        do_op(&ch, k, x);
    }
    let mut acts: Vec<Activity> = Vec::new();
    for ops in &sc.acts {
        let ops = ops.clone();
        let ch2 = ch.clone();
        acts.push(Box::new(move || {
            for (k, x) in ops {
                do_op(&ch2, k, x);
            }
        }));
    }
    let res = sched::run(acts, &sc.sched, true, 100000);
    // final drain (recv until None).  It runs as a single activity of a second scheduler run
    // because that is how the cumulative trace can be read back; its lines are relabelled -1.
    let len1 = res.trace.len();
    let mut trace = res.trace.clone();
    if !res.stuck && res.panicked.iter().all(|p| !*p) {
        let ch3 = ch.clone();
        let drain: Activity = Box::new(move || loop {
            if do_op(&ch3, 2, 0) == 0 {
                break;
            }
        });
        let res2 = sched::run(vec![drain], &[], true, 100000);
        trace = res2.trace.clone();
        for l in trace[len1..].iter_mut() {
            l.act = -1;
        }
    }
    let (before, _) = counters(maxtag);
    let unique = Arc::strong_count(&ch) == 1;
    if unique {
        drop(ch);
    }
    let (after, created) = counters(maxtag);
    let mut s = String::from("T");
    for l in &trace {
        let loc = if l.op == OP_RET {
            0
        } else if l.loc as usize == addrs[0] {
            1
        } else if l.loc as usize == addrs[1] {
            2
        } else if l.loc as usize == chan_addr {
            3
        } else {
            -1
        };
        for x in [l.act, l.op, loc, l.arg, l.arg2, l.res, l.ok, l.ord, l.ord_fail].iter() {
            s.push(' ');
            s.push_str(&x.to_string());
        }
    }
    s.push_str(" | F");
    for f in &res.finished { s.push_str(if *f { " 1" } else { " 0" }); }
    s.push_str(" | P");
    for f in &res.panicked { s.push_str(if *f { " 1" } else { " 0" }); }
    s.push_str(&format!(" | S {} {} {}", res.stuck as i32, res.drain_steps, unique as i32));
    s.push_str(&format!(" | B {} | D {} | C {}", before, after, created));
    s
}

fn run_history(ops: &[(i64, i64)]) -> String {
    let maxtag = ops.iter().filter(|o| o.0 == 1).map(|o| o.1 as usize + 1).max().unwrap_or(0).min(MAXTAG);
    // built the way WithRawSiginfo::init builds it (Box::default())
    let ch: Channel<Payload> = Channel::default();
    let mut s = String::from("R");
    for &(k, x) in ops {
        let r = match k {
            1 => {
                ch.send(Payload::new(x as usize));
                0
            }
            _ => ch.recv().map(|p| p.tag as i64 + 1).unwrap_or(0),
        };
        s.push_str(&format!(" {}", r));
    }
    let (before, _) = counters(maxtag);
    drop(ch);
    let (after, created) = counters(maxtag);
    s.push_str(&format!(" | B {} | D {} | C {}", before, after, created));
    s
}

fn main() {
    let stdin = std::io::stdin();
    for line in stdin.lock().lines() {
        let line = line.unwrap();
        let mut toks = line.split_whitespace();
        let mode = match toks.next() {
            Some(m) => m.to_string(),
            None => {
                println!();
                continue;
            }
        };
        let v: Vec<i64> = toks.filter_map(|t| t.parse().ok()).collect();
        unsafe {
            let mut fds = [0i32; 2];
            libc::pipe(fds.as_mut_ptr());
            let pid = libc::fork();
            if pid == 0 {
                libc::close(fds[0]);
                libc::alarm(60);
                // panics of the code under test are caught and reported as flags; keep stderr quiet
                std::panic::set_hook(Box::new(|_| {}));
                let r = std::panic::catch_unwind(|| {
                    if mode == "H" {
                        let n = v.first().copied().unwrap_or(0) as usize;
                        let ops: Vec<(i64, i64)> = (0..n).map(|i| (v[1 + 2 * i], v[2 + 2 * i])).collect();
                        run_history(&ops)
                    } else {
                        run_scenario(decode(&v))
                    }
                });
                let s = match r { Ok(s) => s, Err(_) => "!panic".to_string() };
                let mut f = std::fs::File::from_raw_fd(fds[1]);
                let _ = f.write_all(s.as_bytes());
                drop(f);
                libc::_exit(0);
            }
            libc::close(fds[1]);
            let mut f = std::fs::File::from_raw_fd(fds[0]);
            let mut s = String::new();
            let _ = f.read_to_string(&mut s);
            let mut st = 0;
            libc::waitpid(pid, &mut st, 0);
            if s.is_empty() {
                s = format!("!died status={}", st);
            }
            println!("{}", s);
        }
    }
}
