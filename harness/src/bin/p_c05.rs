//! C05 probe: runs registry histories against the real signal-hook-registry, each history in a
//! forked child, and prints what could be observed.
//!
//!   p_c05 run      stdin: one history per line, same integer encoding as coq/seqreg/Run.v:
//!                      <case-id> npre (sig kind tag)*npre item*
//!                    kind 0 SIG_DFL, 1 SIG_IGN, 2 user handler (plain), 3 user handler (SA_SIGINFO),
//!                    4 / 5 = 2 / 3 installed with SA_RESETHAND|SA_NODEFER|SA_ONSTACK and SIGWINCH in the mask
//!                    item: 1 sig tag register | 2 sig tag register_sigaction | 3 sig id unregister
//!                          4 sig unregister_signal | 5 sig raise | 6 sig report disposition
//!                          7 sig signal_hook::low_level::emulate_default_handler(sig) (ignore / stop kinds only; the
//!                            parent continues a child that stopped)
//!                  stdout: first the `libaddr` line, then per history:  H <case-id> <ints>  with per item
//!                      1 id | 2 | 3 | 4 b | 5 n tags.. | 6 k f a addr | 8 (pair (sig,id) was never handed out)
//!                    then  -2 dup    (number of returned SigIds equal (==) to an earlier one)
//!                  (k f as in Run.v; a = -1: the probe cannot see the action count; addr = handler address)
//!                  or  H <case-id> DIED <how>
//!   p_c05 libaddr  registers two different signals in a child, prints  L <addr1> <addr2> <hook-addr|0>
//!   p_c05 oracle   lo hi : for each number, in a child:  O sig query_ok set_ok
//!   p_c05 eintr    E lib <ret> <errno> <ran>   and   E ctl <ret> <errno> <ran>
//!                  (blocking read interrupted by SIGALRM handled through the library / through a
//!                   plain handler installed without SA_RESTART)
#![allow(deprecated)]
use sh_harness::forked::{run_child, Outcome};
use signal_hook_registry::{register, register_sigaction, unregister, unregister_signal, SigId};
use std::collections::HashMap;
use std::io::{BufRead, Write};
use std::sync::atomic::{AtomicI32, AtomicUsize, Ordering};
use std::time::Duration;

const CAP: usize = 1 << 16;
#[allow(clippy::declare_interior_mutable_const)]
const ZERO: AtomicUsize = AtomicUsize::new(0);
static LOG: [AtomicUsize; CAP] = [ZERO; CAP];
static LOG_LEN: AtomicUsize = AtomicUsize::new(0);
static USER_TAG: [AtomicUsize; 128] = [ZERO; 128];
static PIPE_W: AtomicI32 = AtomicI32::new(-1);
static RAN: AtomicUsize = AtomicUsize::new(0);

/// async-signal-safe: two atomics
fn log(tag: usize) {
    let i = LOG_LEN.fetch_add(1, Ordering::SeqCst);
    if i < CAP {
        LOG[i].store(tag, Ordering::SeqCst);
    }
}

extern "C" fn user_plain(sig: libc::c_int) {
    log(USER_TAG[(sig as usize) & 127].load(Ordering::SeqCst));
}
extern "C" fn user_info(sig: libc::c_int, _i: *mut libc::siginfo_t, _d: *mut libc::c_void) {
    log(USER_TAG[(sig as usize) & 127].load(Ordering::SeqCst));
}

fn out(s: &str) {
    let b = s.as_bytes();
    let mut off = 0;
    while off < b.len() {
        let n = unsafe { libc::write(1, b[off..].as_ptr() as *const _, b.len() - off) };
        if n <= 0 {
            break;
        }
        off += n as usize;
    }
}

fn id_number(id: &SigId) -> i128 {
    // SigId's fields are private; its Debug output is  SigId { signal: 10, action: ActionId(1) }
    let s = format!("{:?}", id);
    match s.find("ActionId(") {
        Some(p) => {
            let rest = &s[p + 9..];
            let end = rest.find(')').unwrap_or(rest.len());
            rest[..end].trim().parse::<i128>().unwrap_or(-1)
        }
        None => -1,
    }
}

unsafe fn disposition(sig: i32) -> (i64, i64, usize) {
    let mut old: libc::sigaction = std::mem::zeroed();
    if libc::sigaction(sig, std::ptr::null(), &mut old) != 0 {
        return (-1, -1, 0);
    }
    let a = old.sa_sigaction;
    if a == libc::SIG_DFL {
        (0, 0, a)
    } else if a == libc::SIG_IGN {
        (0, 1, a)
    } else if a == user_plain as usize || a == user_info as usize {
        (0, 2, a)
    } else {
        (1, old.sa_flags as i64, a)
    }
}

fn run_history(ints: &[i64]) -> String {
    let mut res: Vec<String> = Vec::new();
    let mut p = 0usize;
    let next = |p: &mut usize| -> i64 {
        let v = ints[*p];
        *p += 1;
        v
    };
    let npre = next(&mut p);
    for _ in 0..npre {
        let (sig, kind, tag) = (next(&mut p) as i32, next(&mut p), next(&mut p));
        unsafe {
            let mut act: libc::sigaction = std::mem::zeroed();
            libc::sigemptyset(&mut act.sa_mask);
            match kind {
                0 => act.sa_sigaction = libc::SIG_DFL,
                1 => act.sa_sigaction = libc::SIG_IGN,
                2 | 4 => {
                    USER_TAG[(sig as usize) & 127].store(tag as usize, Ordering::SeqCst);
                    act.sa_sigaction = user_plain as usize;
                }
                _ => {
                    USER_TAG[(sig as usize) & 127].store(tag as usize, Ordering::SeqCst);
                    act.sa_sigaction = user_info as usize;
                    act.sa_flags = libc::SA_SIGINFO;
                }
            }
            if kind >= 4 {
                // a previous handler that asked for an unusual environment
                act.sa_flags |= libc::SA_RESETHAND | libc::SA_NODEFER | libc::SA_ONSTACK;
                libc::sigaddset(&mut act.sa_mask, libc::SIGWINCH);
            }
            libc::sigaction(sig, &act, std::ptr::null_mut());
        }
    }
    let mut ids: HashMap<(i32, i128), SigId> = HashMap::new();
    let mut all_ids: Vec<SigId> = Vec::new();
    let mut dup = 0;
    while p < ints.len() {
        let code = next(&mut p);
        let sig = next(&mut p) as i32;
        match code {
            1 | 2 => {
                let tag = next(&mut p) as usize;
                let r = std::panic::catch_unwind(|| unsafe {
                    if code == 1 {
                        register(sig, move || log(tag))
                    } else {
                        register_sigaction(sig, move |_info| log(tag))
                    }
                });
                match r {
                    Ok(Ok(id)) => {
                        if all_ids.iter().any(|o| *o == id) {
                            dup += 1;
                        }
                        all_ids.push(id);
                        let n = id_number(&id);
                        ids.insert((sig, n), id);
                        res.push(format!("1 {}", n));
                    }
                    Ok(Err(_)) => res.push("2".into()),
                    Err(_) => res.push("3".into()),
                }
            }
            3 => {
                let idn = next(&mut p) as i128;
                match ids.get(&(sig, idn)) {
                    Some(id) => res.push(format!("4 {}", unregister(*id) as i32)),
                    None => res.push("8".into()),
                }
            }
            4 => res.push(format!("4 {}", unregister_signal(sig) as i32)),
            5 => {
                let before = LOG_LEN.load(Ordering::SeqCst);
                unsafe { libc::raise(sig) };
                let after = LOG_LEN.load(Ordering::SeqCst).min(CAP);
                let mut s = format!("5 {}", after - before);
                for i in before..after {
                    s.push_str(&format!(" {}", LOG[i].load(Ordering::SeqCst)));
                }
                res.push(s);
            }
            6 => {
                let (k, f, a) = unsafe { disposition(sig) };
                res.push(format!("6 {} {} -1 {}", k, f, a));
            }
            7 => {
                let r = signal_hook::low_level::emulate_default_handler(sig);
                res.push(format!("7 {}", r.is_ok() as i32));
            }
            _ => res.push("-98".into()),
        }
    }
    res.push(format!("-2 {}", dup));
    res.join(" ")
}

fn cmd_run() -> i32 {
    // the address of the library's handler in THIS address space (children are forks of it)
    cmd_libaddr();
    let stdin = std::io::stdin();
    for line in stdin.lock().lines() {
        let line = line.unwrap();
        let mut it = line.split_whitespace();
        let case = match it.next() {
            Some(c) => c.to_string(),
            None => continue,
        };
        let ints: Vec<i64> = it.map(|x| x.parse().unwrap()).collect();
        std::io::stdout().flush().unwrap();
        let case2 = case.clone();
        let o = sh_harness::forked::run_child_opts(
            move || {
                std::panic::set_hook(Box::new(|_| {}));
                let s = run_history(&ints);
                out(&format!("H {} {}\n", case2, s));
                0
            },
            Duration::from_secs(20),
            true,
        );
        if o != Outcome::Exited(0) {
            println!("H {} DIED {}", case, o.text());
        }
    }
    0
}

fn cmd_libaddr() -> i32 {
    std::io::stdout().flush().unwrap();
    let o = run_child(
        || unsafe {
            register(libc::SIGUSR1, || ()).unwrap();
            register(libc::SIGWINCH, || ()).unwrap();
            let a = disposition(libc::SIGUSR1).2;
            let b = disposition(libc::SIGWINCH).2;
            #[cfg(sighook_verif)]
            let h = signal_hook_registry::verif_api::handler_addr();
            #[cfg(not(sighook_verif))]
            let h = 0usize;
            out(&format!("L {} {} {}\n", a, b, h));
            0
        },
        Duration::from_secs(10),
    );
    (o != Outcome::Exited(0)) as i32
}

extern "C" fn noop(_sig: libc::c_int) {}

fn cmd_oracle(args: &[String]) -> i32 {
    let lo: i32 = args.get(0).and_then(|x| x.parse().ok()).unwrap_or(-2);
    let hi: i32 = args.get(1).and_then(|x| x.parse().ok()).unwrap_or(70);
    for s in lo..=hi {
        std::io::stdout().flush().unwrap();
        let o = run_child(
            move || unsafe {
                let mut old: libc::sigaction = std::mem::zeroed();
                let q = libc::sigaction(s, std::ptr::null(), &mut old) == 0;
                let mut act: libc::sigaction = std::mem::zeroed();
                act.sa_sigaction = noop as usize;
                act.sa_flags = libc::SA_RESTART;
                let st = libc::sigaction(s, &act, &mut old) == 0;
                out(&format!("O {} {} {}\n", s, q as i32, st as i32));
                0
            },
            Duration::from_secs(10),
        );
        if o != Outcome::Exited(0) {
            println!("O {} DIED {}", s, o.text());
        }
    }
    0
}

/// the action (runs inside the signal handler): note that it ran, make the pipe readable
fn wake() {
    RAN.fetch_add(1, Ordering::SeqCst);
    let b = [7u8];
    unsafe { libc::write(PIPE_W.load(Ordering::SeqCst), b.as_ptr() as *const _, 1) };
}
extern "C" fn ctl_handler(_sig: libc::c_int) {
    wake();
}

#[repr(C)]
struct Itimerval {
    it_interval: libc::timeval,
    it_value: libc::timeval,
}
extern "C" {
    // not exported by every version of the libc crate
    fn setitimer(which: libc::c_int, new: *const Itimerval, old: *mut Itimerval) -> libc::c_int;
}

fn eintr_child(lib: bool) -> i32 {
    unsafe {
        let mut fds = [0i32; 2];
        if libc::pipe(fds.as_mut_ptr()) != 0 {
            return 3;
        }
        PIPE_W.store(fds[1], Ordering::SeqCst);
        if lib {
            register(libc::SIGALRM, wake).unwrap();
        } else {
            let mut act: libc::sigaction = std::mem::zeroed();
            libc::sigemptyset(&mut act.sa_mask);
            act.sa_sigaction = ctl_handler as usize;
            act.sa_flags = 0; // no SA_RESTART
            libc::sigaction(libc::SIGALRM, &act, std::ptr::null_mut());
        }
        let it = Itimerval {
            it_interval: libc::timeval { tv_sec: 0, tv_usec: 0 },
            it_value: libc::timeval { tv_sec: 0, tv_usec: 60_000 },
        };
        setitimer(0 /* ITIMER_REAL */, &it, std::ptr::null_mut());
        let mut buf = [0u8; 1];
        *libc::__errno_location() = 0;
        let r = libc::read(fds[0], buf.as_mut_ptr() as *mut _, 1);
        let e = if r < 0 { *libc::__errno_location() } else { 0 };
        out(&format!("E {} {} {} {}\n", if lib { "lib" } else { "ctl" }, r, e, RAN.load(Ordering::SeqCst)));
    }
    0
}

fn cmd_eintr() -> i32 {
    for lib in [true, false] {
        std::io::stdout().flush().unwrap();
        let o = run_child(move || eintr_child(lib), Duration::from_secs(10));
        if o != Outcome::Exited(0) {
            println!("E {} DIED {}", if lib { "lib" } else { "ctl" }, o.text());
        }
    }
    0
}

fn main() {
    let args: Vec<String> = std::env::args().collect();
    let cmd = args.get(1).map(|s| s.as_str()).unwrap_or("");
    let rest = &args[2.min(args.len())..];
    let code = match cmd {
        "run" => cmd_run(),
        "libaddr" => cmd_libaddr(),
        "oracle" => cmd_oracle(rest),
        "eintr" => cmd_eintr(),
        _ => {
            eprintln!("usage: p_c05 run|libaddr|oracle|eintr");
            2
        }
    };
    std::process::exit(code);
}
