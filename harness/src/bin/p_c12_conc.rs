//! Instances of several threads created and dropped side by side (C12: once an instance and all its handles
//! are gone every registration it made, AND ONLY THOSE, has been removed and its pipe closed; an instance
//! that was built watches its signals).  Three threads, each with its own signal, <rounds> rounds lined up
//! by a barrier: create an instance, raise the signal at this thread, the instance must report it; drop it.
//! At the end: descriptors as at the start, and a delivery of each signal runs no action of a dropped
//! instance (checked through the descriptor count: every action owns the write end of its socket pair).
//! In a forked child.
//!
//!   p_c12_conc <rounds>    prints  G ok <rounds>  |  G lost <n> leaked <m>  |  G died:<how>
use sh_harness::forked::{reset_all_dispositions, run_child, Outcome};
use std::io::{Read, Write};
use std::os::unix::io::FromRawFd;
use std::sync::atomic::{AtomicUsize, Ordering};
use std::sync::{Arc, Barrier};
use std::time::Duration;

fn open_fds() -> usize {
    (0..4096).filter(|fd| unsafe { libc::fcntl(*fd, libc::F_GETFD) } != -1).count()
}

fn case(rounds: usize) -> String {
    let sigs = [libc::SIGUSR1, libc::SIGUSR2, libc::SIGWINCH];
    // keep the library's handler installed for all three throughout (a delivery is then harmless at any instant)
    let keep: Vec<_> = sigs.iter().map(|s| signal_hook::flag::register(*s, Arc::new(std::sync::atomic::AtomicBool::new(false))).unwrap()).collect();
    let before = open_fds();
    let lost = Arc::new(AtomicUsize::new(0));
    let bar = Arc::new(Barrier::new(sigs.len()));
    let ths: Vec<_> = sigs
        .iter()
        .map(|&sig| {
            let (lost, bar) = (lost.clone(), bar.clone());
            std::thread::spawn(move || {
                for _ in 0..rounds {
                    bar.wait();
                    let mut s = signal_hook::iterator::Signals::new(&[sig]).unwrap();
                    unsafe { libc::raise(sig) };
                    if s.pending().next() != Some(sig) {
                        lost.fetch_add(1, Ordering::SeqCst);
                    }
                    bar.wait();
                    drop(s);
                }
            })
        })
        .collect();
    for t in ths {
        let _ = t.join();
    }
    let after = open_fds();
    drop(keep);
    let (l, leaked) = (lost.load(Ordering::SeqCst), after as i64 - before as i64);
    if l == 0 && leaked == 0 {
        format!("ok {}", rounds)
    } else {
        format!("lost {} leaked {}", l, leaked)
    }
}

fn main() {
    let n: usize = std::env::args().nth(1).and_then(|a| a.parse().ok()).unwrap_or(1000);
    let mut fds = [0i32; 2];
    unsafe { libc::pipe(fds.as_mut_ptr()) };
    let (rd, wr) = (fds[0], fds[1]);
    let out = run_child(
        move || {
            unsafe {
                libc::close(rd);
                reset_all_dispositions();
                libc::signal(libc::SIGPIPE, libc::SIG_IGN);
            }
            let s = case(n);
            let mut f = unsafe { std::fs::File::from_raw_fd(wr) };
            let _ = f.write_all(s.as_bytes());
            0
        },
        Duration::from_secs(120),
    );
    unsafe { libc::close(wr) };
    let mut f = unsafe { std::fs::File::from_raw_fd(rd) };
    let mut s = String::new();
    let _ = f.read_to_string(&mut s);
    if s.is_empty() {
        s = match out {
            Outcome::Exited(c) => format!("died:exit:{}", c),
            Outcome::Signaled(c) => format!("died:sig:{}", c),
            Outcome::Stopped(c) => format!("died:stop:{}", c),
            Outcome::Timeout => "died:timeout".to_string(),
        };
    }
    println!("G {}", s);
    let _ = std::io::stdout().flush();
}
