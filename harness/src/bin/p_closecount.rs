//! Counts how often the library closes a descriptor that was handed to the self-pipe registration
//! (C13: "closed exactly once - when the action is removed or the registration is rejected").
//! The binary defines its own `close` symbol (every close of the statically linked crates goes
//! through it) which counts per descriptor and forwards to the system call.
//! Output: `<case> <closes> <expected>` per case.
use std::os::unix::io::IntoRawFd;
use std::os::unix::net::UnixStream;
use std::sync::atomic::{AtomicUsize, Ordering};

const N: usize = 4096;
static COUNTS: [AtomicUsize; N] = { const Z: AtomicUsize = AtomicUsize::new(0); [Z; N] };

/// fault injection: the next close of this descriptor really closes it and then reports EINTR (what
/// Linux does when a close is interrupted: the descriptor is gone, the call must not be repeated)
static EINTR_FD: std::sync::atomic::AtomicI32 = std::sync::atomic::AtomicI32::new(-1);

#[no_mangle]
pub unsafe extern "C" fn close(fd: libc::c_int) -> libc::c_int {
    if fd >= 0 && (fd as usize) < N {
        COUNTS[fd as usize].fetch_add(1, Ordering::SeqCst);
    }
    let r = libc::syscall(libc::SYS_close, fd) as libc::c_int;
    if fd >= 0 && EINTR_FD.compare_exchange(fd, -1, Ordering::SeqCst, Ordering::SeqCst).is_ok() {
        *libc::__errno_location() = libc::EINTR;
        return -1;
    }
    r
}

fn closes(fd: i32) -> usize { COUNTS[fd as usize].load(Ordering::SeqCst) }
fn reset(fd: i32) { COUNTS[fd as usize].store(0, Ordering::SeqCst) }

fn new_pipe() -> (i32, i32) {
    let mut fds = [0i32; 2];
    unsafe { libc::pipe(fds.as_mut_ptr()) };
    (fds[0], fds[1])
}

fn main() {
    use signal_hook::low_level::pipe;
    let quiet = std::panic::take_hook();
    std::panic::set_hook(Box::new(|_| {}));
    // rejected by error return (the OS refuses the signal number), raw pipe descriptor
    for &bad in &[100i32, 0, 65] {
        let (r, w) = new_pipe(); reset(w);
        let res = pipe::register_raw(bad, w);
        println!("raw_pipe_err_{} {} 1 {}", bad, closes(w), res.is_err() as i32);
        unsafe { libc::syscall(libc::SYS_close, r) };
    }
    // rejected by the forbidden-signal panic
    {
        let (r, w) = new_pipe(); reset(w);
        let res = std::panic::catch_unwind(|| pipe::register_raw(libc::SIGKILL, w));
        println!("raw_pipe_forbidden {} 1 {}", closes(w), res.is_err() as i32);
        unsafe { libc::syscall(libc::SYS_close, r) };
    }
    // accepted, then removed
    {
        let (r, w) = new_pipe(); reset(w);
        let id = pipe::register_raw(libc::SIGUSR1, w).unwrap();
        println!("raw_pipe_ok_registered {} 0 1", closes(w));
        signal_hook::low_level::unregister(id);
        println!("raw_pipe_ok_unregistered {} 1 1", closes(w));
        unsafe { libc::syscall(libc::SYS_close, r) };
    }
    // the same two ends of ownership with close() reporting EINTR: still exactly one close
    {
        let (r, w) = new_pipe(); reset(w);
        let id = pipe::register_raw(libc::SIGUSR1, w).unwrap();
        EINTR_FD.store(w, Ordering::SeqCst);
        signal_hook::low_level::unregister(id);
        println!("raw_pipe_unregistered_close_eintr {} 1 1", closes(w));
        EINTR_FD.store(-1, Ordering::SeqCst);
        unsafe { libc::syscall(libc::SYS_close, r) };
    }
    {
        let (r, w) = new_pipe(); reset(w);
        EINTR_FD.store(w, Ordering::SeqCst);
        let res = pipe::register_raw(100, w);
        println!("raw_pipe_err_close_eintr {} 1 {}", closes(w), res.is_err() as i32);
        EINTR_FD.store(-1, Ordering::SeqCst);
        unsafe { libc::syscall(libc::SYS_close, r) };
    }
    // owned socket, rejected by error return / accepted and removed
    {
        let (_r, w) = UnixStream::pair().unwrap();
        let fd = w.into_raw_fd(); reset(fd);
        let w = unsafe { <UnixStream as std::os::unix::io::FromRawFd>::from_raw_fd(fd) };
        let res = pipe::register(100, w);
        println!("socket_err {} 1 {}", closes(fd), res.is_err() as i32);
    }
    {
        let (_r, w) = UnixStream::pair().unwrap();
        let fd = w.into_raw_fd(); reset(fd);
        let w = unsafe { <UnixStream as std::os::unix::io::FromRawFd>::from_raw_fd(fd) };
        let id = pipe::register(libc::SIGUSR2, w).unwrap();
        signal_hook::low_level::unregister(id);
        println!("socket_ok_unregistered {} 1 1", closes(fd));
    }
    // the reader goes away while the action stays registered; deliveries (their writes fail with EPIPE) must not release
    // the descriptor - that is for the thread that removes the action, exactly once (C01, C13).  SIGPIPE is ignored in
    // every Rust program, so the failing write is just an error return.
    unsafe { libc::signal(libc::SIGPIPE, libc::SIG_IGN) };
    {
        let (r, w) = new_pipe(); reset(w);
        let id = pipe::register_raw(libc::SIGUSR1, w).unwrap();
        unsafe { libc::syscall(libc::SYS_close, r) };
        unsafe { libc::raise(libc::SIGUSR1) };
        unsafe { libc::raise(libc::SIGUSR1) };
        println!("raw_pipe_reader_gone_delivered {} 0 1", closes(w));
        let open = unsafe { libc::fcntl(w, libc::F_GETFD) } != -1;
        println!("raw_pipe_reader_gone_still_open {} 1 1", open as i32);
        signal_hook::low_level::unregister(id);
        println!("raw_pipe_reader_gone_unregistered {} 1 1", closes(w));
    }
    {
        let (r, w) = UnixStream::pair().unwrap();
        let fd = w.into_raw_fd(); reset(fd);
        let w = unsafe { <UnixStream as std::os::unix::io::FromRawFd>::from_raw_fd(fd) };
        let id = pipe::register(libc::SIGUSR2, w).unwrap();
        drop(r);
        unsafe { libc::raise(libc::SIGUSR2) };
        unsafe { libc::raise(libc::SIGUSR2) };
        println!("socket_reader_gone_delivered {} 0 1", closes(fd));
        let open = unsafe { libc::fcntl(fd, libc::F_GETFD) } != -1;
        println!("socket_reader_gone_still_open {} 1 1", open as i32);
        signal_hook::low_level::unregister(id);
        println!("socket_reader_gone_unregistered {} 1 1", closes(fd));
    }
    // a descriptor that is open, is no socket and refuses F_SETFL (O_PATH): the registration is refused half-way through
    {
        let fd = unsafe { libc::open(b"/\0".as_ptr() as *const libc::c_char, libc::O_PATH) };
        reset(fd);
        let res = pipe::register_raw(libc::SIGUSR1, fd);
        println!("raw_opath_fd {} 1 {}", closes(fd), res.is_err() as i32);
        let still = unsafe { libc::fcntl(fd, libc::F_GETFD) } != -1;
        println!("raw_opath_fd_closed {} 0 1", still as i32);
    }
    // an invalid descriptor handed over with a valid signal: the registration is refused (set_flags fails)
    {
        let (r, w) = new_pipe();
        unsafe { libc::syscall(libc::SYS_close, w) }; reset(w);
        let res = pipe::register_raw(libc::SIGUSR1, w);
        println!("raw_invalid_fd {} 1 {}", closes(w), res.is_err() as i32);
        unsafe { libc::syscall(libc::SYS_close, r) };
    }
    // descriptor NUMBERS at the edges: 0 (what pipe()/dup() hand to a process started without stdin) and a high one;
    // accepted-then-removed and refused, with a delivery in between (runs last: it replaces this process's stdin)
    for &target in &[0i32, 1000] {
        let (r, w) = new_pipe();
        let fd = unsafe { libc::dup2(w, target) };
        unsafe { libc::syscall(libc::SYS_close, w) };
        reset(fd);
        let id = pipe::register_raw(libc::SIGUSR1, fd).unwrap();
        unsafe { libc::raise(libc::SIGUSR1) };
        println!("raw_pipe_fd{}_registered {} 0 {}", target, closes(fd), (fd == target) as i32);
        signal_hook::low_level::unregister(id);
        println!("raw_pipe_fd{}_unregistered {} 1 1", target, closes(fd));
        let still = unsafe { libc::fcntl(fd, libc::F_GETFD) } != -1;
        println!("raw_pipe_fd{}_open_afterwards {} 0 1", target, still as i32);
        if still { unsafe { libc::syscall(libc::SYS_close, fd) }; }
        let fd = unsafe { libc::dup2(r, target) };
        reset(fd);
        let res = pipe::register_raw(100, fd);
        println!("raw_pipe_fd{}_err {} 1 {}", target, closes(fd), res.is_err() as i32);
        let still = unsafe { libc::fcntl(fd, libc::F_GETFD) } != -1;
        println!("raw_pipe_fd{}_err_open_afterwards {} 0 1", target, still as i32);
        if still { unsafe { libc::syscall(libc::SYS_close, fd) }; }
        unsafe { libc::syscall(libc::SYS_close, r) };
    }
    std::panic::set_hook(quiet);
}
