//! Concurrent `Handle::add_signal` under the deterministic scheduler (C12 cleanup / C01 removal by
//! dropping the owner): two handle clones add a signal each while the other is paused at a chosen
//! point; afterwards every owner is dropped and we look at what is left behind.
//! stdin: one case per line: `<sig1> <sig2> <n> <activity>*n`; stdout per case:
//!   `ok1 ok2 write_fd_open wakes_after_drop stuck panicked wakes_alive records_alive`
//! wakes_alive / records_alive: with the owners still alive, ONE dispatch of sig1 is made and the
//! wake-ups it performs and the records `pending()` yields for it are counted (C10: at most one
//! record per delivery).  A line starting with `R` uses the WithRawSiginfo exfiltrator.
use sh_harness::sched::{self, Activity};
use signal_hook::iterator::backend::SignalDelivery;
use signal_hook::iterator::exfiltrator::raw::WithRawSiginfo;
use signal_hook::iterator::exfiltrator::{Exfiltrator, SignalOnly};
use signal_hook_registry::verif::{self, Directive, Event, Op};
use std::io::{BufRead, Read, Write};
use std::os::unix::io::{AsRawFd, FromRawFd};
use std::os::unix::net::UnixStream;
use std::sync::atomic::{AtomicUsize, Ordering};
use std::sync::Arc;

static WAKES: AtomicUsize = AtomicUsize::new(0);
fn before(_e: &Event) -> Directive { Directive::Proceed }
fn after(e: &Event) {
    if e.op == Op::Syscall && e.arg == 1 {
        WAKES.fetch_add(1, Ordering::SeqCst);
    }
}
static COUNT_HOOKS: verif::Hooks = verif::Hooks { before, after };

fn run_case<E: Exfiltrator + Send + Sync + 'static>(v: &[i64], exf: E) -> String
where E::Storage: Send + Sync {
    let (s1, s2) = (v[0] as i32, v[1] as i32);
    let n = v[2] as usize;
    let schedule: Vec<(usize, u8)> = v[3..3 + n].iter().map(|&a| (a as usize, 0u8)).collect();
    let (read, write) = UnixStream::pair().unwrap();
    let wfd = write.as_raw_fd();
    let delivery = SignalDelivery::with_pipe(read, write, exf, &[] as &[i32]).unwrap();
    let handle = delivery.handle();
    let (h1, h2) = (handle.clone(), handle.clone());
    let res = Arc::new([AtomicUsize::new(9), AtomicUsize::new(9)]);
    let (r1, r2) = (res.clone(), res.clone());
    signal_hook_registry::verif_api::layout();
    sched::init();
    let acts: Vec<Activity> = vec![
        Box::new(move || { let r = h1.add_signal(s1); r1[0].store(r.is_ok() as usize, Ordering::SeqCst); }),
        Box::new(move || { let r = h2.add_signal(s2); r2[1].store(r.is_ok() as usize, Ordering::SeqCst); }),
    ];
    let out = sched::run(acts, &schedule, true, 20000);
    let mut delivery = delivery;
    let (mut wakes_alive, mut records_alive) = (0, 0);
    if !out.stuck && !out.panicked.iter().any(|p| *p) {
        verif::install(&COUNT_HOOKS);
        let mut info: libc::siginfo_t = unsafe { std::mem::zeroed() };
        let mut ctx = 0u64;
        info.si_signo = s1;
        unsafe { signal_hook_registry::verif_api::dispatch(s1, &mut info, &mut ctx as *mut u64 as *mut libc::c_void) };
        wakes_alive = WAKES.swap(0, Ordering::SeqCst);
        records_alive = delivery.pending().count();
    }
    drop(handle);
    drop(delivery);
    // everything that owned the instance is gone now: its registrations must be gone, its pipe closed
    verif::install(&COUNT_HOOKS);
    let mut info: libc::siginfo_t = unsafe { std::mem::zeroed() };
    let mut ctx = 0u64;
    for s in [s1, s2] {
        info.si_signo = s;
        unsafe { signal_hook_registry::verif_api::dispatch(s, &mut info, &mut ctx as *mut u64 as *mut libc::c_void) };
    }
    let open = unsafe { libc::fcntl(wfd, libc::F_GETFD) } != -1;
    format!("{} {} {} {} {} {} {} {}", res[0].load(Ordering::SeqCst), res[1].load(Ordering::SeqCst), open as i32,
            WAKES.load(Ordering::SeqCst), out.stuck as i32, out.panicked.iter().filter(|p| **p).count(), wakes_alive, records_alive)
}

fn main() {
    let stdin = std::io::stdin();
    for line in stdin.lock().lines() {
        let line = line.unwrap();
        let raw = line.starts_with('R');
        let v: Vec<i64> = line.split_whitespace().filter_map(|t| t.parse().ok()).collect();
        if v.len() < 3 { println!(); continue; }
        unsafe {
            let mut fds = [0i32; 2];
            libc::pipe(fds.as_mut_ptr());
            let pid = libc::fork();
            if pid == 0 {
                libc::close(fds[0]);
                libc::alarm(60);
                let r = std::panic::catch_unwind(|| if raw { run_case(&v, WithRawSiginfo::default()) } else { run_case(&v, SignalOnly::default()) });
                let s = match r { Ok(s) => s, Err(_) => "!panic".to_string() };
                let mut f = std::fs::File::from_raw_fd(fds[1]);
                let _ = f.write_all(s.as_bytes());
                drop(f);
                libc::_exit(0);
            }
            libc::close(fds[1]);
            let mut f = std::fs::File::from_raw_fd(fds[0]);
            let mut s = String::new();
            let _ = f.read_to_string(&mut s);
            let mut st = 0;
            libc::waitpid(pid, &mut st, 0);
            if s.is_empty() { s = format!("!died status={}", st); }
            println!("{}", s);
        }
    }
}
