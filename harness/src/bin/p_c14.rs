//! C14 probe: every registration entry point x signal number, each case in its own forked child.
//!
//!   p_c14 os <n>...        per number:  `os <n> <query errno> <set errno>`   (0 = accepted)
//!                          query = sigaction(n, NULL, &old)  (what Prev::detect does)
//!                          set   = sigaction(n, &cur, &old)  (what Slot::new does; re-installs the
//!                                  disposition just read, so nothing changes when it succeeds)
//!   p_c14 run              stdin: lines `<ep> <phase> <sig>`; stdout one line per case:
//!     case ep=E phase=P sig=S out=<ok:ID|okunit|err:ERRNO|panic:CLASS> foreign=ADDR init=<64 x addr:flags>
//!          pre=<diff> post=<diff> held=<extra strong refs of the token/flag, - if none> fd=<open|closed|->
//!          fds=<open descriptors after the call minus before> next=<id given to a fresh registration>
//!          usable=<ok|list of failed checks> cnt=<c10,c12,c40> tested=<runs of the tested action>
//!          endfds=<open descriptors after dropping everything minus at start>
//!     or  case ep=E phase=P sig=S died=<sig:N|exit:N|timeout>      (abort is sig:6)
//!
//!   ep: 0 registry::register 1 register_sigaction 2 flag::register 3 flag::register_usize
//!       4 flag::register_conditional_shutdown 5 flag::register_conditional_default 6 pipe::register
//!       7 pipe::register_raw 8 Signals::new(&[sig]) 9 Signals::add_signal 10 Handle::add_signal
//!       11 register_signal_unchecked 12 register_unchecked
//!   phase 0: nothing registered yet (the registry's globals do not even exist)
//!   phase 1: after register(SIGUSR1), register(SIGUSR2) x2, register(40), register_signal_unchecked(SIGFPE),
//!            Signals::new(&[SIGUSR1])  (ids 1..6; mirrored as pre-operations of the model in checks/c14.py)
//!   Before either phase: every disposition reset to default, then SIGHUP ignored and a foreign handler
//!   on SIGTERM, so that the dump contains all four kinds of dispositions.
use libc::c_int;
use sh_harness::forked::{reset_all_dispositions, run_child, Outcome};
use signal_hook::iterator::Signals;
use std::io::Read;
use std::os::unix::io::{AsRawFd, RawFd};
use std::os::unix::net::UnixStream;
use std::panic::{catch_unwind, AssertUnwindSafe};
use std::sync::atomic::{AtomicBool, AtomicUsize, Ordering};
use std::sync::Arc;
use std::time::Duration;

static C10: AtomicUsize = AtomicUsize::new(0);
static C12: AtomicUsize = AtomicUsize::new(0);
static C40: AtomicUsize = AtomicUsize::new(0);
static TESTED: AtomicUsize = AtomicUsize::new(0);

extern "C" fn foreign(_: c_int) {}

fn dump() -> Vec<String> {
    (1..=64)
        .map(|s| unsafe {
            let mut old: libc::sigaction = std::mem::zeroed();
            if libc::sigaction(s, std::ptr::null(), &mut old) != 0 {
                "x".to_string()
            } else {
                format!("{:x}:{:x}", old.sa_sigaction, old.sa_flags)
            }
        })
        .collect()
}

fn diff(a: &[String], b: &[String]) -> String {
    let d: Vec<String> = (0..64).filter(|&i| a[i] != b[i]).map(|i| format!("{}={}", i + 1, b[i])).collect();
    if d.is_empty() {
        "-".to_string()
    } else {
        d.join(";")
    }
}

fn open_fds() -> i64 {
    (0..1024).filter(|&fd| unsafe { libc::fcntl(fd, libc::F_GETFD) } != -1).count() as i64
}

fn fd_open(fd: RawFd) -> bool {
    unsafe { libc::fcntl(fd, libc::F_GETFD) != -1 }
}

fn action_id<T: std::fmt::Debug>(id: &T) -> String {
    let s = format!("{:?}", id);
    match s.find("ActionId(") {
        Some(i) => s[i + 9..].chars().take_while(|c| c.is_ascii_digit()).collect(),
        None => "?".to_string(),
    }
}

fn panic_class(p: &(dyn std::any::Any + Send)) -> String {
    let msg = if let Some(s) = p.downcast_ref::<String>() {
        s.clone()
    } else if let Some(s) = p.downcast_ref::<&str>() {
        s.to_string()
    } else {
        "?".to_string()
    };
    if msg.contains("Attempted to register forbidden signal") {
        "forbidden".into()
    } else if msg.contains("index out of bounds") {
        "index".into()
    } else if msg.contains("signal >= 0") {
        "nonneg".into()
    } else if msg.contains("too large") {
        "ltmax".into()
    } else if msg.contains("not supported by exfiltrator") {
        "supports".into()
    } else {
        format!("other:{}", msg.chars().filter(|c| c.is_ascii_alphanumeric()).take(60).collect::<String>())
    }
}

enum Res {
    Id(String),
    Unit,
    Err(i32),
    Panic(String),
}

fn res_of<T: std::fmt::Debug>(r: std::thread::Result<Result<T, std::io::Error>>, unit: bool) -> Res {
    match r {
        Ok(Ok(v)) => {
            if unit {
                Res::Unit
            } else {
                Res::Id(action_id(&v))
            }
        }
        Ok(Err(e)) => Res::Err(e.raw_os_error().unwrap_or(-1)),
        Err(p) => Res::Panic(panic_class(&*p)),
    }
}

fn case(ep: i32, phase: i32, sig: c_int) -> String {
    use signal_hook::low_level::pipe;
    use signal_hook_registry as reg;
    std::panic::set_hook(Box::new(|_| {}));
    unsafe {
        reset_all_dispositions();
        let mut a: libc::sigaction = std::mem::zeroed();
        a.sa_sigaction = libc::SIG_IGN;
        libc::sigaction(libc::SIGHUP, &a, std::ptr::null_mut());
        let mut b: libc::sigaction = std::mem::zeroed();
        b.sa_sigaction = foreign as *const () as usize;
        libc::sigaction(libc::SIGTERM, &b, std::ptr::null_mut());
    }
    let fds0 = open_fds();
    let init = dump();
    // ---- pre-operations
    let mut inst: Option<Signals> = None;
    if phase == 1 {
        unsafe {
            reg::register(libc::SIGUSR1, || {
                C10.fetch_add(1, Ordering::SeqCst);
            })
            .unwrap();
            for _ in 0..2 {
                reg::register(libc::SIGUSR2, || {
                    C12.fetch_add(1, Ordering::SeqCst);
                })
                .unwrap();
            }
            reg::register(40, || {
                C40.fetch_add(1, Ordering::SeqCst);
            })
            .unwrap();
            reg::register_signal_unchecked(libc::SIGFPE, || ()).unwrap();
        }
        inst = Some(Signals::new(&[libc::SIGUSR1]).unwrap());
    } else if ep == 9 || ep == 10 {
        inst = Some(Signals::new(&[] as &[c_int]).unwrap());
    }
    let before = dump();
    // ---- the call
    let token = Arc::new(AtomicUsize::new(0));
    let flag = Arc::new(AtomicBool::new(false));
    let flagu = Arc::new(AtomicUsize::new(0));
    let mut held: Option<usize> = None;
    let mut fdstate = "-".to_string();
    let mut keep_read: Option<UnixStream> = None;
    let mut keep_rawread: Option<RawFd> = None;
    let mut newinst: Option<Signals> = None;
    let fds_before;
    let res = match ep {
        0 | 11 => {
            let t = Arc::clone(&token);
            let act = move || {
                t.fetch_add(1, Ordering::SeqCst);
                TESTED.fetch_add(1, Ordering::SeqCst);
            };
            fds_before = open_fds();
            let r = catch_unwind(AssertUnwindSafe(|| unsafe {
                if ep == 0 {
                    reg::register(sig, act)
                } else {
                    reg::register_signal_unchecked(sig, act)
                }
            }));
            held = Some(Arc::strong_count(&token) - 1);
            res_of(r, false)
        }
        1 | 12 => {
            let t = Arc::clone(&token);
            let act = move |_: &libc::siginfo_t| {
                t.fetch_add(1, Ordering::SeqCst);
                TESTED.fetch_add(1, Ordering::SeqCst);
            };
            fds_before = open_fds();
            let r = catch_unwind(AssertUnwindSafe(|| unsafe {
                if ep == 1 {
                    reg::register_sigaction(sig, act)
                } else {
                    reg::register_unchecked(sig, act)
                }
            }));
            held = Some(Arc::strong_count(&token) - 1);
            res_of(r, false)
        }
        2 | 4 | 5 => {
            let f = Arc::clone(&flag);
            fds_before = open_fds();
            let r = catch_unwind(AssertUnwindSafe(|| match ep {
                2 => signal_hook::flag::register(sig, f),
                4 => signal_hook::flag::register_conditional_shutdown(sig, 1, f),
                _ => signal_hook::flag::register_conditional_default(sig, f),
            }));
            held = Some(Arc::strong_count(&flag) - 1);
            res_of(r, false)
        }
        3 => {
            let f = Arc::clone(&flagu);
            fds_before = open_fds();
            let r = catch_unwind(AssertUnwindSafe(|| signal_hook::flag::register_usize(sig, f, 7)));
            held = Some(Arc::strong_count(&flagu) - 1);
            res_of(r, false)
        }
        6 => {
            let (r_end, w_end) = UnixStream::pair().unwrap();
            let fd = w_end.as_raw_fd();
            keep_read = Some(r_end);
            fds_before = open_fds();
            let r = catch_unwind(AssertUnwindSafe(|| pipe::register(sig, w_end)));
            fdstate = if fd_open(fd) { "open".into() } else { "closed".into() };
            res_of(r, false)
        }
        7 => {
            let mut fds = [0 as c_int; 2];
            assert_eq!(0, unsafe { libc::pipe(fds.as_mut_ptr()) });
            keep_rawread = Some(fds[0]);
            let fd = fds[1];
            fds_before = open_fds();
            let r = catch_unwind(AssertUnwindSafe(|| pipe::register_raw(sig, fd)));
            fdstate = if fd_open(fd) { "open".into() } else { "closed".into() };
            res_of(r, false)
        }
        8 => {
            fds_before = open_fds();
            let r = catch_unwind(AssertUnwindSafe(|| Signals::new(&[sig])));
            match r {
                Ok(Ok(s)) => {
                    newinst = Some(s);
                    Res::Unit
                }
                Ok(Err(e)) => Res::Err(e.raw_os_error().unwrap_or(-1)),
                Err(p) => Res::Panic(panic_class(&*p)),
            }
        }
        9 => {
            fds_before = open_fds();
            let i = inst.as_ref().unwrap();
            res_of(catch_unwind(AssertUnwindSafe(|| i.add_signal(sig))), true)
        }
        10 => {
            let h = inst.as_ref().unwrap().handle();
            fds_before = open_fds();
            res_of(catch_unwind(AssertUnwindSafe(|| h.add_signal(sig))), true)
        }
        _ => panic!("unknown entry point"),
    };
    let fds_delta = open_fds() - fds_before;
    let after = dump();
    let out = match &res {
        Res::Id(s) => format!("ok:{}", s),
        Res::Unit => "okunit".to_string(),
        Res::Err(e) => format!("err:{}", e),
        Res::Panic(c) => format!("panic:{}", c),
    };
    // ---- the library is still usable: fresh flag + fresh iterator instance on SIGUSR2, old ones still run
    let mut bad: Vec<&str> = Vec::new();
    let (c10, c12, c40) = (C10.load(Ordering::SeqCst), C12.load(Ordering::SeqCst), C40.load(Ordering::SeqCst));
    let f2 = Arc::new(AtomicBool::new(false));
    let next;
    let usable = catch_unwind(AssertUnwindSafe(|| {
        let mut bad: Vec<&'static str> = Vec::new();
        let id2 = signal_hook::flag::register(libc::SIGUSR2, Arc::clone(&f2));
        let nx = match &id2 {
            Ok(i) => action_id(i),
            Err(_) => {
                bad.push("fresh-flag-register");
                "?".into()
            }
        };
        let mut s2 = match Signals::new(&[libc::SIGUSR2]) {
            Ok(s) => Some(s),
            Err(_) => {
                bad.push("fresh-iterator");
                None
            }
        };
        unsafe { libc::raise(libc::SIGUSR2) };
        if !f2.load(Ordering::SeqCst) {
            bad.push("fresh-flag-not-set");
        }
        if let Some(s) = s2.as_mut() {
            let got: Vec<c_int> = s.pending().collect();
            if got != vec![libc::SIGUSR2] {
                bad.push("fresh-iterator-pending");
            }
        }
        if phase == 1 {
            unsafe {
                libc::raise(libc::SIGUSR1);
                libc::raise(40);
            }
        }
        if let Ok(i) = id2 {
            if !signal_hook::low_level::unregister(i) {
                bad.push("fresh-unregister");
            }
        }
        drop(s2);
        (nx, bad)
    }));
    match usable {
        Ok((n, b)) => {
            next = n;
            bad.extend(b);
        }
        Err(_) => {
            next = "?".into();
            bad.push("panicked");
        }
    }
    if phase == 1 {
        // the instance created before the call still reports SIGUSR1 (use a fresh look at it; a
        // panicking add_signal on this very instance is property C12's business, not used here)
        if ep != 9 && ep != 10 {
            if let Some(i) = inst.as_mut() {
                let got: Vec<c_int> = i.pending().collect();
                if !got.contains(&libc::SIGUSR1) {
                    bad.push("old-iterator-pending");
                }
            }
        }
    }
    let cnt = format!(
        "{},{},{}",
        C10.load(Ordering::SeqCst) - c10,
        C12.load(Ordering::SeqCst) - c12,
        C40.load(Ordering::SeqCst) - c40
    );
    let tested = TESTED.load(Ordering::SeqCst);
    drop(newinst);
    drop(inst);
    drop(keep_read);
    if let Some(fd) = keep_rawread {
        unsafe { libc::close(fd) };
    }
    let endfds = open_fds() - fds0;
    format!(
        "case ep={} phase={} sig={} out={} foreign={:x} init={} pre={} post={} held={} fd={} fds={} next={} usable={} cnt={} tested={} endfds={}\n",
        ep,
        phase,
        sig,
        out,
        foreign as *const () as usize,
        init.join(","),
        diff(&init, &before),
        diff(&before, &after),
        held.map(|h| h.to_string()).unwrap_or_else(|| "-".into()),
        fdstate,
        fds_delta,
        next,
        if bad.is_empty() { "ok".to_string() } else { bad.join("+") },
        cnt,
        tested,
        endfds
    )
}

fn write_all(s: &str) {
    let b = s.as_bytes();
    let mut off = 0;
    while off < b.len() {
        let n = unsafe { libc::write(1, b[off..].as_ptr() as *const libc::c_void, b.len() - off) };
        if n <= 0 {
            break;
        }
        off += n as usize;
    }
}

fn os_verdicts(nums: &[c_int]) {
    for &n in nums {
        let o = run_child(
            || unsafe {
                reset_all_dispositions();
                let mut old: libc::sigaction = std::mem::zeroed();
                let q = if libc::sigaction(n, std::ptr::null(), &mut old) != 0 { *libc::__errno_location() } else { 0 };
                let mut old2: libc::sigaction = std::mem::zeroed();
                let s = if libc::sigaction(n, &old, &mut old2) != 0 { *libc::__errno_location() } else { 0 };
                write_all(&format!("os {} {} {}\n", n, q, s));
                0
            },
            Duration::from_secs(10),
        );
        if o != Outcome::Exited(0) {
            write_all(&format!("os {} died {}\n", n, o.text()));
        }
    }
}

fn main() {
    let args: Vec<String> = std::env::args().collect();
    match args.get(1).map(|s| s.as_str()) {
        Some("os") => {
            let nums: Vec<c_int> = args[2..].iter().map(|a| a.parse().expect("number")).collect();
            os_verdicts(&nums);
        }
        Some("run") => {
            let mut inp = String::new();
            std::io::stdin().read_to_string(&mut inp).unwrap();
            for line in inp.lines() {
                let p: Vec<&str> = line.split_whitespace().collect();
                if p.len() != 3 {
                    continue;
                }
                let (ep, phase, sig): (i32, i32, c_int) = (p[0].parse().unwrap(), p[1].parse().unwrap(), p[2].parse().unwrap());
                let o = run_child(
                    || {
                        let l = case(ep, phase, sig);
                        write_all(&l);
                        0
                    },
                    Duration::from_secs(20),
                );
                if o != Outcome::Exited(0) {
                    write_all(&format!("case ep={} phase={} sig={} died={}\n", ep, phase, sig, o.text()));
                }
            }
        }
        _ => {
            eprintln!("usage: p_c14 os <n>... | p_c14 run  (cases on stdin)");
            std::process::exit(2);
        }
    }
}
