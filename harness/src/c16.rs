//! C16 probes: native default disposition vs `emulate_default_handler`, per signal number,
//! from normal context and from inside the signal's own handler (signal blocked).
//!
//! Output, one line per (signal, mode):  `<sig> <mode> <outcome>`
//!   mode: native | emu | emu_in_handler | emu_ignored | emu_foreign | emu_blocked | emu_thread | emu_otherpending | name
//!   outcome: sig:N (terminated by N) | stop:N | exit:42 (continued, emulate returned Ok)
//!            | exit:43 (emulate returned Err) | timeout        (mode name: the name or `-`)
use crate::forked::{reset_all_dispositions, run_child, Outcome};
use std::sync::atomic::{AtomicI32, Ordering};
use std::time::Duration;

static IN_HANDLER_SIG: AtomicI32 = AtomicI32::new(0);

extern "C" fn emu_handler(_sig: libc::c_int) {
    let s = IN_HANDLER_SIG.load(Ordering::SeqCst);
    let r = signal_hook::low_level::emulate_default_handler(s);
    unsafe { libc::_exit(if r.is_ok() { 42 } else { 43 }) };
}

pub fn native(sig: i32) -> Outcome {
    run_child(
        || unsafe {
            reset_all_dispositions();
            let r = libc::raise(sig);
            if r != 0 {
                return 44;
            }
            42
        },
        Duration::from_secs(5),
    )
}

pub fn emulated(sig: i32) -> Outcome {
    run_child(
        || unsafe {
            reset_all_dispositions();
            let r = signal_hook::low_level::emulate_default_handler(sig);
            if r.is_ok() {
                42
            } else {
                43
            }
        },
        Duration::from_secs(5),
    )
}

pub fn emulated_in_handler(sig: i32) -> Outcome {
    run_child(
        || unsafe {
            reset_all_dispositions();
            IN_HANDLER_SIG.store(sig, Ordering::SeqCst);
            let mut act: libc::sigaction = std::mem::zeroed();
            act.sa_sigaction = emu_handler as usize;
            // no SA_NODEFER: the signal is blocked while its handler runs
            if libc::sigaction(sig, &act, std::ptr::null_mut()) != 0 {
                return 45;
            }
            libc::raise(sig);
            46 // handler did not run
        },
        Duration::from_secs(5),
    )
}

/// normal context, but the disposition is not the default one when the emulation is asked for:
/// how = 1 the signal is ignored, 2 a foreign handler is installed, 3 the signal is blocked
pub fn emulated_from(sig: i32, how: i32) -> Outcome {
    extern "C" fn foreign(_s: libc::c_int) {}
    run_child(
        move || unsafe {
            reset_all_dispositions();
            match how {
                1 => {
                    libc::signal(sig, libc::SIG_IGN);
                }
                2 => {
                    libc::signal(sig, foreign as usize);
                }
                _ => {
                    let mut set: libc::sigset_t = std::mem::zeroed();
                    libc::sigemptyset(&mut set);
                    libc::sigaddset(&mut set, sig);
                    libc::sigprocmask(libc::SIG_BLOCK, &set, std::ptr::null_mut());
                }
            }
            let r = signal_hook::low_level::emulate_default_handler(sig);
            if r.is_ok() {
                42
            } else {
                43
            }
        },
        Duration::from_secs(5),
    )
}

/// another signal is blocked and pending when the emulation is asked for (the sigwait / signalfd pattern): the
/// outcome is still that of the emulated signal
pub fn emulated_other_pending(sig: i32) -> Outcome {
    run_child(
        move || unsafe {
            reset_all_dispositions();
            let other = if sig == libc::SIGUSR2 { libc::SIGUSR1 } else { libc::SIGUSR2 };
            let mut set: libc::sigset_t = std::mem::zeroed();
            libc::sigemptyset(&mut set);
            libc::sigaddset(&mut set, other);
            libc::sigprocmask(libc::SIG_BLOCK, &set, std::ptr::null_mut());
            libc::raise(other);
            let r = signal_hook::low_level::emulate_default_handler(sig);
            if r.is_ok() {
                42
            } else {
                43
            }
        },
        Duration::from_secs(5),
    )
}

/// the emulation is asked for on a second thread while the main thread sleeps with the signal unblocked
pub fn emulated_on_thread(sig: i32) -> Outcome {
    run_child(
        move || unsafe {
            reset_all_dispositions();
            std::thread::spawn(move || {
                std::thread::sleep(Duration::from_millis(20));
                let r = signal_hook::low_level::emulate_default_handler(sig);
                libc::_exit(if r.is_ok() { 42 } else { 43 });
            });
            loop {
                libc::pause();
            }
        },
        Duration::from_secs(5),
    )
}

pub fn main(args: &[String]) -> i32 {
    // args: list of signal numbers, or nothing = default sweep
    let sigs: Vec<i32> = if args.is_empty() {
        let mut v: Vec<i32> = (-2..=70).collect();
        v.extend_from_slice(&[100, 127, 128, 129, 1000, i32::MAX, i32::MIN]);
        v
    } else {
        args.iter().map(|a| a.parse().expect("signal number")).collect()
    };
    // the parent has used the library before the children are forked (a harmless raise of SIGURG, whose default is to be
    // ignored, and its emulation): whatever the library remembers per process must still be right in a forked child
    let _ = signal_hook::low_level::raise(libc::SIGURG);
    let _ = signal_hook::low_level::emulate_default_handler(libc::SIGURG);
    for &s in &sigs {
        let name = signal_hook::low_level::signal_name(s).unwrap_or("-");
        println!("{} name {}", s, name);
        if (1..=64).contains(&s) {
            println!("{} native {}", s, native(s).text());
        }
        println!("{} emu {}", s, emulated(s).text());
        if (1..=64).contains(&s) && s != libc::SIGKILL && s != libc::SIGSTOP && s != 32 && s != 33 {
            println!("{} emu_in_handler {}", s, emulated_in_handler(s).text());
            println!("{} emu_ignored {}", s, emulated_from(s, 1).text());
            println!("{} emu_foreign {}", s, emulated_from(s, 2).text());
            println!("{} emu_blocked {}", s, emulated_from(s, 3).text());
            println!("{} emu_thread {}", s, emulated_on_thread(s).text());
            println!("{} emu_otherpending {}", s, emulated_other_pending(s).text());
        }
    }
    0
}
