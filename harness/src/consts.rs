//! Prints the libc constants the translator needs, as measured from /repo's own libc crate
//! (through signal_hook::consts where the crate re-exports them).
use signal_hook::consts::signal::*;

pub fn main(_args: &[String]) -> i32 {
    macro_rules! p {
        ($($n:ident),*) => { $( println!("{}={}", stringify!($n), $n as i64); )* };
    }
    p!(SIGABRT, SIGALRM, SIGBUS, SIGCHLD, SIGCONT, SIGFPE, SIGHUP, SIGILL, SIGINT, SIGIO, SIGKILL,
       SIGPIPE, SIGPROF, SIGQUIT, SIGSEGV, SIGSTOP, SIGSYS, SIGTERM, SIGTRAP, SIGTSTP, SIGTTIN,
       SIGTTOU, SIGURG, SIGUSR1, SIGUSR2, SIGVTALRM, SIGWINCH, SIGXCPU, SIGXFSZ);
    println!("SA_RESTART={}", libc::SA_RESTART as i64);
    println!("SA_SIGINFO={}", libc::SA_SIGINFO as i64);
    println!("SA_NODEFER={}", libc::SA_NODEFER as i64);
    println!("SIG_DFL={}", libc::SIG_DFL as i64);
    println!("SIG_IGN={}", libc::SIG_IGN as i64);
    println!("EINVAL={}", libc::EINVAL as i64);
    println!("MSG_DONTWAIT={}", libc::MSG_DONTWAIT as i64);
    println!("O_NONBLOCK={}", libc::O_NONBLOCK as i64);
    println!("CLD_EXITED={}", libc::CLD_EXITED as i64);
    println!("CLD_KILLED={}", libc::CLD_KILLED as i64);
    println!("CLD_DUMPED={}", libc::CLD_DUMPED as i64);
    println!("CLD_TRAPPED={}", libc::CLD_TRAPPED as i64);
    println!("CLD_STOPPED={}", libc::CLD_STOPPED as i64);
    println!("CLD_CONTINUED={}", libc::CLD_CONTINUED as i64);
    println!("O_CLOEXEC={}", libc::O_CLOEXEC as i64);
    println!("F_GETFL={}", libc::F_GETFL as i64);
    println!("F_SETFL={}", libc::F_SETFL as i64);
    println!("EAGAIN={}", libc::EAGAIN as i64);
    println!("EBADF={}", libc::EBADF as i64);
    println!("ENOTSOCK={}", libc::ENOTSOCK as i64);
    println!("MSG_NOSIGNAL={}", libc::MSG_NOSIGNAL as i64);
    println!("SOL_SOCKET={}", libc::SOL_SOCKET as i64);
    println!("SO_TYPE={}", libc::SO_TYPE as i64);
    0
}
