//! Deterministic scheduler for the lock-step correspondence (DESIGN.md 4.2).
//!
//! Every *activity* of a scenario runs on its own OS thread. The verification shim compiled
//! into the crates (`signal_hook_registry::verif`, cfg(sighook_verif)) calls `before` ahead of
//! every synchronisation operation: a controlled thread parks there until the controller grants
//! it exactly one step; `after` appends the operation and its result to the trace. Threads that
//! are not activities (set-up code on the main thread) pass straight through.
use signal_hook_registry::verif::{self, Directive, Event, Op};
use std::cell::Cell;
use std::sync::{Arc, Condvar, Mutex};
use std::time::{Duration, Instant};

/// Harness-level operation codes (continuing the numbering of `verif::Op`).
pub const OP_START: i64 = 20; // activity begins (kernel looks up the disposition for a delivery)
pub const OP_CALLPREV: i64 = 21;
pub const OP_RUN: i64 = 22;
pub const OP_RET: i64 = 23;
pub const OP_BLOCKED: i64 = 24; // a granted step that could not be taken (blocking read, no data)
pub const OP_USER: i64 = 25;

#[derive(Clone, Debug, PartialEq, Eq)]
pub struct Line {
    pub act: i64,
    pub op: i64,
    pub loc: i64, // raw address / fd / signal; canonicalised later
    pub arg: i64,
    pub arg2: i64,
    pub res: i64,
    pub ok: i64,
    pub ord: i64,
    pub ord_fail: i64,
}

#[derive(Clone, Copy, PartialEq, Eq, Debug)]
enum Status {
    NotStarted,
    Parked,
    Running,
    Finished,
    Panicked,
}

struct Act {
    status: Status,
    grant: bool,
    directive: Directive,
    parked_op: i64,
    parked_loc: i64,
    parked_arg: i64,
}

struct Inner {
    acts: Vec<Act>,
    trace: Vec<Line>,
}

pub struct Sched {
    inner: Mutex<Inner>,
    cv: Condvar,
}

thread_local! {
    static ACT: Cell<Option<usize>> = Cell::new(None);
    /// >0 while this thread executes harness code (hooks, trace bookkeeping)
    static IN_HARNESS: Cell<u32> = const { Cell::new(0) };
    /// true while this thread is inside a (simulated) signal delivery
    static IN_DELIVERY: Cell<bool> = const { Cell::new(false) };
}

/// Allocator wrapper: counts heap allocations and releases performed by the code under test
/// while the current thread is inside a delivery (C03: a delivery must not touch the heap).
pub struct CountingAlloc;
pub static ALLOCS_IN_DELIVERY: std::sync::atomic::AtomicUsize = std::sync::atomic::AtomicUsize::new(0);
pub static FREES_IN_DELIVERY: std::sync::atomic::AtomicUsize = std::sync::atomic::AtomicUsize::new(0);

fn counting() -> bool {
    IN_DELIVERY.try_with(|d| d.get()).unwrap_or(false) && IN_HARNESS.try_with(|h| h.get() == 0).unwrap_or(false)
}

unsafe impl std::alloc::GlobalAlloc for CountingAlloc {
    unsafe fn alloc(&self, l: std::alloc::Layout) -> *mut u8 {
        if counting() {
            ALLOCS_IN_DELIVERY.fetch_add(1, std::sync::atomic::Ordering::SeqCst);
        }
        std::alloc::System.alloc(l)
    }
    unsafe fn dealloc(&self, p: *mut u8, l: std::alloc::Layout) {
        if counting() {
            FREES_IN_DELIVERY.fetch_add(1, std::sync::atomic::Ordering::SeqCst);
        }
        std::alloc::System.dealloc(p, l)
    }
}

pub struct HarnessScope;
impl HarnessScope {
    pub fn enter() -> HarnessScope {
        IN_HARNESS.with(|h| h.set(h.get() + 1));
        HarnessScope
    }
}
impl Drop for HarnessScope {
    fn drop(&mut self) {
        IN_HARNESS.with(|h| h.set(h.get() - 1));
    }
}

/// Marks the calling thread as being inside a signal delivery for the duration of `f`.
pub fn in_delivery<R>(f: impl FnOnce() -> R) -> R {
    IN_DELIVERY.with(|d| d.set(true));
    let r = f();
    IN_DELIVERY.with(|d| d.set(false));
    r
}

static mut SCHED: Option<Arc<Sched>> = None;

fn sched() -> Option<&'static Arc<Sched>> {
    #[allow(static_mut_refs)]
    unsafe {
        SCHED.as_ref()
    }
}

fn op_code(op: Op) -> i64 {
    op as u8 as i64
}

fn line_of(act: usize, e: &Event) -> Line {
    Line {
        act: act as i64,
        op: op_code(e.op),
        loc: e.addr as i64,
        arg: e.arg as i64,
        arg2: e.arg2 as i64,
        res: e.res as i64,
        ok: e.ok as i64,
        ord: e.ord as i64,
        ord_fail: e.ord_fail as i64,
    }
}

fn readable(fd: i32) -> bool {
    let mut p = libc::pollfd { fd, events: libc::POLLIN, revents: 0 };
    let r = unsafe { libc::poll(&mut p, 1, 0) };
    r > 0 && (p.revents & (libc::POLLIN | libc::POLLHUP | libc::POLLERR)) != 0
}

fn park(k: usize, op: i64, loc: i64, arg: i64) -> Directive {
    let _h = HarnessScope::enter();
    let s = sched().expect("scheduler");
    let mut g = s.inner.lock().unwrap();
    loop {
        g.acts[k].status = Status::Parked;
        g.acts[k].parked_op = op;
        g.acts[k].parked_loc = loc;
        g.acts[k].parked_arg = arg;
        s.cv.notify_all();
        while !g.acts[k].grant {
            g = s.cv.wait(g).unwrap();
        }
        g.acts[k].grant = false;
        // A blocking read with nothing to read: the step cannot be taken; record it and stay.
        if op == Op::Syscall as u8 as i64 && arg == 3 && !readable(loc as i32) {
            g.trace.push(Line { act: k as i64, op: OP_BLOCKED, loc, arg, arg2: 0, res: 0, ok: 0, ord: 255, ord_fail: 255 });
            continue;
        }
        g.acts[k].status = Status::Running;
        return g.acts[k].directive;
    }
}

fn hook_before(e: &Event) -> Directive {
    match ACT.with(|a| a.get()) {
        None => Directive::Proceed,
        Some(k) => park(k, op_code(e.op), e.addr as i64, e.arg as i64),
    }
}

fn hook_after(e: &Event) {
    let _h = HarnessScope::enter();
    let s = match sched() {
        Some(s) => s,
        None => return,
    };
    let k = ACT.with(|a| a.get());
    let mut g = s.inner.lock().unwrap();
    // set-up code (no activity) is recorded with act = -1 so allocation epochs can be followed
    let l = line_of(k.unwrap_or(usize::MAX), e);
    let l = if k.is_none() { Line { act: -1, ..l } } else { l };
    g.trace.push(l);
}

static HOOKS: verif::Hooks = verif::Hooks { before: hook_before, after: hook_after };

/// A scheduling point of the harness' own code (actions, foreign handlers, call/return marks).
pub fn user_point(op: i64, loc: i64, arg: i64, res: i64) {
    let _h = HarnessScope::enter();
    if let Some(k) = ACT.with(|a| a.get()) {
        park(k, op, loc, arg);
        let s = sched().unwrap();
        let mut g = s.inner.lock().unwrap();
        g.trace.push(Line { act: k as i64, op, loc, arg, arg2: 0, res, ok: 1, ord: 255, ord_fail: 255 });
    }
}

/// An event of the harness' own code that is NOT a scheduling point (appended to the trace).
pub fn user_note(op: i64, loc: i64, arg: i64, res: i64) {
    let _h = HarnessScope::enter();
    if let Some(s) = sched() {
        let k = ACT.with(|a| a.get()).map(|k| k as i64).unwrap_or(-1);
        let mut g = s.inner.lock().unwrap();
        g.trace.push(Line { act: k, op, loc, arg, arg2: 0, res, ok: 1, ord: 255, ord_fail: 255 });
    }
}

pub struct RunResult {
    pub trace: Vec<Line>,
    pub finished: Vec<bool>,
    pub panicked: Vec<bool>,
    /// the drain phase gave up: some activity can make no progress
    pub stuck: bool,
    /// grants used by the drain phase
    pub drain_steps: usize,
}

pub type Activity = Box<dyn FnOnce() + Send + 'static>;

/// Installs the hooks and a fresh scheduler (once per process: run each scenario in a forked
/// child).  Trace lines of set-up code executed after this call are kept (act = -1).
pub fn init() {
    let s = Arc::new(Sched { inner: Mutex::new(Inner { acts: Vec::new(), trace: Vec::new() }), cv: Condvar::new() });
    unsafe {
        SCHED = Some(s);
    }
    verif::install(&HOOKS);
}

fn wait_quiet(s: &Sched, k: usize, deadline: Instant) -> bool {
    let mut g = s.inner.lock().unwrap();
    loop {
        match g.acts[k].status {
            Status::Parked | Status::Finished | Status::Panicked => return true,
            _ => {}
        }
        let now = Instant::now();
        if now >= deadline {
            return false;
        }
        let (g2, _) = s.cv.wait_timeout(g, deadline - now).unwrap();
        g = g2;
    }
}

/// Runs the activities under `schedule` (activity index, choice: 1 = make a weak CAS fail
/// spuriously).  Entries naming a finished activity are no-ops.  If `drain`, afterwards every
/// unfinished activity is stepped round-robin until all finish or nothing changes any more.
pub fn run(activities: Vec<Activity>, schedule: &[(usize, u8)], drain: bool, max_drain: usize) -> RunResult {
    let s = sched().expect("sched::init not called").clone();
    let n = activities.len();
    {
        let mut g = s.inner.lock().unwrap();
        g.acts = (0..n)
            .map(|_| Act { status: Status::NotStarted, grant: false, directive: Directive::Proceed, parked_op: 0, parked_loc: 0, parked_arg: 0 })
            .collect();
    }
    let mut handles = Vec::new();
    for (k, f) in activities.into_iter().enumerate() {
        let s2 = s.clone();
        handles.push(std::thread::spawn(move || {
            ACT.with(|a| a.set(Some(k)));
            park(k, OP_START, 0, 0);
            let r = std::panic::catch_unwind(std::panic::AssertUnwindSafe(f));
            ACT.with(|a| a.set(None));
            let mut g = s2.inner.lock().unwrap();
            g.acts[k].status = if r.is_ok() { Status::Finished } else { Status::Panicked };
            s2.cv.notify_all();
        }));
    }
    let far = || Instant::now() + Duration::from_secs(20);
    for k in 0..n {
        assert!(wait_quiet(&s, k, far()), "activity {} did not reach its start", k);
    }
    let mut step = |k: usize, c: u8| -> bool {
        // returns true if the activity was still alive (a step was granted)
        {
            let mut g = s.inner.lock().unwrap();
            if g.acts[k].status != Status::Parked {
                return false;
            }
            g.acts[k].directive = if c == 1 { Directive::FailSpuriously } else { Directive::Proceed };
            g.acts[k].grant = true;
            // mark as running so wait_quiet waits for the *next* park
            g.acts[k].status = Status::Running;
            s.cv.notify_all();
        }
        assert!(wait_quiet(&s, k, far()), "activity {} did not come back from a step (blocked outside a scheduling point?)", k);
        true
    };
    for &(k, c) in schedule {
        if k < n {
            step(k, c);
        }
    }
    let mut stuck = false;
    let mut drain_steps = 0;
    if drain {
        // progress = trace contains something else than failed lock attempts / hints / blocked reads
        let mut idle_rounds = 0;
        loop {
            let alive: Vec<usize> = {
                let g = s.inner.lock().unwrap();
                (0..n).filter(|&k| g.acts[k].status == Status::Parked).collect()
            };
            if alive.is_empty() {
                break;
            }
            let before_len = s.inner.lock().unwrap().trace.len();
            for &k in &alive {
                step(k, 0);
                drain_steps += 1;
            }
            let progressed = {
                let g = s.inner.lock().unwrap();
                g.trace[before_len..].iter().any(|l| {
                    !((l.op == Op::Lock as u8 as i64 && l.ok == 0)
                        || l.op == Op::Yield as u8 as i64
                        || l.op == Op::Spin as u8 as i64
                        || l.op == OP_BLOCKED
                        || (l.op == Op::Load as u8 as i64 && false))
                })
            };
            // a spinning writer only loads counters: treat "only loads/hints" rounds as idle too
            let only_polling = {
                let g = s.inner.lock().unwrap();
                g.trace[before_len..].iter().all(|l| {
                    (l.op == Op::Lock as u8 as i64 && l.ok == 0)
                        || l.op == Op::Yield as u8 as i64
                        || l.op == Op::Spin as u8 as i64
                        || l.op == OP_BLOCKED
                        || l.op == Op::Load as u8 as i64
                })
            };
            if !progressed || only_polling {
                idle_rounds += 1;
            } else {
                idle_rounds = 0;
            }
            if idle_rounds > 64 || drain_steps > max_drain {
                stuck = true;
                break;
            }
        }
    }
    let (trace, finished, panicked) = {
        let g = s.inner.lock().unwrap();
        (
            g.trace.clone(),
            g.acts.iter().map(|a| a.status == Status::Finished || a.status == Status::Panicked).collect::<Vec<_>>(),
            g.acts.iter().map(|a| a.status == Status::Panicked).collect::<Vec<_>>(),
        )
    };
    // threads still parked are abandoned (the scenario runs in a forked child that exits now)
    for (k, h) in handles.into_iter().enumerate() {
        if finished[k] {
            let _ = h.join();
        }
    }
    RunResult { trace, finished, panicked, stuck, drain_steps }
}
