//! C11, dynamic monitor on the REAL asynchronous adapters (signal-hook-tokio with tokio's
//! reactor, signal-hook-async-std with async-io's): Stream::poll_next is polled by hand with a
//! counting waker in the situations
//!   S1 nothing pending -> Poll::Pending; after a later raise the waker fires; next poll Ready(Some)
//!   S2 closed before the first poll -> Ready(None)
//!   S3 Pending, then close() -> the waker fires; next poll Ready(None)
//!   S4 as S3 and S5 as S1, but with a STALE wake-up byte in the self-pipe: two deliveries, each consumed at
//!      once (the second is picked up by the batch still held by the stream, its byte stays behind)
//! One line per situation:  `<adapter> <Sx> first=<..> wakes0=<n> wakes1=<n> second=<..>`
use futures_core::Stream;
use std::future::Future;
use std::pin::Pin;
use std::sync::atomic::{AtomicUsize, Ordering};
use std::sync::Arc;
use std::task::{Context, Poll, RawWaker, RawWakerVTable, Waker};
use std::time::{Duration, Instant};

const SIG: i32 = libc::SIGUSR1;

// ---- a waker that counts how often it is woken ----
fn counting_waker(c: Arc<AtomicUsize>) -> Waker {
    unsafe fn clone(p: *const ()) -> RawWaker {
        Arc::increment_strong_count(p as *const AtomicUsize);
        RawWaker::new(p, &VT)
    }
    unsafe fn wake(p: *const ()) {
        let a = Arc::from_raw(p as *const AtomicUsize);
        a.fetch_add(1, Ordering::SeqCst);
    }
    unsafe fn wake_by_ref(p: *const ()) {
        (*(p as *const AtomicUsize)).fetch_add(1, Ordering::SeqCst);
    }
    unsafe fn drop_w(p: *const ()) {
        drop(Arc::from_raw(p as *const AtomicUsize));
    }
    static VT: RawWakerVTable = RawWakerVTable::new(clone, wake, wake_by_ref, drop_w);
    unsafe { Waker::from_raw(RawWaker::new(Arc::into_raw(c) as *const (), &VT)) }
}

fn show(p: &Poll<Option<i32>>) -> String {
    match p {
        Poll::Pending => "Pending".to_string(),
        Poll::Ready(None) => "Ready(None)".to_string(),
        Poll::Ready(Some(s)) => format!("Ready(Some({}))", s),
    }
}

fn poll_once<S: Stream<Item = i32> + Unpin>(s: &mut S, w: &Waker) -> Poll<Option<i32>> {
    let mut cx = Context::from_waker(w);
    Pin::new(s).poll_next(&mut cx)
}

/// a future that completes after `d`, woken by a helper thread (so a current-thread tokio runtime
/// parks on its I/O driver in the meantime and delivers readiness events)
struct Nap(Instant, bool);
impl Future for Nap {
    type Output = ();
    fn poll(mut self: Pin<&mut Self>, cx: &mut Context<'_>) -> Poll<()> {
        if Instant::now() >= self.0 {
            return Poll::Ready(());
        }
        if !self.1 {
            self.1 = true;
            let w = cx.waker().clone();
            let until = self.0;
            std::thread::spawn(move || {
                let now = Instant::now();
                if until > now {
                    std::thread::sleep(until - now);
                }
                w.wake();
            });
        }
        Poll::Pending
    }
}

fn situation<S, D>(adapter: &str, which: &str, mut stream: S, handle: signal_hook::iterator::Handle, mut drive: D)
where
    S: Stream<Item = i32> + Unpin,
    D: FnMut(),
{
    let count = Arc::new(AtomicUsize::new(0));
    let waker = counting_waker(count.clone());
    if which == "S2" {
        handle.close();
    }
    if which == "S4" || which == "S5" {
        for _ in 0..2 {
            unsafe { libc::raise(SIG) };
            let mut got = false;
            for _ in 0..40 {
                match poll_once(&mut stream, &waker) {
                    Poll::Ready(Some(_)) => {
                        got = true;
                        break;
                    }
                    Poll::Ready(None) => break,
                    Poll::Pending => drive(),
                }
            }
            if !got {
                println!("{} {} first=prefix-lost wakes0=0 wakes1=0 second=-", adapter, which);
                return;
            }
        }
        drive();
    }
    let first = poll_once(&mut stream, &waker);
    let w0 = count.load(Ordering::SeqCst);
    match which {
        "S1" | "S5" => unsafe {
            libc::raise(SIG);
        },
        "S3" | "S4" => handle.close(),
        _ => {}
    }
    // let the reactor run (at most ~1.5 s) until the waker has fired
    for _ in 0..30 {
        drive();
        if count.load(Ordering::SeqCst) > w0 {
            break;
        }
    }
    let w1 = count.load(Ordering::SeqCst);
    let second = poll_once(&mut stream, &waker);
    println!("{} {} first={} wakes0={} wakes1={} second={}", adapter, which, show(&first), w0, w1, show(&second));
}

/// signal-hook-mio with mio 1.0: the instance as an event source.  One line per situation:
///   mio M1 a raise after registration makes the poll return an event and pending() yields the signal once
///   mio M2 nothing delivered: the poll times out without an event
///   mio M3 after pending() has drained the pipe a further raise wakes the poll again
///   mio M4 a signal added later through add_signal is reported too
fn mio_cases() {
    use mio::{Events, Interest, Poll as MPoll, Token};
    let mut poll = MPoll::new().unwrap();
    let mut events = Events::with_capacity(8);
    let mut signals = signal_hook_mio::v1_0::Signals::new(&[SIG]).unwrap();
    poll.registry().register(&mut signals, Token(7), Interest::READABLE).unwrap();
    // M2 first: nothing delivered yet
    poll.poll(&mut events, Some(Duration::from_millis(100))).unwrap();
    println!("mio M2 events={} pending={:?}", events.iter().count(), signals.pending().collect::<Vec<_>>());
    unsafe { libc::raise(SIG) };
    poll.poll(&mut events, Some(Duration::from_millis(2000))).unwrap();
    let n = events.iter().filter(|e| e.token() == Token(7) && e.is_readable()).count();
    println!("mio M1 events={} pending={:?}", n, signals.pending().collect::<Vec<_>>());
    unsafe { libc::raise(SIG) };
    poll.poll(&mut events, Some(Duration::from_millis(2000))).unwrap();
    let n = events.iter().filter(|e| e.token() == Token(7) && e.is_readable()).count();
    println!("mio M3 events={} pending={:?}", n, signals.pending().collect::<Vec<_>>());
    signals.add_signal(libc::SIGUSR2).unwrap();
    unsafe { libc::raise(libc::SIGUSR2) };
    poll.poll(&mut events, Some(Duration::from_millis(2000))).unwrap();
    let n = events.iter().filter(|e| e.token() == Token(7) && e.is_readable()).count();
    println!("mio M4 events={} pending={:?}", n, signals.pending().collect::<Vec<_>>());
}

fn main() {
    unsafe {
        libc::alarm(60);
    }
    mio_cases();
    for which in ["S1", "S2", "S3", "S4", "S5"].iter() {
        // ---- tokio ----
        {
            let rt = tokio::runtime::Builder::new_current_thread().enable_io().build().unwrap();
            let signals = {
                let _g = rt.enter();
                signal_hook_tokio::Signals::new(&[SIG]).unwrap()
            };
            let handle = signals.handle();
            // polling must happen inside the runtime context (poll_read registers with its reactor)
            let _g = rt.enter();
            situation("tokio", which, signals, handle, || rt.block_on(Nap(Instant::now() + Duration::from_millis(50), false)));
        }
        // ---- async-std (async-io's reactor runs on its own thread) ----
        {
            let signals = signal_hook_async_std::Signals::new(&[SIG]).unwrap();
            let handle = signals.handle();
            situation("asyncstd", which, signals, handle, || std::thread::sleep(Duration::from_millis(50)));
        }
    }
}
