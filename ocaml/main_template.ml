(* Generic driver for an extracted model: every exported function has type  z list -> z list.
   stdin:  one request per line:  <function name> <int> <int> ...
   stdout: one line per request:  <int> <int> ...          (or  !error <msg>) *)
module M = MODULE

let rec pos_of_int n = if n = 1 then M.XH else if n land 1 = 0 then M.XO (pos_of_int (n lsr 1)) else M.XI (pos_of_int (n lsr 1))
let z_of_int n = if n = 0 then M.Z0 else if n > 0 then M.Zpos (pos_of_int n) else
  if n = min_int then failwith "min_int" else M.Zneg (pos_of_int (- n))
let rec int_of_pos = function M.XH -> 1 | M.XO p -> 2 * int_of_pos p | M.XI p -> 2 * int_of_pos p + 1
let int_of_z = function M.Z0 -> 0 | M.Zpos p -> int_of_pos p | M.Zneg p -> - (int_of_pos p)

let table : (string * (M.z list -> M.z list)) list = [ TABLE ]

let () =
  try
    while true do
      let line = input_line stdin in
      let toks = List.filter (fun s -> s <> "") (String.split_on_char ' ' (String.trim line)) in
      match toks with
      | [] -> print_newline ()
      | f :: args ->
        (match List.assoc_opt f table with
         | None -> print_string ("!error unknown function " ^ f); print_newline ()
         | Some fn ->
           let zs = List.map (fun a -> z_of_int (int_of_string a)) args in
           let out = fn zs in
           print_string (String.concat " " (List.map (fun z -> string_of_int (int_of_z z)) out));
           print_newline ())
    done
  with End_of_file -> ()
