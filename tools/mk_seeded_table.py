#!/usr/bin/env python3
"""Prints the markdown table of DESIGN.md section 12 from seeded/*/meta.json."""
import json, os, glob
ROOT = os.path.dirname(os.path.dirname(os.path.abspath(__file__)))
rows = []
for m in sorted(glob.glob(os.path.join(ROOT, 'seeded', '*', 'meta.json'))):
    d = json.load(open(m))
    name = os.path.basename(os.path.dirname(m))
    def fmt(v):
        out = []
        for c, r in sorted((v or {}).items()):
            if r['rc'] == 0:
                out.append('%s: passes' % c)
            elif r.get('concrete_input'):
                out.append('**%s: input**' % c)
            else:
                out.append('%s: proof/tie only' % c)
        return ', '.join(out) or '-'
    first = fmt(d.get('checks'))
    after = fmt(d.get('checks_after_strengthening')) if d.get('checks_after_strengthening') else ''
    rows.append('| `%s` | %s | %s | %s | %s |' % (name, d.get('breaks_property'), d.get('change', '')[:110], first, after))
print('| seeded change | property | what it does | checks, first run | after strengthening |')
print('|---|---|---|---|---|')
print('\n'.join(rows))

if __name__ == '__main__':
    import sys
    if '--inject' in sys.argv:
        p = os.path.join(ROOT, 'DESIGN.md')
        s = open(p).read()
        a, b = s.index('<!-- SEEDED-TABLE-BEGIN -->'), s.index('<!-- SEEDED-TABLE-END -->')
        table = ['| seeded change | property | what it does | checks, first run | after strengthening |', '|---|---|---|---|---|'] + rows
        s = s[:a] + '<!-- SEEDED-TABLE-BEGIN -->\n' + '\n'.join(table) + '\n' + s[b:]
        open(p, 'w').write(s)
