#!/usr/bin/env python3
"""tools/harmless_edit.py <repo copy>
Inserts comment and blank lines (with quotes, braces, apostrophes and keywords in them) after every third
statement line of every library source file of a COPY of the repository, and C comments into extract.c: an
edit that changes no behaviour.  Used to check that no check raises an alarm on it:
    rsync -a --exclude target /repo/ /scratch/h/repo/; tools/harmless_edit.py /scratch/h/repo
    tools/altverif /scratch/h/repo /scratch/h/verif; (cd /scratch/h/verif; VERIF_REPO=/scratch/h/repo ./check C01 ...)"""
import os, sys
root = sys.argv[1]
n = 0
for d, _, fs in os.walk(root):
    if '/target' in d or '/.git' in d or '/tests' in d or '/examples' in d or '/benches' in d:
        continue
    for f in fs:
        p = os.path.join(d, f)
        if f.endswith('.rs') and '/src/' in p + '/':
            out, k, in_doc = [], 0, False
            lines = open(p).read().split('\n')
            for i, l in enumerate(lines):
                out.append(l)
                st = l.strip()
                nxt = lines[i + 1].strip() if i + 1 < len(lines) else ''
                # only between statements: the line ends a statement, the next one does not continue a chain / start an else
                if st.endswith(';') and not st.startswith('//') and not st.startswith('#') and not nxt.startswith(('.', '?', 'else', ')', ']', '}')) \
                        and not st.startswith(('use ', 'pub use ', 'mod ', 'pub mod ', 'extern ')) and '\\' not in st and st.count('"') % 2 == 0:
                    k += 1
                    if k % 3 == 0:
                        ind = l[:len(l) - len(l.lstrip())]
                        out.append(ind + "// harmless: it's a \"comment\" { with } 'tokens' like unsafe fn loop while lock().unwrap() ; return")
                        out.append('')
                        n += 2
            open(p, 'w').write('\n'.join(out))
        elif f == 'extract.c':
            s = open(p).read().replace(';\n', '; /* harmless "comment" { } */\n', 5)
            open(p, 'w').write(s)
print('inserted', n, 'lines')
