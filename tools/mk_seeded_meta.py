#!/usr/bin/env python3
"""Writes seeded/<name>/meta.json from the descriptions below and the logs left by tools/process_mutant
(confirm.log: applies / existing tests / demonstration; checks.log: verdict of each check)."""
import json, os, re
ROOT = os.path.dirname(os.path.dirname(os.path.abspath(__file__)))
D = {
 'C04-fallback-after-sigaction': ('C04', 'fallback stored after Slot::new (sigaction) instead of before', 'a delivery inside the interval between sigaction and the fallback store of a first registration, with a real previous handler'),
 'C04-fallback-read-after-drop': ('C04', 'dispatcher reads the slot table first, drops that guard, then reads the fallback', '5-step schedule: first registration of S past sigaction; delivery of S sees no slot and drops its guard; register(S) completes; a first registration of T overwrites the fallback; the delivery reads T\'s entry'),
 'C01-barrier-skips-fresh-slot': ('C01', 'write_barrier flips the generation first and pre-marks the new slot as seen', 'a delivery stalled between its generation load and its fetch_add across one complete write, then a second write while it is in the handler'),
 'C01-add-signal-unlocked': ('C01', 'Handle::add_signal releases its mutex across the registration', 'two concurrent add_signal(sig) on clones of one handle, then dropping every owner: one registration survives'),
 'C02-unregister-clone-outside-lock': ('C02', 'unregister clones the registry under a read guard and locks only for the store', 'a register/unregister committing between the clone and the store of an overlapping unregister'),
 'C02-id-reuse': ('C02', 'unregister of the newest action gives its id back (next_id decremented)', 'register X; unregister X; register Y (same signal); unregister X again; deliver'),
 'C05-unregister-lost-update': ('C05', 'unregister snapshots under a read guard and retries only if next_id changed', 'two removals from two threads, the second completing between the first one\'s snapshot and its write lock'),
 'C05-restore-prev-handler': ('C05', 'unregister of the last action re-installs the previous real handler and drops the slot', 'a non-default previous handler; register; unregister down to zero; inspect the disposition / EINTR'),
 'C14-forbidden-check-skipped-when-slot-exists': ('C14', 'the forbidden assertion is skipped when the signal already has a slot', 'an unchecked registration of ILL/FPE/SEGV first, then any checked entry point for the same signal'),
 'C14-refused-pipe-leaks-fd': ('C14', 'register_raw asserts !FORBIDDEN before the WakeFd owner exists (non-socket branch)', 'a forbidden signal together with a non-socket descriptor (pipe, file)'),
 'C16-kill-special-case-dropped': ('C16', 'the SIGKILL/SIGSTOP early return of emulate_default_handler removed', 'signal 9: dies of SIGABRT instead of SIGKILL'),
 'C16-sigset-handwritten': ('C16', 'the 32-bit-android prepare_sigset (bytes per word) used everywhere', 'the signal is blocked (own handler) and its number is above 8'),
 'C17-cld-codes-any-signal': ('C17', 'extract.c no longer restricts CLD_* codes to SIGCHLD', 'a non-SIGCHLD signal with a small positive si_code (O_ASYNC + F_SETSIG, SIGTRAP, seccomp)'),
 'C17-process-from-unknown': ('C17', 'has_process true for Unknown + zero-filter generalised', 'an unknown cause code with non-zero bytes at the pid/uid offsets (second POSIX timer, SI_SIGIO)'),
 'C15-usize-fetch-or': ('C15', 'register_usize uses fetch_or instead of store', 'a non-zero previous value with bits outside the registered value'),
 'C15-shutdown-swap-arms': ('C15', 'conditional shutdown uses swap(true) instead of load', 'condition false, two deliveries, nobody arms in between'),
 'C03-wake-retries-eagain': ('C03', 'pipe::wake retries while EAGAIN/EINTR', 'a completely full self-pipe whose reader is not running'),
 'C03-send-spins-inflight': ('C03', 'Channel::send loops when the empty queue is empty but the full queue holds fewer than 5', '4 values waiting and the fifth slot in flight (inside recv or another send) when the handler sends'),
 'C12-assert-moved-unwrap-back': ('C12', 'forbidden assertion moved before the lock, lock back to unwrap()', 'a caught add_signal(-1) or add_signal(200), then any further add_signal'),
 'C12-drop-skips-on-poison': ('C12', 'DeliveryState::drop skips the clean-up when the mutex is poisoned', 'a successful registration, a panic-rejected add_signal, then dropping every owner'),
 'C13-setfd-instead-of-setfl': ('C13', 'set_flags uses F_GETFD/F_SETFD (O_NONBLOCK never set)', 'a blocking pipe whose write end is completely full at a delivery'),
 'C13-double-close-on-error': ('C13', 'register_raw closes the descriptor again when the registration returns an error', 'a rejection by error return (invalid signal number)'),
 'C18-seen-not-sticky': ('C18', 'update_seen overwrites the seen flag instead of or-ing it', 'deliveries on two threads that keep overlapping while a mutator runs'),
 'C06-enqueue-stale-position': ('C06', 'enqueue computes the free position once, before its CAS retry loop', 'a CAS failure caused by another enqueue on the same queue (two senders, or a send nested in a send): the retry writes over the position the other one filled'),
 'C06-recv-enqueue-relaxed': ('C06', 'enqueue takes the success ordering as a parameter; recv returns the slot to `empty` with Relaxed', 'weak hardware or the declared-orderings view: the next send\'s cell write is not ordered after the take (invisible on x86)'),
 'C07-dequeue-stale-val': ('C07', 'dequeue computes the head once, before its CAS retry loop', 'a CAS failure caused by another dequeue on the same queue: both own the same slot (cell overwritten / taken while empty)'),
 'C07-empty-queue-relaxed': ('C07', 'the enqueue on the `empty` queue (recv, new) is Relaxed', 'declared-orderings view only: take -> later cell write unordered; x86 cannot show it'),
 'C08-send-waits-for-slot': ('C08', 'send spins on dequeue(empty) while fewer than 5 values are in `full`', 'all slots used with one in flight and a send arriving in that window on the same thread (handler inside recv/send)'),
 'C08-dequeue-hoisted-head': ('C08', 'dequeue hoists `val`/emptiness test out of the retry loop', 'send-in-send or recv-in-recv at the instruction between load and CAS: both own one index, recv panics "Full slot with nothing in it"'),
 'C10-add-signal-lock-gap': ('C10', 'Handle::add_signal checks and records under two separate lock acquisitions, registering unlocked in between', 'two overlapping add_signal(S) on clones of one handle, then one delivery of S: two actions feed one channel, two records per delivery'),
 'C10-recv-enqueue-before-take': ('C10', 'Channel::recv returns the slot to `empty` before taking the value out of it', 'buffer full (5 records) and a delivery of the same signal between the enqueue and the take: the newest record overwrites the oldest, later panic'),
 'C11-empty-batch-pending': ('C11', 'poll_signal returns Pending at once when the fresh batch after an "available" answer is empty', 'close() (or a signal picked up by the old scan) whose byte is consumed by the callback: Pending comes back with the last answer "available", nothing armed'),
 'C11-closed-check-after-callback': ('C11', 'poll_pending consults the (blocking) callback first and looks at the closed flag afterwards', 'close(); wait(); wait()  - or close(); pending(); wait(): the second blocking read has no byte left'),
 'C09-wake-coalescing-flag': ('C09', 'a `notified` flag lets the action write its wake-up byte only on a false->true flip; pending() clears it before flush()', 'a delivery between the clear and the recv of flush(): the flag stays true with an empty pipe, every later delivery stores but never wakes'),
 'C09-init-after-register': ('C09', 'PendingSignals::add_signal prepares the exfiltrator slot only after the registration succeeded', 'the added signal delivered between the action becoming visible and init (WithRawSiginfo/WithOrigin): the record is dropped, the wake-up is written'),
 'C02-id-handed-back': ('C02', 'unregister of the most recently issued id decrements next_id', 'register A; unregister A; register C (same signal); unregister(id_a) again removes C'),
 'C02-barrier-marks-other-slot': ('C02', 'write_barrier marks the other slot as drained after the generation flip', 'a delivery stalled between its generation load and its increment across one write, then a second write while it runs actions'),
 'C05-id-handed-back': ('C05', 'unregister rolls next_id back when the removed action carries the newest id', 'a = register; unregister(a); b = register (b == a); unregister(a) again returns true and removes b'),
 'C05-inherit-prev-flags': ('C05', 'Slot::new ORs the previous handler\'s sa_flags / sa_mask into the library\'s sigaction', 'a pre-existing foreign handler installed with SA_RESETHAND, take-over, one delivery: the disposition falls back to SIG_DFL'),
 'C13-early-assert-leaks-fd': ('C13', 'register_raw asserts !FORBIDDEN before anything owns the raw descriptor', 'a forbidden signal with catch_unwind: the descriptor is never closed'),
 'C13-drop-restores-blocking': ('C13', 'WakeFd remembers the original file status flags and restores them on drop', 'two registrations sharing one pipe description (dup), the older removed, then a delivery on a full pipe: write blocks in the handler'),
 'C14-forbidden-check-in-vacant-branch': ('C14', 'the FORBIDDEN assertion runs only when the signal has no slot yet', 'an unchecked registration of ILL/FPE/SEGV first, then any checked entry point for the same number'),
 'C14-early-assert-leaks-pipe': ('C14', 'pipe::register_raw (non-socket branch) asserts !FORBIDDEN before the WakeFd guard exists', 'a forbidden signal with a pipe / FIFO / eventfd descriptor and a look at the descriptor table afterwards'),
 'C15-exit-thread-only': ('C15', 'low_level::exit issues the raw SYS_exit syscall before _exit', 'a process with at least two threads when the armed shutdown fires: only the receiving thread ends'),
 'C15-skip-actions-when-ignored': ('C15', 'the handler returns after chaining when the previous disposition was SIG_IGN', 'the signal was ignored when its first action was registered (nohup, background job): no flag is ever set'),
 'C17-nonpositive-code-is-user': ('C17', 'extract.c classifies every unknown si_code <= 0 as User', 'SI_TIMER / SI_ASYNCIO / SI_SIGIO deliveries: cause Sent(User) and union bytes read as a process'),
 'C17-zero-process-dropped': ('C17', 'the macOS "pid 0 uid 0 means no process" heuristic applied on every OS', 'a root sender outside the PID namespace (or a synthetic record) with pid 0 and uid 0'),
 'C16-reraise-to-process': ('C16', 'emulate_default_handler re-raises with kill(getpid()) instead of raise()', 'a multi-threaded process, the call on a non-main thread, a core-dumping signal: abort() wins the race, death by SIGABRT'),
 'C16-restore-default-skips-ignored': ('C16', 'restore_default returns early when the disposition is SIG_DFL or SIG_IGN', 'a terminating signal that is ignored at call time (SIGPIPE in any Rust binary, nohup): the re-raise is discarded, abort()'),
 'C01-first-look-before-swap': ('C01', 'the barrier\'s first look at the reader slots is hoisted above data.swap(new)', 'a delivery on another thread doing fetch_add + data.load between that look and the swap: old snapshot freed under it'),
 'C01-add-signal-lock-released': ('C01', 'Handle::add_signal does not hold its mutex across the registration', 'two concurrent add_signal(sig) on clones of one handle; the owner dropped afterwards: an orphaned action keeps running'),
 'C04-fallback-reset-after-unlock': ('C04', 'register clears race_fallback after releasing the data mutex', 'T1\'s delayed tail overwrites the fallback another first registration has just stored; a delivery in that window chains to nothing'),
 'C04-no-actions-early-return': ('C04', 'the handler returns before chaining when the slot has no actions', 'foreign handler first, register, unregister everything, deliver'),
 'C03-wake-blocking-send': ('C03', 'wake uses MSG_NOSIGNAL in place of MSG_DONTWAIT on Linux', 'a blocking socket write end and ~278 undrained deliveries: the handler sleeps in send'),
 'C03-shutdown-process-exit': ('C03', 'register_conditional_shutdown calls std::process::exit', 'the shutdown fires while an exit hook needs a lock held by the interrupted thread / another thread is exiting'),
 'C12-drop-skipped-while-unwinding': ('C12', 'DeliveryState::drop returns early if thread::panicking()', 'the last owner dropped during unwinding (Signals::new(&[USR1, KILL]) under catch_unwind)'),
 'C12-init-guard-removed': ('C12', 'FORBIDDEN asserted before init; the already-initialised early return of WithRawSiginfo::init removed', 'a number sigaction refuses (0, 32, 33, 65..127) added twice with WithRawSiginfo'),
 'C18-first-probe-after-flip': ('C18', 'write_barrier flips the generation before its first update_seen probe', 'a delivery entering the idle slot between the flip and the probe, then continuously overlapping deliveries: starvation'),
 'C18-reader-moves-slot': ('C18', 'HalfLock::read moves to the fresh slot after a generation change without undoing its first increment', 'a writer\'s flip between two loads of a delivery on another thread: a slot stays at +1, the next writer spins forever'),
 'C06-dequeue-head-once': ('C06', 'dequeue computes head and emptiness once before the CAS retry loop', 'two overlapping dequeues on one queue word (two producers / two consumers / send in send)'),
 'C06-recv-handback-first': ('C06', 'recv enqueues the slot to `empty` before take()', 'a completely full channel and a send between the hand-back and the take'),
 'C07-acquire-on-load': ('C07', 'dequeue acquires on its initial load and claims with a Relaxed CAS', 'two dequeuers on one queue word plus the opposite side: the retried CAS claims a head it never acquired (a C11 race x86 cannot show)'),
 'C07-maybeuninit-drop-by-position': ('C07', 'Option<T> cells become MaybeUninit<T>; the new Drop walks `full` but drops storage[position]', 'send a; send b; recv a; drop(channel): a dropped twice, b leaked'),
 'C11-close-wakes-before-flag': ('C11', 'close() sends the wake-up byte before storing the closed flag (inside if !is_closed())', 'the consumer drains the byte and re-checks the flag between the closer\'s send and store: blocks again for good'),
 'C11-close-unwraps-poisoned-lock': ('C11', 'close() takes the ids mutex with unwrap(); add_signal returns early when closed', 'a caught panicking add_signal (forbidden signal) poisons the mutex; every later close() panics before the flag store'),
 'C10-recv-handback-early': ('C10', 'Channel::recv hands the slot back before take() (independent rediscovery, round 2)', '5 outstanding records and a delivery between the early enqueue and the take'),
 'C10-add-signal-check-then-act': ('C10', 'Handle::add_signal: check and record under separate lock acquisitions (independent rediscovery, round 2)', 'two add_signal(S) at once on one instance, info-carrying exfiltrator: two records per delivery'),
 'C13-close-retried-on-eintr': ('C13', 'Drop for WakeFd retries close() while it reports EINTR', 'close() interrupted (EINTR): on Linux the descriptor is already gone, the retry closes a number another thread may own'),
 'C13-errno-restored-then-read': ('C13', 'wake saves/restores errno and returns bool; WakeFd::wake retries while the (restored) errno is EINTR', 'a full write end and a stale EINTR in the interrupted code\'s errno: the handler spins forever'),
 'C02-unregister-signal-stale-copy': ('C02', 'unregister_signal reads and clones outside the writers\' mutex, then locks and stores', 'a register/unregister completing between the read-clone and the lock: it is overwritten, next_id rolled back'),
 'C02-seen-zero-before-swap': ('C02', 'write() probes the reader slots right after taking the mutex and the barrier starts from that result', 'a delivery taking its guard between write() and the swap is not waited for: freed snapshot, action runs after removal returned'),
 'C16-sigpwr-ignore': ('C16', 'DETAILS gains SIGSTKFLT (Term) and SIGPWR (Ignore)', 'signal 30: Linux terminates on SIGPWR, the emulation continues'),
 'C16-unblock-only-if-handled': ('C16', 'restore_default reports whether a handler was replaced; the Term branch unblocks only then', 'the signal blocked with disposition SIG_DFL / SIG_IGN at call time: the re-raise stays pending, abort()'),
 'C09-iterator-starts-exhausted': ('C09', 'SignalIterator::new builds an exhausted batch instead of calling pending()', 'two signals in one batch, one taken from forever(), the iterator dropped, a fresh forever(): blocks'),
 'C09-watched-end-raised-late': ('C09', 'Pending::next scans up to a high-water mark that add_signal raises only after register_sigaction returned', 'add_signal of a higher number from another thread and a delivery between publication and return'),
 'C12-no-cleanup-while-unwinding': ('C12', 'DeliveryState::drop returns early when thread::panicking()', 'Signals::new(&[SIGUSR1, SIGKILL]) under catch_unwind; an instance dropped by an unrelated panic'),
 'C12-sigrtmax-id-lost': ('C12', 'the id table is sized min(SIGRTMAX, MAX_SIGNUM); add_signal uses get/get_mut', 'add_signal(64): registered, its SigId silently dropped'),
 'C05-slot-inherits-flags': ('C05', 'Slot::new re-installs the library handler with the previous handler\'s flags and mask or-ed in', 'a one-shot (SA_RESETHAND) handler installed before the first registration'),
 'C05-per-slot-id-counter': ('C05', 'the id counter moves into Slot; unregister_signal rebuilds the slot', 'register, unregister_signal, register again: ids 1, 2, .. handed out again; a stale id removes a live action'),
 'C15-sys-exit-first': ('C15', 'low_level::exit issues SYS_exit before _exit (independent rediscovery)', 'more than one thread when the armed shutdown fires'),
 'C15-swap-remove-order': ('C15', 'Slot.actions becomes a Vec; unregister uses swap_remove', 'three actions on one signal, the first unregistered: the last one jumps in front (shutdown/flag order flips)'),
 'C14-drop-leaves-poisoned-list': ('C14', 'DeliveryState::drop unregisters only if the mutex is not poisoned', 'a successful registration, a panic-refused one on the same instance, then the drop'),
 'C14-raw-exfiltrator-unchecked': ('C14', 'SignalOnly::supports_signal checks FORBIDDEN; PendingSignals::add_signal calls register_unchecked', 'a forbidden signal with WithRawSiginfo / WithOrigin'),
 'C03-wakefd-restores-flags': ('C03', 'WakeFd restores the original file status flags on drop (independent rediscovery)', 'two registrations sharing one pipe description, the older removed, a full pipe'),
 'C03-send-nosignal-only': ('C03', 'register_raw sets O_NONBLOCK on sockets too; send uses MSG_NOSIGNAL instead of MSG_DONTWAIT', 'the std iterator (blocking socket pair that never went through register_raw) and ~278 unread deliveries'),
 'C17-siginfo-flag-lost': ('C17', 'Slot::new re-installs the handler with old.sa_flags | SA_RESTART', 'a previous plain SA_ONSTACK handler: SA_SIGINFO is lost, Origin is built from stale memory'),
 'C17-zero-sentinel': ('C17', 'extract.c returns pid/uid 0 unless the code carries a process; has_process removed, (0,0) means None everywhere', 'a sender the kernel describes as pid 0 uid 0'),
 'C01-add-signal-two-locks': ('C01', 'Handle::add_signal takes its lock twice with the registration in between (independent rediscovery)', 'two overlapping add_signal(S) on one instance'),
 'C01-reader-moves-and-barrier-skips': ('C01', 'read() moves once to the current slot after a generation change; the barrier waits for the old slot only', 'the generation switched twice inside one read(), then a third write'),
 'C10-enqueue-aba': ('C10', 'enqueue hoists the free-position search out of its CAS loop and redoes it only if the head index changed', 'two handlers of one signal overlapping and a full turn of the ring: ABA on the head index'),
 'C10-constructor-duplicates': ('C10', 'add_signal split into a checking wrapper and register_new; the constructor calls register_new directly', 'a signal listed twice in the constructor\'s set: two records per delivery'),
 'C06-default-four-slots': ('C06', 'impl Default for Channel composes the empty-queue word itself with 1..SLOTS (slot 5 in neither queue)', 'a channel built through Default (Box::default() in WithRawSiginfo::init) and five values outstanding'),
 'C06-owed-guard-temporary': ('C06', 'a drop guard hands the slot back; recv builds it as a temporary, so the slot is back in `empty` before take()', 'a completely full channel and a send between the guard\'s drop and the take'),
 'C07-dequeue-stale-head': ('C07', 'dequeue hoists head and emptiness test out of its retry loop (independent rediscovery)', 'two dequeuers on one queue'),
 'C07-ptr-read-no-clear': ('C07', 'send uses ptr::write, recv uses ptr::read (the cell is not cleared)', 'send, recv, drop the channel: the free cell still holds the value and it is dropped again with the array'),
 'C04-detect-drops-siginfo-flag': ('C04', 'Prev::detect masks sa_flags with a list that lacks SA_SIGINFO', 'a previous three-argument handler and a delivery inside the first-registration window (fallback path)'),
 'C04-fallback-guard-scope': ('C04', 'a guard that clears the fallback lives in the Vacant arm and drops before the publication', 'a delivery between the guard\'s drop and the pointer swap: previous handler called 0 times'),
 'C11-has-signals-reads-chunks': ('C11', 'has_signals reads 64 bytes at a time and reads again after a full buffer', '63 undrained deliveries and close() before the read: the close byte fills the buffer, the second read blocks'),
 'C11-consulted-means-pending': ('C11', 'poll_pending returns None when closed after the callback said true; poll_signal answers Pending whenever the callback was consulted', 'close() between the two checks with the callback answering "available"'),
 'C08-dequeue-stale-head-r3': ('C08', 'dequeue reads head and emptiness once before its CAS loop (independent rediscovery, round 3)', 'a second dequeue on the same queue between the load and the CAS (send nested in send)'),
 'C08-set-ors-enqueue-rescans-late': ('C08', 'set() ORs the value in; enqueue re-scans for a free position only if the head entry changed', 'a send nested between another send\'s load and CAS on a non-empty full queue: two indices merged (3|4 = 7), index out of bounds'),
 'C18-reader-moves-guard-stays': ('C18', 'read() moves to the filling slot after a generation change but the guard keeps pointing at the old slot', 'a generation switch inside a three-instruction window of a delivery: one slot at -1, the other at +1 forever; the next store() spins'),
 'C18-lock-order-inversion': ('C18', 'register takes race_fallback before data and resets it afterwards; unregister clears a present fallback under data', 'a failed first registration (register_signal_unchecked(SIGKILL)) arms the fallback; then unregister overlapping register: AB/BA deadlock'),
 'C09-empty-batch-pending-r4': ('C09', 'poll_signal answers Pending right after an empty fresh batch (independent rediscovery, round 4)', 'a stale wake-up byte (its signal was handed out by the previous batch) and then any delivery'),
 'C09-scan-stops-before-sigrtmax': ('C09', 'Pending::next scans up to min(SIGRTMAX, MAX_SIGNUM) exclusive', 'watching SIGRTMAX (64): flag set, byte written, never reported'),
 'C12-id-list-resized-before-check': ('C12', 'the id list starts empty and add_signal resizes it to signal+1 before the range assertions', 'add_signal(i32::MAX): allocation failure aborts the process; add_signal(-1) in release builds truncates the list'),
 'C12-no-cleanup-while-panicking-r4': ('C12', 'DeliveryState::drop returns early when thread::panicking() (independent rediscovery, round 4)', 'a constructor refused by panic after a successful registration; an instance dropped by an unwinding thread'),
 'C05-flags-inherited-r4': ('C05', 'Slot::new ORs the flags of the disposition it replaces into the library handler\'s (round 4)', 'a previous handler installed with SA_RESETHAND: the library handler becomes one-shot'),
 'C05-vec-swap-remove': ('C05', 'Slot::actions becomes a Vec and unregister uses swap_remove', 'three live actions on one signal, the first removed: the newest jumps into its place'),
 'C15-flags-inherited-oneshot': ('C15', 'the library handler inherits the previous handler\'s sa_flags', 'SIGTERM had a SA_RESETHAND handler before: the second SIGTERM kills by the default action instead of _exit(status)'),
 'C15-vec-swap-remove-r4': ('C15', 'actions in a Vec, unregister with swap_remove (round 4)', 'an action registered before the shutdown/flag pair is unregistered: their order flips'),
 'C14-early-assert-leak-r4': ('C14', 'register_raw asserts !FORBIDDEN first (round 4)', 'pipe::register(forbidden, fd): the descriptor is never closed'),
 'C14-check-skipped-when-slot-exists-r4': ('C14', 'register_sigaction_impl skips the FORBIDDEN assertion when the signal has a slot (round 4)', 'unchecked registration of ILL/FPE/SEGV, then any checked entry point for it'),
 'C13-set-flags-before-owner': ('C13', 'set_flags becomes a free function called before the owning WakeFd is built', 'an open non-socket descriptor that refuses F_SETFL (O_PATH): Err is returned and nobody closes it'),
 'C13-drop-restores-flags-r4': ('C13', 'WakeFd restores the recorded file status flags on drop (round 4)', 'two registrations on dups of one pipe, the first removed, a full pipe'),
 'C11-stale-byte-unarmed-pending': ('C11', 'poll_signal returns Pending when the fresh batch is empty (round 4)', 'a wake-up byte whose signal the previous batch handed out; close() later never reaches the parked task'),
 'C11-close-poisoned-lock-r4': ('C11', 'close() takes the ids mutex with unwrap(); add_signal returns early when closed (round 4)', 'a contained panicking add_signal, then close()'),
 'C10-constructor-one-lock-duplicates': ('C10', 'with_pipe registers the initial list under one lock through the internal add_signal (no duplicate check)', 'a signal listed twice in the constructor list, info-carrying exfiltrator'),
 'C10-reclaim-guard-underscore': ('C10', 'recv hands the slot back through a drop guard bound with `let _ =`', 'a full buffer and a delivery between the release and the take'),
 'C16-kill-getpid-r4': ('C16', 'the Term branch re-raises with kill(getpid()) (round 4)', 'a second thread calls the emulation for a core-dumping signal'),
 'C16-unblocks-every-signal': ('C16', 'prepare_sigset uses sigfillset: the emulation unblocks every signal', 'another signal blocked and pending at the call: it is delivered first'),
 'C01-new-slot-premarked-r4': ('C01', 'write_barrier marks the new generation\'s slot as seen without looking (round 4)', 'a delivery preempted between its generation load and its increment across one write, then a second write'),
 'C01-barrier-gives-up': ('C01', 'write_barrier gives up after 2^22 spins and store() then leaks the old snapshot', 'a delivery that stays in the handler longer than ~0.2-0.5 s: the removal returns while the action runs'),
 'C03-setfd-copy-paste': ('C03', 'set_flags refactored into a helper; the second call writes O_NONBLOCK with F_SETFD', 'a full pipe (non-socket write end): the handler sleeps in write(2)'),
 'C03-weak-write-end': ('C03', 'the iterator action holds the write end weakly and upgrades it per delivery', 'the last handle dropped while a delivery on another thread is between upgrade and send: the write end\'s drop runs inside the handler'),
 'C18-error-path-self-deadlock': ('C18', 'the Err arm of Slot::new clears the fallback while its own read guard (if-let scrutinee) is alive', 'register_signal_unchecked(SIGKILL / SIGSTOP): the call spins forever holding the data mutex'),
 'C18-update-seen-short-circuit': ('C18', 'update_seen uses Iterator::all: the second slot is not inspected while the first is busy', 'an even generation, a delivery in flight at the first pass and a gap-free stream of overlapping deliveries'),
 'C02-unregister-signal-early-clone-r4': ('C02', 'unregister_signal clones through a read guard before it takes the write mutex (round 4)', 'a registration of another signal completing in between is overwritten'),
 'C02-vec-swap-remove-r4': ('C02', 'actions in a Vec, unregister with swap_remove (round 4)', 'register A B C D, remove D, remove A: C runs before B'),
 'C04-flags-inherited-r4': ('C04', 'Slot::new ORs the previous handler\'s sa_flags into the library handler\'s (round 4)', 'a previous SA_RESETHAND handler: the first delivery chains correctly, then the disposition is SIG_DFL'),
 'C04-fallback-reset-outside-lock-r4': ('C04', 'the fallback is reset after a first registration, outside the data lock (round 4)', 'two concurrent first registrations and a delivery in the second one\'s window'),
 'C17-zero-means-none-r4': ('C17', 'pid 0 and uid 0 mean "no process" on every platform (round 4)', 'a root sender outside the PID namespace'),
 'C17-sigchld-table-shortcut': ('C17', 'extract.c starts the table search at the CLD_* rows whenever si_signo == SIGCHLD', 'a SIGCHLD sent by kill / sigqueue / raise: cause Unknown, no process'),
 'C18-unregister-read-then-write': ('C18', 'unregister looks the id up under a read guard that is still held while write() blocks', 'two mutators: one holds the mutex before its barrier\'s first check, the other\'s unregister has incremented a reader slot and blocks on the mutex'),
 'C06-dequeue-bounded-retries': ('C06', 'dequeue gives up after SLOTS failed exchanges and reports an empty queue', 'five other modifications of the same queue word inside one dequeue: a send is dropped / recv reports empty with fewer than five outstanding'),
 'C06-enqueue-empty-fast-path': ('C06', 'enqueue stores the index with a plain store when it saw an empty word', 'two enqueuers (two threads, or a handler inside a send) both seeing the empty word: the second store wipes the first entry, the slot is lost for good'),
 'C07-recycle-guard-dropped-early': ('C07', 'recv hands the slot back through a drop guard bound with `let _ =` (before the take)', 'a full channel and a send landing between the early put-back and the take'),
 'C07-dequeue-acquire-on-failure': ('C07', 'dequeue: Acquire moved from the successful exchange to the loads feeding it', 'ABA on a queue word: a dequeuer stalled between load and exchange while the slots go a full round; weak memory only (Miri demonstration)'),
 'C08-send-waits-for-slot-in-flight': ('C08', 'send retries while a slot is in neither queue instead of dropping the value', 'a send in a handler that interrupted, on the same thread, a recv/send holding the fifth slot: spins forever'),
 'C08-dequeue-all-slots-shortcut': ('C08', 'dequeue does one strong exchange and ignores its result when the word holds all five slots', 'a concurrent dequeue of the same queue in the window: one slot handed out twice, later recv panics'),
 'C09-wake-blocking-send-on-plain-iterator': ('C09', 'pipe::wake sends without MSG_DONTWAIT relying on O_NONBLOCK set by register_raw (the iterator\'s socket never passes through it)', 'about 278 undrained wake-ups in one instance\'s pipe: the next delivery blocks in the handler, later actions of the signal never run'),
 'C09-tokio-second-question-unanswered': ('C09', 'tokio poll_next answers the second readiness question of one poll with false without touching the socket', 'a stale wake-up byte: the poll consumes it, finds nothing and parks without a waker; later deliveries are never obtained'),
 'C10-recv-putback-before-take': ('C10', 'Channel::recv returns the slot through a guard bound with `let _ =`, i.e. before the take', 'a full five-record buffer and a delivery between put-back and take: newer record overwrites the unread one, order broken, later panic'),
 'C10-signalonly-load-then-store': ('C10', 'SignalOnly::load: load, early return, then store(false) instead of one compare_exchange', 'two batches of one instance walked by two threads: both see true, one delivery yielded twice'),
 'C11-tokio-drained-flag-skips-read': ('C11', 'tokio poll_next: after one successful 1-byte read further questions of the same poll are answered false without a read', 'a stale wake-up byte: Pending comes back with no waker registered, close() never ends the parked stream'),
 'C11-global-waking-flag': ('C11', 'pipe::wake skips the write while a process-wide WAKING flag is set by any other wake in progress', 'close() of one instance coinciding with a delivery / wake for another pipe: the close byte is never written, the blocked consumer stays blocked'),
 'C15-exit-raw-syscall-thread-only': ('C15', 'low_level::exit calls the raw SYS_exit system call before _exit (ends the calling thread only)', 'at least one other live thread at delivery time: the process lives on, later actions never run'),
 'C15-handler-nodefer': ('C15', 'Slot::new installs the handler with SA_RESTART | SA_NODEFER', 'the second signal arriving DURING the first delivery, between the shutdown action and the arming flag: delivered nested, both consumed, the process survives'),
 'C17-sigchld-namespace-hoisted': ('C17', 'extract.c picks a table namespace once (SIGCHLD or generic): generic rows unreachable for SIGCHLD', 'a SIGCHLD sent by kill / raise / sigqueue: Unknown, no process'),
 'C17-withorigin-fills-process-for-nonpositive': ('C17', 'WithOrigin::load fills in pid/uid from the union whenever si_code <= 0 and none was extracted', 'a POSIX timer (SI_TIMER): timer id and overrun reported as pid and uid; the exfiltrator and by-hand routes disagree'),
 'C01-add-signal-three-locks': ('C01', 'Handle::add_signal takes the ids lock separately for the check, the registration and the store', 'two overlapping add_signal of one signal on one instance, then dropping it: one action survives its owners'),
 'C01-wakefd-closes-on-epipe': ('C01', 'WakeFd::wake closes its descriptor inside the handler when the write fails with EPIPE; Drop closes it again', 'the reader dropped while the action is registered, a delivery, then unregister (double close of a reused number)'),
 'C14-set-flags-ignores-sigpipe': ('C14', 'WakeFd::set_flags sets SIGPIPE to SIG_IGN (before the signal number is checked)', 'a refused register_raw with a non-socket descriptor and SIGPIPE not ignored before: a disposition changed by a refused call'),
 'C14-drop-skips-on-poisoned-ids': ('C14', 'DeliveryState::drop unregisters only if the ids mutex is not poisoned', 'an accepted signal, then a refusal that panics (forbidden / out of range), then the drop: action and descriptor stay'),
 'C03-setfd-cloexec-instead-of-nonblock': ('C03', 'WakeFd::set_flags uses F_GETFD/F_SETFD: O_NONBLOCK is never set on non-socket descriptors', 'a full pipe and one more delivery: the handler sleeps in write(2)'),
 'C03-dequeue-emptiness-check-hoisted': ('C03', 'Channel dequeue tests emptiness once before the CAS loop', 'one free slot left and two overlapping deliveries on two threads: dequeue returns slot 0, send panics inside the handler'),
 'C12-raw-init-swap-frees-installed': ('C12', 'WithRawSiginfo::init swaps the new channel in and frees it when the slot was occupied', 'the same number rejected twice after init ran (0, 32, 33, 65..127, forbidden): use after free, double free on drop'),
 'C12-unregister-snapshot-outside-lock': ('C12', 'unregister clones the registry through a read guard and locks only for the store', 'the drop of one instance overlapping new / add_signal / drop on another thread: a registration wiped or resurrected'),
 'C13-register-closes-again-on-error': ('C13', 'pipe::register closes the raw descriptor itself when register_raw fails (register_raw already did)', 'a registration that returns Err (e.g. signal 9999): the number is closed twice'),
 'C13-iterator-wakes-with-write': ('C13', 'the iterator\'s SelfPipeWrite wakes with WakeMethod::Write (its blocking socket pair never gets O_NONBLOCK)', 'about 280 undrained deliveries: the next one blocks in write(2) inside the handler; close() blocks the same way'),
 'C16-restore-default-skips-forbidden': ('C16', 'restore_default returns early for the FORBIDDEN signals', 'emulating ILL / FPE / SEGV with a non-default disposition (inside their own handler, ignored): dies of SIGABRT instead'),
 'C16-raise-tgkill-cached-pid': ('C16', 'low_level::raise becomes tgkill(PID, gettid(), sig) with the pid cached in a static on first use', 'raise in the parent, fork, emulation in the child: ESRCH, SIGABRT instead of the signal, stop signals do not stop'),
 'C02-barrier-premarks-new-slot-r5': ('C02', 'write_barrier pre-marks the new generation\'s slot as seen and waits for the old one only (round 5, independent rediscovery)', 'a delivery stalled between generation load and fetch_add across one complete write, then a second write'),
 'C02-add-signal-lock-dropped-r5': ('C02', 'Handle::add_signal drops the ids lock across the registry call (round 5, independent rediscovery)', 'two concurrent add_signal of one signal on clones of one handle: one delivery reported twice, an orphan action after the drop'),
 'C04-slot-new-clears-fallback': ('C04', 'Slot::new clears the race fallback right after its sigaction()', 'a delivery between that clear and the publication of the slot, with a real previous handler: chained zero times'),
 'C04-stop-emulation-reinstalls-with-signal': ('C04', 'emulate_default_handler (stop kinds) resets the signal with signal(), raises it, and puts the saved handler back with signal()', 'a siginfo handler chained on SIGTSTP, the emulation called once, then a later delivery: the library handler is back without SA_SIGINFO'),
 'C18-read-selects-slot-twice': ('C18', 'HalfLock::read computes the slot twice (fetch_add, then for the guard)', 'a generation switch between the two: the guard decrements the other slot, one slot stays at 1 forever, the next barrier spins'),
 'C18-unregister-precheck-guard-held': ('C18', 'unregister pre-checks under a read guard that is still alive while it waits for the write mutex', 'two mutators: one holds the mutex before its barrier, the other waits for the mutex holding a slot count: deadlock'),
 'C05-stop-emulation-leaves-default': ('C05', 'emulate_default_handler sends stop-kind signals down the terminate path (restore default, raise the signal itself)', 'a stop-kind signal taken over, its emulation, SIGCONT: the disposition stays SIG_DFL for good'),
 'C05-slot-new-ors-previous-flags-r5': ('C05', 'Slot::new ORs the sa_flags of the disposition it replaces into the library handler\'s (round 5, independent rediscovery)', 'a previous SA_RESETHAND handler: after one delivery the disposition is SIG_DFL'),
 'C07-recycle-guard-underscore-r5': ('C07', 'recv hands the slot back through a drop guard bound with `let _ =` (round 5, independent rediscovery)', 'a nearly full channel and a send inside the window'),
 'C07-init-always-swaps-and-frees': ('C07', 'WithRawSiginfo::init always swaps in a fresh channel and frees the old one', 'a refused registration retried from another thread while the iterator thread is inside load for that slot: use after free'),
 'C06-load-detaches-channel': ('C06', 'WithRawSiginfo::load swaps the channel pointer to null around recv()', 'a delivery of that signal while the consumer is inside load: store sees null and drops the record with fewer than five outstanding'),
 'C06-slot-fastpath-flag-race': ('C06', 'the raw Slot gains a has-data flag: store sets it after send, load clears it when recv() is empty', 'a delivery between the empty recv() and the clear: the record sits in the buffer, every receive reports empty until the next signal'),
 'C08-send-retries-slot-in-transit-r5': ('C08', 'send retries dequeue(empty) unless the full queue holds all five (round 5, independent rediscovery)', 'a send in a handler that interrupted a recv holding the fifth slot on the same thread: spins forever'),
 'C08-counted-infos-expect': ('C08', 'the raw Slot counts waiting infos (store: send then fetch_add; load: claim then recv().expect(..))', 'six or more undrained deliveries of one signal: the dropped one is counted, the sixth load panics in Pending::next'),
 'C03-rehook-stolen-signal-chains-into-itself': ('C03', 'a second registration re-installs the library handler when the disposition is no longer its own and stores what it found as prev (round 6)', 'the application installs its own chaining handler between two registrations of one signal: handler -> app handler -> handler recursion until the stack is gone'),
 'C03-action-upgrades-weak-instance': ('C03', 'the iterator action captures a Weak of PendingSignals and upgrades it per delivery (round 6)', 'the instance dropped with a Handle clone left, a delivery overlapping the drop of that last Handle: the channel box is freed inside the handler'),
 'C15-slot-new-merges-prev-flags-r6': ('C15', 'Slot::new merges sa_mask and sa_flags of the previous disposition into the library handler\'s (round 6, independent rediscovery)', 'a one-shot (SA_RESETHAND) handler before the take-over: the second SIGTERM kills by default action instead of _exit(status)'),
 'C15-vec-swap-remove-r6': ('C15', 'actions in a Vec, unregister with swap_remove (round 6, independent rediscovery)', 'an older action of the signal removed (an iterator dropped): the arming flag moves in front of the shutdown, exit on the first signal'),
 'C14-forbidden-check-in-vacant-branch-r6': ('C14', 'the FORBIDDEN assertion moves into the Entry::Vacant branch (round 6, independent rediscovery)', 'an unchecked registration of ILL/FPE/SEGV first, then any checked entry point for that signal'),
 'C14-drop-skips-while-panicking-r6': ('C14', 'DeliveryState::drop returns at once while the thread is panicking (round 6, independent rediscovery)', 'Signals::new(&[SIGUSR1, SIGKILL]): the refusal unwinds through the half-built instance, the SIGUSR1 action stays registered'),
 'C09-empty-fresh-batch-pending-r6': ('C09', 'poll_signal answers Pending at once when the fresh batch is empty (round 6, independent rediscovery)', 'a stale wake-up byte and an async adapter: parked with no waker armed'),
 'C09-iterator-starts-exhausted-r6': ('C09', 'SignalIterator::new starts with an exhausted batch (round 6, independent rediscovery)', 'two signals delivered, one taken from forever(), the loop left and entered again: blocks with the second unreported'),
 'C12-add-signal-outside-lock-r6': ('C12', 'Handle::add_signal registers outside the per-instance lock (round 6, independent rediscovery)', 'two overlapping add_signal of one signal on one instance, then the drop'),
 'C12-barrier-gives-up-r6': ('C12', 'write_barrier gives up after 2^16 spins and store() leaks the old table (round 6, independent rediscovery)', 'the last owner dropped while a delivery stays in a slow action on another thread: the pipe write end never closes'),
 'C10-add-signal-two-sections-r6': ('C10', 'Handle::add_signal: check and store of the id in two critical sections (round 6, independent rediscovery)', 'two threads add one signal to one instance: every delivery yields two records'),
 'C10-signalonly-load-store-r6': ('C10', 'SignalOnly::load as load + store(false) (round 6, independent rediscovery)', 'two batches of one instance walked by two threads: one delivery yielded twice'),
 'C01-barrier-skipped-in-forked-child': ('C01', 'HalfLock remembers the pid it was created in; write_barrier returns at once in another process', 'the registry created before fork(), a child with a second thread, a removal while a delivery runs on that thread: the removal does not wait'),
 'C01-action-holds-write-end-weakly-r6': ('C01', 'the iterator action holds the self-pipe write end weakly and upgrades it per delivery (round 6, independent rediscovery)', 'the last Handle dropped while a delivery is between upgrade and the end of the wake: the write end is closed inside the handler'),
 'C04-fallback-written-before-lock': ('C04', 'register stores the race fallback before it takes the main lock', 'two concurrent first registrations of two signals and a delivery of the first between its sigaction and its publication: the fallback names the other signal'),
 'C04-slot-dropped-with-last-action': ('C04', 'unregister drops the whole slot with the last action; Prev::execute skips the library\'s own handler', 'an iterator dropped (its action was the last), a first registration of another signal, a new registration of the first: the original handler is never chained again'),
 'C05-reregistration-replaces-slot': ('C05', 'a registration on an owned signal whose disposition is no longer the library handler replaces the whole slot', 'a foreign sigaction between two registrations of one signal: the earlier actions vanish, unregister of their ids returns false'),
 'C05-stop-emulation-signal-restore-r6': ('C05', 'emulate_default_handler (stop kinds) saves and restores the handler with signal() (round 6, independent rediscovery)', 'the emulation on an owned stop signal, then a delivery: SA_SIGINFO is gone'),
 'C11-close-takes-ids-lock-r6': ('C11', 'close() takes the ids mutex with unwrap() before the flag store (round 6, independent rediscovery)', 'a caught panicking add_signal, then close(): panics before setting the flag'),
 'C11-closed-check-after-callback-r6': ('C11', 'poll_pending looks at the closed flag only after the callback said true (round 6, independent rediscovery)', 'close(); pending(); wait() - the wake-up byte of the close was consumed by something else'),
 'C13-slot-new-inherits-flags-r6': ('C13', 'Slot::new inherits the previous handler\'s sa_flags and mask (round 6, independent rediscovery)', 'a one-shot previous handler: from the second delivery on no byte is written (or the process dies)'),
 'C13-wakefd-restores-flags-r6': ('C13', 'WakeFd restores the original file status flags on drop (round 6, independent rediscovery)', 'two registrations on dups of one pipe, one removed, a full pipe: the other blocks in write(2)'),
 'C17-zero-pid-means-none-r6': ('C17', 'Origin::extract treats pid 0 and uid 0 as "nothing filled in" on every platform (round 6, independent rediscovery)', 'a root sender outside the receiver\'s PID namespace'),
 'C17-nonpositive-code-is-user-r6': ('C17', 'extract.c classes unnamed non-positive si_code values as user-sent (round 6, independent rediscovery)', 'a POSIX timer: timer id and overrun reported as pid and uid'),
 'C16-restore-default-skips-ignored-r6': ('C16', 'restore_default returns early when the disposition is SIG_DFL or SIG_IGN (round 6, independent rediscovery)', 'a terminating signal that is ignored at the call (SIGPIPE in every Rust program, nohup): SIGABRT instead of the signal'),
 'C16-forbidden-shortcut-only-raises': ('C16', 'the SIGKILL/SIGSTOP shortcut of emulate_default_handler becomes FORBIDDEN.contains(signal)', 'ILL / FPE / SEGV with a handler installed, ignored or blocked: only raised, the process continues or loops'),
 'C02-ids-per-slot': ('C02', 'ActionIds allocated per slot (largest id in the slot + 1) instead of from the global counter', 'a stale SigId after another registration on the same signal: unregister removes the newer action'),
 'C02-unregister-clones-outside-mutex-r6': ('C02', 'unregister clones the table through a read guard and locks only for the store (round 6, independent rediscovery)', 'two threads mutating the registry, one removing: a registration vanishes / a removed action is back'),
 'C18-iterator-wakes-with-write-r6': ('C18', 'the iterator wakes with WakeMethod::Write on its blocking socket pair (round 6, independent rediscovery)', 'about 278 unread wake-ups, a delivery on another thread and a mutator called by the owner before it reads again: the delivery blocks, the mutator spins'),
 'C18-poisoned-lock-relocked-in-match': ('C18', 'ids.lock() is matched and the Err arm locks again while the poisoned guard is still alive', 'a caught panicking add_signal (poisons the ids mutex), then any add_signal or the drop of the instance: never returns'),
 'C08-enqueue-retry-keeps-position-or-r7': ('C08', 'enqueue finds the free position before its CAS loop, looks again only when the word got smaller, and ORs the index in instead of masking (round 7)', 'an enqueue on the same queue completing between another enqueue\'s load and its CAS (send nested in send, two senders): the two indices are OR-ed into one position, recv panics "Full slot with nothing in it" / index out of range'),
 'C06-dequeue-head-hoisted-r7': ('C06', 'dequeue reads the head and tests emptiness once, before its CAS retry loop (round 7, independent rediscovery of C08-dequeue-hoisted-head, written against C06)', 'a dequeue on the same queue between another dequeue\'s load and its CAS: one slot owned twice, a value overwritten and lost early, the other slot leaked'),
 'C09-wake-coalesced-rearm-before-sleep-r7': ('C09', 'the action writes its wake-up byte only when it flips a `notified` flag; poll_pending clears the flag just before has_signals (round 7; unlike C09-wake-coalescing-flag the re-arm sits before the sleep, and pending() never re-arms)', 'a lower-numbered watched signal delivered while the consumer still walks a batch that handed out a higher-numbered one (or raise; pending(); raise; wait()): slot set, no byte, the consumer blocks'),
 'C07-drop-drains-three-slots-r8': ('C07', 'cells become MaybeUninit<T> with a new Drop for Channel that drains the full queue in a loop over 0..BITS (3) instead of 0..SLOTS (5) (round 8)', 'a payload with a destructor and the channel dropped while 4 or 5 values are unreceived: 1 or 2 values leak'),
 'C11-close-wakes-before-flag-once-r8': ('C11', 'close() made "idempotent": only when not yet closed it wakes the readers first and stores the flag afterwards; later calls do nothing (round 8)', 'a consumer that consumes the wake-up byte between the wake and the flag store: it sees closed == false and blocks again for good; a second close() no longer rescues it'),
 'C13-descriptor-zero-never-closed-r8': ('C13', 'WakeFd::drop closes only when fd > 0 (round 8)', 'the handed-over descriptor has number 0 (a process without stdin): never closed, the reader never sees EOF'),
}
for name, (prop, change, needs) in D.items():
    d = os.path.join(ROOT, 'seeded', name)
    if not os.path.isdir(d):
        continue
    conf = open(os.path.join(d, 'confirm.log')).read() if os.path.exists(os.path.join(d, 'confirm.log')) else ''
    chk = open(os.path.join(d, 'checks.log')).read() if os.path.exists(os.path.join(d, 'checks.log')) else ''
    def parse(chk):
        verdicts = {}
        cur = None
        for l in chk.split('\n'):
            m = re.match(r'== (C\d+) rc=(\d+)', l)
            if m:
                cur = m.group(1); verdicts[cur] = {'rc': int(m.group(2)), 'concrete_input': False, 'what': []}
            elif cur and 'no-failing-input-found' in l:
                verdicts[cur]['no_failing_input_found'] = True
            elif cur and l.strip().startswith('what:') and l.strip() != 'what:':
                verdicts[cur]['concrete_input'] = True
                if len(verdicts[cur]['what']) < 2:
                    verdicts[cur]['what'].append(l.strip()[5:].strip()[:300])
        return verdicts
    import glob
    later = sorted(glob.glob(os.path.join(d, 'checks_after_strengthening*.log')))
    after = None
    for lf in later:       # later logs refine earlier ones check by check
        after = dict(after or {}, **parse(open(lf).read()))
    verdicts = {}
    cur = None
    for l in chk.split('\n'):
        m = re.match(r'== (C\d+) rc=(\d+)', l)
        if m:
            cur = m.group(1); verdicts[cur] = {'rc': int(m.group(2)), 'concrete_input': False, 'what': []}
        elif cur and 'no-failing-input-found' in l:
            verdicts[cur]['no_failing_input_found'] = True
        elif cur and l.strip().startswith('what:') and l.strip() != 'what:':
            verdicts[cur]['concrete_input'] = True
            if len(verdicts[cur]['what']) < 2:
                verdicts[cur]['what'].append(l.strip()[5:].strip()[:300])
    demo = {}
    for mode in ('with', 'without'):
        p = os.path.join(d, 'demo_%s.log' % mode)
        if os.path.exists(p):
            t = open(p).read()
            demo[mode] = 'fails' if re.search(r'test result: FAILED|panicked|FAILED|exit 1|rc=1', t) and mode == 'with' else ('passes' if 'test result: ok' in t or mode == 'without' else 'see log')
    meta = {'breaks_property': prop, 'change': change, 'needs_to_manifest': needs,
            'confirmed': {'patch_applies': 'yes' in conf, 'existing_suite_passes_with_change': 'FAILED' not in conf and 'test result: ok' in conf,
                          'demonstration': demo or 'see notes.md'},
            'what_was_run': ['tools/confirm_mutant <agent worktree> <n>  (apply, cargo test --workspace --offline, demonstration with / without the change)',
                             'tools/try_mutant seeded/%s/patch.diff %s  (scratch copy of /repo + tools/altverif, quick tier)' % (name, ' '.join(verdicts) or prop)],
            'checks': verdicts, 'checks_after_strengthening': after, 'source': 'fresh sub-agent given only the property text and a scratch worktree'}
    json.dump(meta, open(os.path.join(d, 'meta.json'), 'w'), indent=1)
    fmt = lambda vs: {k: ('caught+input' if v['concrete_input'] else ('caught' if v['rc'] else 'MISSED')) for k, v in (vs or {}).items()}
    print(name, fmt(verdicts), '-> after strengthening:' if after else '', fmt(after) if after else '')
