"""Tables shared by setup and the individual checks."""
ALL_COMPONENTS = ['details', 'platform']
DRIVERS = {
    'details': (['run_c16'], ['details/Run.vo']),
}
