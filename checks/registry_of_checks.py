"""Discovers what every check module declares: COMPONENTS (translator modules it needs) and
DRIVERS (component -> (exported run_ functions, make targets))."""
import glob, importlib, os, re

HERE = os.path.dirname(os.path.abspath(__file__))


def modules():
    mods = []
    for f in sorted(glob.glob(os.path.join(HERE, 'c[0-9][0-9].py'))):
        mods.append(importlib.import_module(os.path.basename(f)[:-3]))
    return mods


def all_components():
    out = []
    for m in modules():
        for c in getattr(m, 'COMPONENTS', []):
            if c not in out:
                out.append(c)
    return out


def all_drivers():
    out = {}
    for m in modules():
        for k, (fns, targets) in getattr(m, 'DRIVERS', {}).items():
            if k in out:
                fns = sorted(set(out[k][0]) | set(fns))
                targets = sorted(set(out[k][1]) | set(targets))
            out[k] = (list(fns), list(targets))
    return out
