"""C05 - the registry behaves as independent per-signal ordered multisets with unique ids (DESIGN 5.5).

Static tie : translator/seqreg.py regenerates the statement skeletons of register_unchecked_impl,
             unregister, unregister_signal, handler, Slot::new's flags, FORBIDDEN, initial next_id ...;
             coq/seqreg/Model.v interprets them, coq/seqreg/Direct.v + Refine.v prove the theorems.
Dynamic tie: random histories run against the real crate (harness/src/bin/p_c05.rs, one forked child
             per history) and against the extracted model (run_c05); outputs diffed record by record.
Monitor    : the property evaluated directly on the implementation's outputs (ids distinct, unregister
             exact, what a delivery runs, independence of signals, disposition sticky with flags, EINTR).

Encoding of a history (list of ints), mirrored in coq/seqreg/Run.v and p_c05.rs:
   npre (sig kind tag)*npre  item*     kind 0 dfl | 1 ign | 2 user handler | 3 user handler (SA_SIGINFO) | 4, 5 = 2, 3 with SA_RESETHAND|SA_NODEFER and a mask (probe only)
   item: 1 sig tag register | 2 sig tag register_sigaction | 3 sig id unregister | 4 sig unregister_signal
         5 sig raise | 6 sig report disposition | 7 sig low_level::emulate_default_handler(sig) (ignore / stop kinds; no effect on the registry)
"""
import glob, hashlib, json, os, random
import common
import registry_of_checks as R
from common import sh

COMPONENTS = ['seqreg']
DRIVERS = {'seqreg': (['run_c05', 'run_c05_oracle'], ['seqreg/Run.vo'])}

SA_RESTORER = 0x04000000   # x86 glibc adds it to every sigaction it installs; reported back by the kernel

TB = ['Coq 8.16.1 kernel (+ vm_compute only in Examples / src_* pins); no axioms',
      'translator/seqreg.py: statement-shape recogniser for register_unchecked_impl / unregister / unregister_signal / handler / '
      'Slot::new / Prev::detect / Prev::execute / GlobalData::ensure / FORBIDDEN (every top-level statement must match a known shape)',
      'coq/seqreg/Model.v exec_instr / exec_h: the meaning given to each recognised statement',
      'modelled, not verified: BTreeMap iterates in key order and insert/remove behave as on a sorted list; HashMap is a finite map; '
      'u128 `+= 1` wraps (release profile; with overflow checks it panics instead - beyond the guard 2^128 either way); '
      'Arc/closure plumbing; the HalfLock publish is atomic for a sequential caller (C01/C02 cover concurrency)',
      'OS oracle linux_query_ok / linux_set_ok (coq/seqreg/Run.v) - only used by the correspondence, theorems quantify over every oracle; '
      'validated against the running system by p_c05 oracle on every run',
      'sa_flags comparison ignores SA_RESTORER (0x04000000) which glibc adds on x86',
      'extraction (ExtrOcamlBasic only) + ocaml/main_template.ml; harness/src/bin/p_c05.rs forked probes; SigId numbers read from its Debug output']

ASSUME = ['sequential callers (one thread, no delivery during a registry call); concurrent histories are linearised at the publish step by C01/C02',
          'C05_refines: fewer than 2^128 successful registrations in the history (explicit hypothesis); the other four theorems carry no guard',
          'no other code changes the dispositions of the signals the library has taken over',
          'delivery of a signal nobody handles (default disposition) runs nothing of the program; the kernel default action is C16']


# ------------------------------------------------------------------------------------------
def pools(consts):
    names = ['SIGUSR1', 'SIGUSR2', 'SIGHUP', 'SIGWINCH', 'SIGURG', 'SIGCHLD', 'SIGALRM', 'SIGTERM', 'SIGINT', 'SIGQUIT',
             'SIGPIPE', 'SIGIO', 'SIGPROF', 'SIGVTALRM', 'SIGXCPU', 'SIGXFSZ', 'SIGCONT', 'SIGSYS', 'SIGTSTP', 'SIGTTIN', 'SIGTTOU']
    base = [consts[n] for n in names]
    ignored = {consts['SIGWINCH'], consts['SIGURG'], consts['SIGCHLD'], consts['SIGCONT']}
    forbidden = [consts[n] for n in ('SIGKILL', 'SIGSTOP', 'SIGILL', 'SIGFPE', 'SIGSEGV')]
    invalid = [0, -1, 65, 100, 32, 33, 128, 2147483647, -2147483647]
    return base, ignored, forbidden, invalid


def gen_history(rnd, consts, tier, maxlen):
    base, ignored, forbidden, invalid = pools(consts)
    pool = list(base) + (list(range(34, 65)) if tier == 'thorough' else [34, 40, 64])
    nsig = rnd.randint(2, 6 if tier == 'quick' else 10)
    sigs = rnd.sample(pool, nsig)
    pre = {}
    h = [nsig]
    for s in sigs:
        k = rnd.choices([0, 1, 2, 3, 4, 5], [50, 14, 10, 10, 8, 8])[0]
        tag = 900000 + s if k >= 2 else 0
        pre[s] = k
        h += [s, k, tag]
    n = rnd.randint(10, maxlen)
    nxt, tag = 1, 1
    live = {s: [] for s in sigs}
    stale = []          # (sig, id) already removed
    taken = set()
    for _ in range(n):
        r = rnd.random()
        s = rnd.choice(sigs)
        if r < 0.30:
            h += [rnd.choice([1, 2]), s, tag]
            live[s].append(nxt); taken.add(s)
            nxt += 1; tag += 1
        elif r < 0.33:
            h += [rnd.choice([1, 2]), rnd.choice(forbidden + invalid), tag]
            tag += 1
        elif r < 0.58:
            alive = [(x, i) for x in sigs for i in live[x]]
            if stale and (not alive or rnd.random() < 0.45):
                x, i = rnd.choice(stale)
                h += [3, x, i]
            elif alive:
                # prefer the signal s (so that removals cluster), else any ("foreign": an id of another signal)
                mine = [(x, i) for (x, i) in alive if x == s]
                x, i = rnd.choice(mine) if mine and rnd.random() < 0.7 else rnd.choice(alive)
                h += [3, x, i]
                live[x].remove(i); stale.append((x, i))
        elif r < 0.64:
            h += [4, s]
            stale += [(s, i) for i in live[s]]
            live[s] = []
        elif r < 0.94:
            # (a SA_RESETHAND foreign handler is consumed by a delivery that precedes the take-over)
            if s in taken or pre[s] in (1, 2, 3) or (s in ignored and pre[s] < 4):
                h += [5, s]
        elif r < 0.97:
            h += [6, s]
        else:
            # another part of the library at work on a signal whose default action does not end the process (ignore / stop kinds):
            # the registry and the library's handler must not notice
            # (a stop-kind signal really stops the child and the probe's parent continues it with SIGCONT - a delivery of SIGCONT the
            # history does not contain: only when SIGCONT is none of the history's signals)
            cands = [x for x in sigs if x in ignored or (x in (20, 21, 22) and 18 not in sigs)]
            if cands:
                x = rnd.choice(cands)
                h += [7, x, 6, x]
    for s in sigs:      # final report and a final delivery of everything that is safe to raise
        h += [6, s]
        if s in taken or pre[s] in (1, 2, 3) or (s in ignored and pre[s] < 4):
            h += [5, s]
    return h


def parse_items(h):
    """-> (pre {sig: (kind, tag)}, items [(code, sig, arg)])"""
    npre = h[0]
    pre = {}
    p = 1
    for _ in range(npre):
        pre[h[p]] = (h[p + 1], h[p + 2]); p += 3
    items = []
    while p < len(h):
        c = h[p]
        if c in (1, 2, 3):
            items.append((c, h[p + 1], h[p + 2])); p += 3
        else:
            items.append((c, h[p + 1], None)); p += 2
    return pre, items


def parse_records(toks, impl):
    """record stream of the model (impl=False) or of the probe (impl=True)"""
    recs, p, dup = [], 0, None
    while p < len(toks):
        c = toks[p]
        if c == 1:
            recs.append(('id', toks[p + 1])); p += 2
        elif c == 2:
            recs.append(('err',)); p += 1
        elif c == 3:
            recs.append(('panic',)); p += 1
        elif c == 4:
            recs.append(('bool', toks[p + 1])); p += 2
        elif c == 5:
            n = toks[p + 1]
            recs.append(('ran', tuple(toks[p + 2:p + 2 + n]))); p += 2 + n
        elif c == 6:
            if impl:
                recs.append(('disp', toks[p + 1], toks[p + 2], toks[p + 3], toks[p + 4])); p += 5
            else:
                recs.append(('disp', toks[p + 1], toks[p + 2], toks[p + 3], None)); p += 4
        elif c == 7:
            recs.append(('emu', toks[p + 1])); p += 2
        elif c == 8:
            recs.append(('inexpressible',)); p += 1
        elif c == 9:
            recs.append(('none',)); p += 1
        elif c == -2 and impl:
            dup = toks[p + 1]; p += 2
        else:
            recs.append(('?', c)); p += 1
    return recs, dup


def canon(rec):
    if rec[0] == 'disp':
        k, f = rec[1], rec[2]
        if k == 1:
            f &= ~SA_RESTORER
        return ('disp', k, f)
    return rec


def run_impl(histories):
    """-> (libaddr or None, {case: token list or 'DIED ...'})"""
    inp = '\n'.join('%d %s' % (i, ' '.join(map(str, h))) for i, h in histories) + '\n'
    rc, out, _ = sh([common.bin_path('p_c05'), 'run'], input=inp.encode(), timeout=1500)
    lib, res = None, {}
    for l in out.split('\n'):
        p = l.split()
        if not p:
            continue
        if p[0] == 'L' and len(p) == 4:
            a, b, hk = int(p[1]), int(p[2]), int(p[3])
            lib = a if a == b and (hk == 0 or hk == a) else -1
        elif p[0] == 'H':
            if len(p) > 2 and p[2] == 'DIED':
                res[int(p[1])] = 'DIED ' + ' '.join(p[3:])
            else:
                res[int(p[1])] = [int(x) for x in p[2:]]
    return lib, res


def model_view(h):
    """kinds 4 / 5 are the user handlers 2 / 3 installed with SA_RESETHAND|SA_NODEFER and a non-empty mask:
    the model (and the property) does not distinguish them"""
    h = list(h)
    for j in range(h[0]):
        if h[2 + 3 * j] >= 4:
            h[2 + 3 * j] -= 2
    return h


def run_model(histories):
    lines = ['run_c05 ' + ' '.join(map(str, model_view(h))) for _, h in histories]
    res = common.run_driver('seqreg', lines)
    return {i: [int(x) for x in r.split()] for (i, _), r in zip(histories, res)}


# ------------------------------------------------------------------------------------------
def monitor(h, recs, dup, libaddr, flags_expected):
    """The property, evaluated on what the implementation did.  Returns list of (key, what)."""
    pre, items = parse_items(h)
    bad = []
    if len(recs) != len(items):
        return [('record-count', 'the probe produced %d records for %d operations' % (len(recs), len(items)))]
    ids_seen = set()
    live = {}            # sig -> [(id, tag)] in registration order, from the implementation's own answers
    taken = set()
    trues = {}
    last_ran = {}        # sig -> what the last delivery ran, valid while no operation touched sig
    if dup:
        bad.append(('ids-distinct', '%d returned SigId values compare equal (==) to an earlier one' % dup))
    for idx, ((code, sig, arg), rec) in enumerate(zip(items, recs)):
        where = 'op #%d %s' % (idx, (code, sig, arg))
        if code in (1, 2):
            last_ran.pop(sig, None)
            if rec[0] == 'id':
                if rec[1] in ids_seen:
                    bad.append(('ids-distinct', '%s returned id %d which was handed out before' % (where, rec[1])))
                ids_seen.add(rec[1])
                live.setdefault(sig, []).append((rec[1], arg))
                taken.add(sig)
        elif code == 3:
            last_ran.pop(sig, None)
            if rec[0] == 'bool':
                cur = [i for i, _ in live.get(sig, [])]
                exp = 1 if arg in cur else 0
                if rec[1] != exp:
                    bad.append(('unregister-exact', '%s returned %d but the id is %sregistered' % (where, rec[1], '' if exp else 'not ')))
                if rec[1]:
                    trues[(sig, arg)] = trues.get((sig, arg), 0) + 1
                    if trues[(sig, arg)] > 1:
                        bad.append(('unregister-once', '%s returned true a second time' % where))
                    live[sig] = [(i, t) for i, t in live.get(sig, []) if i != arg]
        elif code == 4:
            last_ran.pop(sig, None)
            if rec[0] == 'bool':
                exp = 1 if live.get(sig) else 0
                if rec[1] != exp:
                    bad.append(('unregister-signal', '%s returned %d with %d actions registered' % (where, rec[1], len(live.get(sig, [])))))
                if rec[1]:
                    live[sig] = []
        elif code == 5:
            if rec[0] != 'ran':
                bad.append(('deliver', '%s gave %r' % (where, rec)))
                continue
            k, t = pre.get(sig, (0, 0))
            exp = tuple(([t] if k >= 2 else []) + [tg for _, tg in live.get(sig, [])])
            if rec[1] != exp:
                bad.append(('deliver-order', '%s ran %r, the registered actions (chained handler first, then registration order) are %r' % (where, rec[1], exp)))
            if sig in last_ran and last_ran[sig] != rec[1]:
                bad.append(('independent', '%s ran %r but ran %r before although only other signals were operated on in between' % (where, rec[1], last_ran[sig])))
            last_ran[sig] = rec[1]
        elif code == 7:
            if rec != ('emu', 1):
                bad.append(('emulate', '%s gave %r' % (where, rec)))
        elif code == 6:
            if rec[0] != 'disp':
                bad.append(('disposition', '%s gave %r' % (where, rec)))
                continue
            _, k, f, _, addr = rec
            if sig in taken:
                if k != 1 or (libaddr not in (None, -1) and addr != libaddr):
                    bad.append(('disposition-sticky', '%s: the signal was taken over but its handler is not the library handler (kind %d addr %s, library %s)' % (where, k, addr, libaddr)))
                elif (f & ~SA_RESTORER) != flags_expected:
                    bad.append(('disposition-flags', '%s: sa_flags %#x, expected SA_RESTART|SA_SIGINFO = %#x (+SA_RESTORER)' % (where, f, flags_expected)))
            else:
                kk = pre.get(sig, (0, 0))[0]
                if k != 0 or f != min(kk, 2):
                    bad.append(('disposition-untaken', '%s: never registered, but the disposition is kind %d/%d, installed was %d' % (where, k, f, kk)))
    return bad


def shrink(h, fails):
    """shortest failing prefix, then drop single non-register items while it still fails (ids stay valid)"""
    pre, items = parse_items(h)
    head = h[:1 + 3 * h[0]]

    def enc(its):
        o = list(head)
        for c, s, a in its:
            o += [c, s] + ([a] if a is not None else [])
        return o
    budget = [60]

    def bad(its):
        if budget[0] <= 0:
            return False
        budget[0] -= 1
        return fails(enc(its))
    lo, hi = 0, len(items)
    while lo < hi:
        mid = (lo + hi) // 2
        if bad(items[:mid]):
            hi = mid
        else:
            lo = mid + 1
    cur = items[:hi] if bad(items[:hi]) else items
    i = len(cur) - 2
    while i >= 0 and budget[0] > 0:
        if cur[i][0] not in (1, 2):
            cand = cur[:i] + cur[i + 1:]
            if bad(cand):
                cur = cand
        i -= 1
    return enc(cur)


# ------------------------------------------------------------------------------------------
def evaluate(ctx, histories, have_model, flags_expected, record=True):
    """runs the histories on both sides; returns {case: [problems]} (monitor + correspondence)"""
    lib, impl = run_impl(histories)
    model = run_model(histories) if have_model else {}
    problems = {}
    for i, h in histories:
        pr = []
        im = impl.get(i)
        if im is None or isinstance(im, str):
            # a crash / abort / hang of the process is not something the simple model ever does
            pr.append(('viol', 'history-died', 'the process running the history did not survive it: %s' % im))
            problems[i] = pr
            continue
        recs, dup = parse_records(im, True)
        for key, what in monitor(h, recs, dup, lib, flags_expected):
            pr.append(('viol', key, what))
        if record:
            ctx.evaluations += len(recs)
            ctx.distinct.add(hashlib.sha1(repr([canon(r) for r in recs]).encode()).hexdigest())
        if have_model:
            mrecs, _ = parse_records(model.get(i, []), False)
            a, b = [canon(r) for r in recs], [canon(r) for r in mrecs]
            if len(a) == len(b):
                # a (sig,id) pair the implementation never handed out cannot be expressed as a SigId (private
                # fields): such an unregister is not executed by the probe, the model's answer (always false) is skipped
                keep = [j for j in range(len(a)) if a[j] != ('inexpressible',)]
                a, b = [a[j] for j in keep], [b[j] for j in keep]
            if a != b:
                k = next((j for j in range(min(len(a), len(b))) if a[j] != b[j]), min(len(a), len(b)))
                pr.append(('corr', 'diff', 'record %d: implementation %r, model %r' % (k, a[k] if k < len(a) else None, b[k] if k < len(b) else None)))
            elif record:
                ctx.traces += 1
        if pr:
            problems[i] = pr
    return lib, problems


def eintr(ctx):
    """a blocking read interrupted by SIGALRM: handled through the library it must restart (SA_RESTART),
    handled by a plain handler without SA_RESTART it must fail with EINTR (sensitivity of the probe)"""
    rc, out, _ = sh([common.bin_path('p_c05'), 'eintr'], timeout=60)
    e = {}
    for l in out.split('\n'):
        p = l.split()
        if len(p) == 5 and p[0] == 'E':
            e[p[1]] = (int(p[2]), int(p[3]), int(p[4]))
    ctx.evaluations += len(e)
    ctl = e.get('ctl')
    ctx.correspondence('EINTR probe is sensitive: a plain handler without SA_RESTART makes the blocked read fail with EINTR',
                       ctl is not None and ctl[0] == -1 and ctl[1] == 4 and ctl[2] == 1, out[-300:])
    lb = e.get('lib')
    if lb is None:
        ctx.correspondence('EINTR probe through the library ran', False, out[-300:])
    elif not (lb[0] == 1 and lb[2] >= 1):
        ctx.violation({'monitor': 'eintr'}, 'a blocking read interrupted by a signal handled through the library returned %d errno %d (action ran %d times): '
                      'the system call was not restarted, SA_RESTART is not in effect' % lb, {'probe': 'p_c05 eintr', 'result': lb})


def corpus_histories():
    out = []
    for f in sorted(glob.glob(os.path.join(common.ROOT, 'corpus', 'C05-*.json'))):
        try:
            out.append(json.load(open(f))['history'])
        except Exception:
            pass
    return out


def run(ctx, only=None):
    ctx.trusted_base = TB
    ctx.assumptions = ASSUME
    if not ctx.harness(['p_c05']):
        return
    ctx.translate(COMPONENTS)
    ctx.prove('props/C05.v')
    have_model = ctx.driver('seqreg', *R.all_drivers()['seqreg'])
    consts = common.measured_consts()
    flags_expected = consts['SA_RESTART'] | consts['SA_SIGINFO']

    # --- the OS oracle of the correspondence --------------------------------------------------
    if have_model and only is None:
        rc, out, _ = sh([common.bin_path('p_c05'), 'oracle', '-2', '70'], timeout=300)
        os_tab = {}
        for l in out.split('\n'):
            p = l.split()
            if len(p) == 4 and p[0] == 'O':
                os_tab[int(p[1])] = (int(p[2]), int(p[3]))
        sig_list = sorted(os_tab)
        mres = common.run_driver('seqreg', ['run_c05_oracle %d' % s for s in sig_list])
        bad = []
        _, _, forb, _ = pools(consts)
        for s, r in zip(sig_list, mres):
            q, st, fb = [int(x) for x in r.split()]
            if (q, st) != os_tab[s]:
                bad.append((s, 'os', os_tab[s], 'model', (q, st)))
            if (fb == 1) != (s in forb):
                bad.append((s, 'forbidden', fb))
        ctx.evaluations += len(sig_list)
        ctx.correspondence('Run.v linux_query_ok / linux_set_ok = sigaction of the running system (numbers -2..70, forked probes)',
                           rc == 0 and len(sig_list) == 73 and not bad, bad[:10] or out[-300:])

    # --- histories ---------------------------------------------------------------------------
    if only is not None:
        histories = [(0, only)]
    else:
        rnd = random.Random(ctx.seed * 1000003 + 5)
        n, maxlen = (150, 200) if ctx.tier == 'quick' else (5000, 600)
        hs = [gen_history(rnd, consts, ctx.tier, maxlen) for _ in range(n)]
        hs += [gen_history(rnd, consts, ctx.tier, 12) for _ in range(n // 3)]     # short ones: early steps of many shapes
        hs += corpus_histories()
        histories = list(enumerate(hs))
    lib, problems = evaluate(ctx, histories, have_model, flags_expected)
    ctx.correspondence('the library installs one handler address for every signal (and it is verif_api::handler_addr)', lib not in (None, -1), lib)

    diffs = []
    for i, h in histories:
        for kind, key, what in problems.get(i, []):
            if kind == 'corr':
                diffs.append((i, key, what))
    reported = set()
    for i, h in histories:
        viols = [(key, what) for kind, key, what in problems.get(i, []) if kind == 'viol']
        if not viols:
            continue
        key = viols[0][0]
        if key in reported:
            continue
        reported.add(key)

        def fails(hh, key=key):
            _, pr = evaluate(ctx, [(0, hh)], False, flags_expected, record=False)
            return any(k == key for kind, k, _ in pr.get(0, []) if kind == 'viol')
        small = shrink(h, fails) if only is None else h
        _, pr = evaluate(ctx, [(0, small)], have_model, flags_expected, record=False)
        whats = [w for kind, k, w in pr.get(0, []) if kind == 'viol' and k == key] or [viols[0][1]]
        ctx.violation({'monitor': key}, 'registry history violates C05 (%s): %s' % (key, whats[0]),
                      {'history': small, 'original_length': len(parse_items(h)[1]), 'encoding': 'see checks/c05.py docstring',
                       'replay': './check C05 --replay <this file>'})
    if have_model:
        det = diffs[:5]
        if diffs and only is None:
            # keep a shrunk diverging history for the report
            i0 = diffs[0][0]
            h0 = dict(histories)[i0]

            def fails2(hh):
                _, pr = evaluate(ctx, [(0, hh)], True, flags_expected, record=False)
                return any(kind == 'corr' for kind, _, _ in pr.get(0, []))
            det = {'first': diffs[:5], 'shrunk_history': shrink(h0, fails2)}
        ctx.correspondence('extracted model run_c05 = signal-hook-registry on %d histories (return values, ids, what each delivery ran, dispositions + flags)' % len(histories),
                           not diffs, det)

    if only is None:
        eintr(ctx)
    pre0, it0 = parse_items(histories[0][1])
    ctx.samples = [{'history_ops': len(it0), 'signals': sorted(pre0), 'first_ops': it0[:8]}]
    ctx.coverage['rule'] = ('%d random histories (length <= %d ops, 2-%d signals out of %s, pre-installed dfl/ign/user handlers, ~15%% stale ids, forbidden and '
                            'invalid numbers, disposition queries) each in a forked child against the real crate and the extracted model; '
                            'distinct_nontrivial = distinct output streams; plus the sigaction oracle sweep -2..70 and the EINTR pair'
                            % (len(histories), 200 if ctx.tier == 'quick' else 600, 6 if ctx.tier == 'quick' else 10,
                               '21 numbers' if ctx.tier == 'quick' else '49 numbers (incl. all real-time signals)'))
    ctx.coverage['exhaustive'] = False


def replay(ctx, path):
    case = json.load(open(path))
    h = case.get('case', {}).get('history')
    if h is None and case.get('case', {}).get('probe') == 'p_c05 eintr':
        if not ctx.harness(['p_c05']):
            return 1
        eintr(ctx)
        for v in ctx.violations:
            print('REPRODUCED:', v['what'])
        return 1 if (ctx.violations or ctx.broken) else 0
    if h is None:
        print('replay file names no concrete input:', json.dumps(case.get('broken'), indent=1)[:3000])
        return 1
    run(ctx, only=h)
    for v in ctx.violations:
        print('REPRODUCED:', v['what'])
    for b in ctx.broken:
        print('BROKEN:', b['name'], str(b.get('detail'))[:500])
    return 1 if (ctx.violations or ctx.broken) else 0
