"""C01 - removal is quiescent; nothing freed inside a handler; no use after free (DESIGN 5.1)."""
import json
import common
import ls_registry as L

COMPONENTS = ['halflock', 'registry']
DRIVERS = {'registry': (['run_registry'], ['registry/Run.vo'])}

TB = ['Coq 8.16.1 kernel (no vm_compute/native_compute in these proofs beyond reflexivity on generated string lists)',
      'translator/halflock.py, translator/registry.py: synchronisation skeletons, orderings, constants regenerated from the source; '
      'halflock/Skeleton.v and registry/Skeleton.v pin what the model implements',
      'SC memory model, justified by all_seqcst (every atomic access in half_lock.rs is SeqCst - proved from the regenerated data)',
      'lock-step correspondence: cfg(sighook_verif) shim in /repo + harness/src/sched.rs deterministic scheduler + ls_registry driver; '
      'extraction (ExtrOcamlBasic) + OCaml driver; deliveries are simulated by calling the dispatcher on a harness thread',
      'modelled, not verified: Box/Arc/Mutex/BTreeMap/HashMap of std, the allocator, sigaction']
ASSUME = ['fewer than 2^128 registrations (id counter unbounded in this model; wrap handled in C05)',
          'a snapshot is a value that does not change while it is live (copy-on-write in the code; contents indexed by allocation epoch)']


def run(ctx):
    ctx.trusted_base, ctx.assumptions = TB, ASSUME
    if not ctx.harness(['ls_registry', 'sh_probe']):
        return
    ctx.translate(COMPONENTS)
    ctx.prove('props/C01.v')
    L.lockstep(ctx, [L.mon_c01])
    L.reg_sweep(ctx, L.REG_KINDS['C01'])
    quiesce_probe(ctx)
    # removal "by dropping the object that owns it": the iterator instance records the ids it registered and
    # unregisters them in Drop; two handle clones adding a signal concurrently must not lose an id
    import c12
    if ctx.harness(['ls_addsig']):
        c12.concurrent_add(ctx)
    # what a built-in action captured (the self-pipe's write end) is released by the remover, exactly once, and not inside
    # a handler - also when its deliveries fail because the reader has gone away
    import c13
    if ctx.harness(['p_closecount']):
        c13.close_counts(ctx, only=lambda name: 'reader_gone' in name or name.endswith('unregistered'))
    # ... and the iterator's action: the last Handle dropped by another thread at every instruction boundary of a running delivery
    import ls_iter
    if ctx.harness(['p_nested_iter']):
        ls_iter.instr_sweep(ctx, ('RELEASE', 'ALLOC', 'CRASH'), configs=[('o', 'G', '-'), ('r', 'G', '-')], key='instruction_sweep_handle_dropped_during_delivery')
    ctx.coverage['rule'] = ('scenarios {unregister | unregister_signal | first/second registration} x 1-2 deliveries (incl. prior foreign handler), '
                            'every split point of one activity against the other + random 2-preemption and random run-length schedules; '
                            'distinct_nontrivial = distinct implementation traces in which at least two activities interleave; monitors: '
                            'guard-held snapshot released, release by a delivery, double release, action run after its removal returned')


def quiesce_probe(ctx):
    """real threads, a delivery that stays in its action for 0.2 - 1.5 s while another thread removes the action
    (unregister / unregister_signal / with an iterator instance dropped first): the removal returns only after
    the action has finished, its capture is dropped exactly once and not while it runs"""
    if not ctx.harness(['p_quiesce']):
        return
    mss = [200, 700, 1500] if ctx.tier == 'quick' else [100, 200, 400, 700, 1000, 1500, 3000]
    rc, out, _ = common.sh([common.bin_path('p_quiesce')] + [str(m) for m in mss], timeout=600)
    rows = [l.split() for l in out.split('\n') if l.startswith('Q ')]
    ctx.correspondence('long-delivery quiescence probe ran (p_quiesce)', rc == 0 and len(rows) == 3 * len(mss), out[-300:] if rc else None)
    names = {'u': 'unregister(id)', 'x': 'unregister_signal', 'd': 'drop(iterator); unregister(id)'}
    for r in rows:
        ctx.evaluations += 1
        how, ms = r[1], int(r[2])
        key = {'monitor': 'quiesce', 'how': how, 'ms': ms}
        case = {'probe': 'p_quiesce', 'row': r, 'replay': 'harness/target/debug/p_quiesce %d' % ms}
        if len(r) != 8:
            ctx.violation(key, '%s while a delivery stays %d ms in the action: %s' % (names[how], ms, ' '.join(r[3:])), case)
            continue
        still, d_ret, d_end, d_run, took = (int(x) for x in r[3:])
        ctx.distinct.add(('quiesce', how, ms))
        if still or d_run or d_ret != 1 or d_end != 1:
            ctx.violation(key, '%s while a delivery stays %d ms in the action returned after %d ms: the action was %s, its capture dropped %d time(s) at return / %d at the end%s'
                          % (names[how], ms, took, 'STILL RUNNING' if still else 'finished', d_ret, d_end, ', once WHILE it ran' if d_run else ''), case)
        else:
            ctx.traces += 1
    ctx.coverage['long_delivery_cases'] = len(rows)


def replay(ctx, path):
    case = json.load(open(path))
    sc = case.get('case', {}).get('scenario')
    if case.get('case', {}).get('reg_sweep'):
        return L.reg_replay(ctx, case['case'], L.REG_KINDS['C01'])
    if case.get('case', {}).get('instr_sweep'):
        import ls_iter
        return ls_iter.instr_replay(ctx, case['case'], ('RELEASE', 'ALLOC', 'CRASH'))
    if not sc:
        print('replay file names no concrete input:', json.dumps(case.get('broken'), indent=1)[:2000])
        return 1
    ctx.harness(['ls_registry'])
    s = L.from_json(sc)
    r = L.run_impl([s])[0]
    v = L.mon_c01(s, r)
    for l in r['trace']:
        print(L.pretty(l))
    for kind, idx, what in v:
        print('REPRODUCED:', what)
    return 1 if v else 0
