"""C14 - forbidden and invalid signals are refused before anything changes (DESIGN 5.14)."""
import json, os, random
import common
from common import sh

COMPONENTS = ['entry', 'details']
DRIVERS = {'entry': (['run_entry'], ['entry/Run.vo'])}

EPS = ['registry::register', 'registry::register_sigaction', 'flag::register', 'flag::register_usize',
       'flag::register_conditional_shutdown', 'flag::register_conditional_default', 'pipe::register',
       'pipe::register_raw', 'Signals::new', 'Signals::add_signal', 'Handle::add_signal',
       'registry::register_signal_unchecked', 'registry::register_unchecked']
CHECKED = list(range(11))
UNCHECKED = [11, 12]
ITER = [8, 9, 10]
CLOSURE = [0, 1, 11, 12]
# pre-operations of phase 1, in the order harness/src/bin/p_c14.rs performs them: (ep, fdk, sig)
PRE = {0: [], 1: [(0, 0, 10), (0, 0, 12), (0, 0, 12), (0, 0, 40), (11, 0, 8), (8, 0, 10)]}
RAISED = {0: {12}, 1: {10, 12, 40}}
CNT = {0: '0,0,0', 1: '1,2,1'}
R_FLAG, R_FD, R_PENDING, R_WRITE, R_INSTANCE, R_ACTION = 1, 2, 4, 8, 16, 32
WHY = {1: 'forbidden', 2: 'index', 3: 'nonneg', 4: 'ltmax', 5: 'supports', 6: 'freshid', 7: 'STUCK'}

TB = ['Coq 8.16.1 kernel (symbolic evaluation with cbv/cbn, lia); no native_compute, no axioms',
      'translator/entry.py: statement-shape recognition of every function between a public registration entry point and '
      'register_unchecked_impl (regex on comment-stripped text; unknown shape = failure), translator/details.py (DETAILS table)',
      'entry/Model.v: meaning of ONE skeleton operation on the abstract state (dispositions, registry snapshot, next_id, '
      'fallback cell, iterator instance) and the ownership discipline (locals dropped at any exit, action captures dropped '
      'unless published) - modelled, validated by the forked correspondence below',
      'the operating system verdicts (sigaction query / set per number) = ORACLE: universally quantified in the theorems, '
      'measured per number by the probe on every run and fed to the extracted model',
      'extraction (ExtrOcamlBasic only) + ocaml/main_template.ml; harness/src/bin/p_c14.rs forked probes',
      'Rust unwinding drops locals and moved closures (language semantics, observed through Arc counts and descriptor validity)']


def sweep(ctx):
    nums = list(range(-2, 131)) + [-2 ** 31, 2 ** 31 - 1, 1000, 65536]
    if ctx.tier == 'thorough':
        rnd = random.Random(ctx.seed)
        nums += [rnd.randint(-2 ** 31, 2 ** 31 - 1) for _ in range(200)]
    out = []
    for n in nums:
        if n not in out:
            out.append(n)
    return out


def parse_case(line):
    d = {}
    for tok in line.split()[1:]:
        k, _, v = tok.partition('=')
        d[k] = v
    return d


def classify(entry, foreign):
    """-> (code, lib address or None, flags)"""
    if entry == 'x':
        return 0, None, 0
    a, _, f = entry.partition(':')
    a, f = int(a, 16), int(f, 16)
    if a == 0:
        return 0, None, f
    if a == 1:
        return 1, None, f
    if a == foreign:
        return 2, None, f
    return 3, a, f


def apply_diff(base, diff):
    out = list(base)
    if diff != '-':
        for part in diff.split(';'):
            s, _, v = part.partition('=')
            out[int(s) - 1] = v
    return out


def info_iterators_probe(ctx, FORB):
    """the info-carrying iterators are checked entry points as well (the model covers the default exfiltrator):
    constructor and add_signal with WithRawSiginfo / WithOrigin for every forbidden signal, negative and too large
    numbers (refused by a catchable panic), numbers the OS refuses (error) - in every case the disposition of
    the signal is what it was and nothing is left open"""
    nums = sorted(set(FORB)) + [-1, -7, 128, 200, 100000, 0, 32, 65, 127]
    rc, out, _ = sh([common.bin_path('p_c14x')] + [str(n) for n in nums], timeout=300)
    rows = [l.split() for l in out.split('\n') if l.startswith('X ')]
    ctx.correspondence('info-carrying iterator entry points probe ran (p_c14x)', rc == 0 and len(rows) == 7 * len(nums), out[-400:] if rc else None)
    for r in rows:
        if len(r) != 7:
            continue
        _, exf, entry, sig, outcome, same, leaked = r
        sig = int(sig)
        ctx.evaluations += 1
        ctx.distinct.add(('c14x', exf, entry, sig))
        want = 'panic' if (sig in FORB or sig < 0 or sig >= 128) else 'err'
        name = '%s::%s(%s%d%s)' % ({'raw': 'SignalsInfo<WithRawSiginfo>', 'origin': 'SignalsInfo<WithOrigin>', 'only': 'Signals'}[exf],
                                   {'new': 'new', 'add': 'add_signal', 'new2': 'new'}[entry], '[SIGUSR1, ' if entry == 'new2' else '', sig, ']' if entry == 'new2' else '')
        if not outcome.startswith(want) or same != '1' or leaked != '0':
            ctx.violation({'entry': exf + '/' + entry, 'sig': sig},
                          '%s: outcome %s (expected a %s), disposition of the signal %s, %s descriptors left open' % (
                              name, outcome, 'catchable panic' if want == 'panic' else 'returned error',
                              'unchanged' if same == '1' else ('CHANGED' if entry != 'new2' else 'changed or the registration of SIGUSR1 made on the way still there'), leaked),
                          {'probe': 'p_c14x', 'row': r, 'replay': 'harness/target/debug/p_c14x %d' % sig})
        else:
            ctx.traces += 1


def run(ctx, only=None):
    ctx.trusted_base = TB
    ctx.assumptions = ['signal numbers are c_int (the out-of-table clause of C14_checked assumes -2^31 <= sig < 2^31)',
                       'the OS verdict for a number does not change during the run (function of the number only)',
                       'state invariant wf (slots only for accepted signals, library handler only where a slot exists, ids below next_id, '
                       'iterator instance holds only registered in-table non-forbidden signals): proved for the initial state and preserved by every '
                       'entry point while fewer than 2^128 ids were handed out (C14_invariant)',
                       'a valid descriptor is handed to pipe::register / register_raw; socketpair() succeeds',
                       'iterator front-ends with the default exfiltrator SignalOnly',
                       'single-threaded calls (mutual exclusion of concurrent registrations is C05/C18)']
    if not ctx.harness(['p_c14', 'p_c14x']):
        return
    ctx.translate(COMPONENTS)
    ctx.prove('props/C14.v')
    consts = common.measured_consts()
    FORB = [consts[n] for n in ('SIGKILL', 'SIGSTOP', 'SIGILL', 'SIGFPE', 'SIGSEGV')]
    SA_NEED = consts['SA_SIGINFO'] | consts['SA_RESTART']
    probe = common.bin_path('p_c14')
    if not only:
        info_iterators_probe(ctx, FORB)
    nums = sweep(ctx)
    if only:
        cases = [tuple(only)]
        nums = sorted(set([only[2]] + list(range(1, 65))))
    else:
        cases = [(ep, ph, n) for ep in range(13) for ph in (0, 1) for n in nums]

    # ---- the OS oracle, measured
    rc, out, _ = sh([probe, 'os'] + [str(n) for n in sorted(set(nums) | set(range(1, 65)))], timeout=600)
    osv = {}
    for l in out.split('\n'):
        p = l.split()
        if len(p) == 4 and p[0] == 'os' and p[2] != 'died':
            osv[int(p[1])] = (int(p[2]), int(p[3]))
    if rc != 0 or any(n not in osv for n in nums):
        ctx.correspondence('OS verdict probes ran', False, out[-800:])
        return
    q_ok = sorted(n for n, (q, s) in osv.items() if q == 0)
    s_ok = sorted(n for n, (q, s) in osv.items() if s == 0)
    accepts = lambda n: osv[n][0] == 0 and osv[n][1] == 0
    os_errno = lambda n: osv[n][0] if osv[n][0] != 0 else osv[n][1]
    ctx.correspondence('OS rejects setting SIGKILL/SIGSTOP and accepts querying them (the situation C14_unchecked_kill_stop describes)',
                       all(osv[s][0] == 0 and osv[s][1] != 0 for s in (consts['SIGKILL'], consts['SIGSTOP'])), [osv.get(9), osv.get(19)])

    # ---- implementation
    rc, out, _ = sh([probe, 'run'], input=''.join('%d %d %d\n' % c for c in cases).encode(), timeout=3000)
    impl = {}
    for l in out.split('\n'):
        if l.startswith('case '):
            d = parse_case(l)
            key = (int(d['ep']), int(d['phase']), int(d['sig']))
            if key not in impl or 'died' in d:
                impl[key] = d
    if rc != 0 or any(c not in impl for c in cases):
        ctx.correspondence('C14 probes ran', False, out[-800:])
        return

    # ---- model
    have_model = ctx.driver('entry', *DRIVERS['entry'])
    model, premodel = {}, {}
    if have_model:
        some = next(d for d in impl.values() if 'init' in d)
        foreign = int(some['foreign'], 16)
        init_codes = [classify(e, foreign)[0] for e in some['init'].split(',')]
        head = lambda e, k, s: [e, k, s, len(q_ok)] + q_ok + [len(s_ok)] + s_ok + init_codes
        req = []
        for ph in (0, 1):
            req.append('run_entry ' + ' '.join(str(x) for x in head(-1, 0, 0) + [len(PRE[ph])] + [y for t in PRE[ph] for y in t]))
        for (ep, ph, n) in cases:
            k = 1 if ep == 7 else 0
            req.append('run_entry ' + ' '.join(str(x) for x in head(ep, k, n) + [len(PRE[ph])] + [y for t in PRE[ph] for y in t]))
        res = common.run_driver('entry', req, timeout=3000)

        def parse(l):
            v = [int(x) for x in l.split()]
            slots = v[72:]
            return {'oc': v[0], 'od': v[1], 'next': v[2], 'fb': v[3], 'rel': v[4], 'kept': v[5], 'leak': v[6], 'ninst': v[7],
                    'disp': v[8:72], 'slots': dict(zip(slots[0::2], slots[1::2]))}
        premodel = {0: parse(res[0]), 1: parse(res[1])}
        for c, l in zip(cases, res[2:]):
            model[c] = parse(l)

    bad = {'outcome': [], 'dispositions': [], 'pre-state': [], 'next_id': [], 'resources': [], 'tested action': [], 'lib handler flags': []}
    n_refused = 0
    for c in cases:
        ep, ph, n = c
        d = impl[c]
        ctx.evaluations += 1
        checked = ep in CHECKED
        base_next = str(1 + len(PRE[ph]))
        vkey = lambda what: {'entry_point': EPS[ep], 'signal': n, 'phase': ph, 'what': what}
        vcase = {'ep': ep, 'phase': ph, 'signal': n, 'impl': {k: v for k, v in d.items() if k != 'init'}, 'os': osv.get(n),
                 'replay': './check C14 --replay <this file>'}
        # ================= direct property monitor on the implementation =================
        if 'died' in d:
            ctx.violation(vkey('process died'), '%s(%d) [phase %d]: the process died (%s) instead of a catchable panic / error' % (EPS[ep], n, ph, d['died']), vcase)
            continue
        out_kind = d['out'].split(':')[0]
        refused_expected = None
        if checked:
            if n in FORB:
                refused_expected = 'panic'
            elif ep in ITER and (n < 0 or n >= 128):
                refused_expected = 'panic'
            elif not accepts(n):
                refused_expected = 'err'
            if refused_expected and out_kind != refused_expected:
                ctx.violation(vkey('wrong refusal'), '%s(%d) [phase %d]: expected %s, got %s' % (EPS[ep], n, ph, refused_expected, d['out']), vcase)
        else:
            slot_exists = (ph == 1 and n in (8, 10, 12, 40))
            want = 'ok' if (accepts(n) or slot_exists) else 'err:%d' % os_errno(n)
            got = 'ok' if out_kind == 'ok' else d['out']
            if got != want:
                ctx.violation(vkey('verdict not passed through'), '%s(%d) [phase %d]: OS verdict is %s but the call returned %s' % (EPS[ep], n, ph, want, d['out']), vcase)
            if out_kind != 'ok':
                refused_expected = 'err'
        if out_kind in ('panic', 'err'):
            n_refused += 1
            ctx.distinct.add((ep, n))
            problems = []
            if d['post'] != '-':
                problems.append('dispositions changed: ' + d['post'])
            if d['held'] not in ('-', '0'):
                problems.append('flag/action still referenced (%s extra strong refs)' % d['held'])
            if d['fd'] == 'open':
                problems.append('descriptor still open')
            if int(d['fds']) != (-1 if ep in (6, 7) else 0):
                problems.append('open descriptors changed by %s' % d['fds'])
            if d['next'] != base_next:
                problems.append('an action id was consumed (next fresh id %s, expected %s)' % (d['next'], base_next))
            if d['usable'] != 'ok':
                problems.append('library not usable afterwards: ' + d['usable'])
            if d['cnt'] != CNT[ph]:
                problems.append('earlier registrations ran %s times, expected %s' % (d['cnt'], CNT[ph]))
            if d['tested'] != '0':
                problems.append('the refused action ran')
            if d['endfds'] != '0':
                problems.append('descriptors leaked at the end: %s' % d['endfds'])
            for p in problems:
                ctx.violation(vkey(p.split(':')[0].split('(')[0].strip()), '%s(%d) [phase %d] refused with %s but %s' % (EPS[ep], n, ph, d['out'], p), vcase)
        else:
            if d['usable'] != 'ok' or d['cnt'] != CNT[ph]:
                ctx.violation(vkey('not usable after accepted call'), '%s(%d) [phase %d] accepted, afterwards: usable=%s cnt=%s' % (EPS[ep], n, ph, d['usable'], d['cnt']), vcase)
        # ================= model vs implementation =================
        if c not in model:
            continue
        m = model[c]
        ctx.traces += 1
        if m['oc'] == 0:
            want = 'ok:%d' % m['od']
        elif m['oc'] == 1:
            want = 'okunit'
        elif m['oc'] == 2:
            want = 'err:%d' % os_errno(n)
        elif m['oc'] == 3:
            want = 'err:%d' % m['od']
        elif m['oc'] == 5:
            want = 'panic:' + WHY.get(m['od'], '?')
        else:
            want = 'model-oc-%d' % m['oc']
        if want != d['out']:
            bad['outcome'].append((EPS[ep], ph, n, 'model ' + want, 'impl ' + d['out']))
        foreign = int(d['foreign'], 16)
        init = d['init'].split(',')
        before = apply_diff(init, d['pre'])
        after = apply_diff(before, d['post'])
        libs = set()
        for which, dump_, mm in (('pre', before, premodel[ph]['disp']), ('post', after, m['disp'])):
            cl = [classify(e, foreign) for e in dump_]
            codes = [x[0] for x in cl]
            for (code, addr, fl) in cl:
                if code == 3:
                    libs.add(addr)
                    if fl & SA_NEED != SA_NEED:
                        bad['lib handler flags'].append((EPS[ep], ph, n, hex(fl)))
            if codes != mm:
                diffs = [(i + 1, codes[i], mm[i]) for i in range(64) if codes[i] != mm[i]]
                bad['pre-state' if which == 'pre' else 'dispositions'].append((EPS[ep], ph, n, 'signal/impl/model', diffs[:5]))
        if len(libs) > 1:
            bad['dispositions'].append((EPS[ep], ph, n, 'more than one non-foreign handler address', [hex(x) for x in libs]))
        # the id handed to the fresh registration made after the call = the model's next_id
        if d['next'] != str(m['next']):
            bad['next_id'].append((EPS[ep], ph, n, 'impl next fresh id ' + d['next'], 'model next_id %d' % m['next']))
        # resources
        rel, kept, leak = m['rel'], m['kept'], m['leak']
        if d['held'] != '-':
            bit = R_ACTION if ep in CLOSURE else R_FLAG
            want_held = '1' if kept & bit else ('0' if rel & bit else '?')
            if want_held != d['held']:
                bad['resources'].append((EPS[ep], ph, n, 'held impl %s model %s (rel %d kept %d)' % (d['held'], want_held, rel, kept)))
        if d['fd'] != '-':
            want_fd = 'closed' if rel & R_FD else 'open'
            if want_fd != d['fd'] or (leak & R_FD):
                bad['resources'].append((EPS[ep], ph, n, 'fd impl %s model %s leak %d' % (d['fd'], want_fd, leak)))
        if ep == 8:
            want_fds = 0 if rel & R_INSTANCE else 2
            if int(d['fds']) != want_fds:
                bad['resources'].append((EPS[ep], ph, n, 'instance descriptors impl %s model %d' % (d['fds'], want_fds)))
        if ep in ITER and m['oc'] in (2, 5) and m['od'] != 2 and not (rel & R_PENDING and rel & R_WRITE):
            bad['resources'].append((EPS[ep], ph, n, 'model did not release the Arc clones', rel))
        want_tested = 1 if (ep in CLOSURE and m['oc'] == 0 and n in RAISED[ph]) else 0
        if str(want_tested) != d['tested']:
            bad['tested action'].append((EPS[ep], ph, n, 'impl %s model %d' % (d['tested'], want_tested)))
    if have_model:
        names = {'outcome': 'model outcome (ok id / err errno / panic class) = implementation, per entry point x number x phase',
                 'dispositions': 'model dispositions after the call = sigaction dump after the call (64 signals)',
                 'pre-state': 'model state after the pre-operations = sigaction dump before the call',
                 'next_id': "model next_id after the call = id the implementation hands to the next registration",
                 'resources': 'model released/kept resources = Arc strong counts, descriptor validity, open-descriptor deltas',
                 'tested action': 'model registry contains the tested action iff it runs when its signal is raised',
                 'lib handler flags': 'library handler installed with SA_SIGINFO|SA_RESTART'}
        for k, v in bad.items():
            ctx.correspondence(names[k], not v, v[:8])
        # the model's own verdict about the property, on the measured OS table (finds the failing input when a proof breaks)
        for c in cases:
            ep, ph, n = c
            m = model[c]
            if m['oc'] == 5 and m['od'] == 7:
                ctx.correspondence('model interpreter never stuck', False, (EPS[ep], ph, n))
                break
            refused = m['oc'] in (2, 3, 4, 5)
            if refused:
                p = premodel[ph]
                issues = []
                if m['disp'] != p['disp']:
                    issues.append('dispositions')
                if m['slots'] != p['slots']:
                    issues.append('registry')
                if m['next'] != p['next']:
                    issues.append('next_id')
                if m['kept'] or m['leak']:
                    issues.append('resources kept/leaked')
                if issues:
                    ctx.violation({'entry_point': EPS[ep], 'signal': n, 'phase': ph, 'what': 'model: ' + ','.join(issues)},
                                  'the model of the CURRENT source changes %s on the refused call %s(%d) [phase %d]' % (','.join(issues), EPS[ep], n, ph),
                                  {'ep': ep, 'phase': ph, 'signal': n, 'model': m, 'impl': {k: v for k, v in impl[c].items() if k != 'init'}})
    ctx.samples = []
    for c in [(0, 1, 9), (5, 0, 40), (7, 1, 65), (10, 1, -1), (11, 1, 9), (2, 1, 15)]:
        if c in impl:
            ctx.samples.append({'entry_point': EPS[c[0]], 'phase': c[1], 'signal': c[2], 'impl': {k: v for k, v in impl[c].items() if k not in ('init', 'pre')},
                                'model': {k: v for k, v in model.get(c, {}).items() if k != 'disp'}})
    ctx.coverage['rule'] = ('13 entry points x 2 phases (nothing registered / six registrations incl. an iterator instance and an unchecked SIGFPE slot) x numbers %s, '
                            'each case in its own forked child: outcome, sigaction dump of 64 signals before/after, Arc strong counts, fcntl validity, open-descriptor counts, '
                            'id of a fresh registration, fresh flag + fresh iterator round trip; OS query/set verdict measured per number. distinct_nontrivial = (entry point, number) pairs that were refused (%d refused cases)'
                            % ('[-2,130]+{i32::MIN,i32::MAX,1000,65536}' + (' + 200 random i32' if ctx.tier == 'thorough' else ''), n_refused))
    ctx.coverage['exhaustive'] = False
    ctx.coverage['os_accepts_query'] = q_ok[:70]
    ctx.coverage['os_accepts_set'] = s_ok[:70]


def replay(ctx, path):
    case = json.load(open(path))
    c = case.get('case', {})
    if 'ep' not in c:
        print('replay file names no concrete input:', json.dumps(case.get('broken'), indent=1)[:3000])
        return 1
    run(ctx, only=(c['ep'], c['phase'], c['signal']))
    for v in ctx.violations:
        print('REPRODUCED:', v['what'])
    for b in ctx.broken:
        print('BROKEN:', b['name'], str(b.get('detail'))[:300])
    return 1 if (ctx.violations or ctx.broken) else 0
