"""C08 - channel operations never block or panic, also nested (DESIGN 5.8)."""
import common
import ls_channel as L

COMPONENTS = ['channel']
DRIVERS = {'channel': L.DRIVER}

TB = ['Coq 8.16.1 kernel; vm_compute for the 326-word sweep and the skeleton lemmas',
      'translator/channel.py (translated get/set/enqueue/dequeue expressions, skeletons, orderings, queue roles)',
      'C08_no_panic, C08_bounded_solo, C08_step_progress: SC interleaving; C08_no_panic_ra: release/acquire view semantics reading the extracted '
      'orderings (RC11-style, no (po U rf) cycles: every write to the queue words is an RMW)',
      'lock-step correspondence (shim + deterministic scheduler + ls_channel) and catch_unwind at the scenario boundary',
      'modelled, not verified: Option::expect panics exactly on None; array indexing panics exactly out of range']
ASSUME = ['at most k spurious failures of compare_exchange_weak during the solo run (k is a parameter of the bounds 5 + k (SC) and 8 + 2k (view semantics))',
          'the hardware does not make a weak CAS fail spuriously forever']


def run(ctx):
    ctx.trusted_base, ctx.assumptions = TB, ASSUME
    if not ctx.harness(['ls_channel', 'p_nested', 'sh_probe']):
        return
    ctx.translate(COMPONENTS)
    ctx.prove('props/C08.v')
    L.lockstep(ctx, [L.mon_c08])
    L.nested_sweep(ctx, ('panic', 'hang'))
    if ctx.tier == 'thorough':
        ctx.harness(['p_nested2'])
        L.nested2_sweep(ctx, ('panic', 'hang'))
    # the operations as the info-carrying iterators call them (store in the handler, load in the consumer), also with a burst
    # longer than the buffer: a delivery at every instruction boundary of the consumer; nobody panics, nobody hangs
    import ls_iter
    if ctx.harness(['p_nested_iter']):
        ls_iter.instr_sweep(ctx, ('CRASH', 'BLOCKED'), configs=[('r', 'p', 's'), ('r', 'p', 'sssss'), ('r', 'w', 'ssssss'), ('r', 'f', 'ssssst')], key='instruction_sweep_through_exfiltrator')
    L.ra_search(ctx, 1500 if ctx.tier == 'quick' else 60000)
    ctx.coverage['rule_nested'] = ('instruction-level sweep (trap flag): send/recv interrupted after every instruction by a handler running '
                                   'send/recv to completion, fill 0-5; outcomes (returns, drained values, drop counts, panic, hang) against the '
                                   'outcomes of the SC model over all step boundaries')
    ctx.coverage['rule'] = ('same scenarios/schedules as C06 (every split point incl. a complete send/recv inside the window between the two queue '
                            'operations of another, spurious CAS failures injected); monitors: panic caught at the scenario boundary, every '
                            'activity finishes, per call at most 5 shim steps that are not failed CASes, only load/cas/cell operations; '
                            'view-semantics search: random weak-memory executions of the extracted model looking for PANIC')


def replay(ctx, path):
    import json
    case = json.load(open(path))
    if case.get('case', {}).get('instr_sweep'):
        import ls_iter
        return ls_iter.instr_replay(ctx, case['case'], ('CRASH', 'BLOCKED'))
    return L.replay_case(ctx, path, [L.mon_c08])
