"""C09 - Signal iterators never lose a signal or a wake-up (DESIGN 5.9)."""
import json
import common
import ls_iter as L

COMPONENTS = ['iter']
DRIVERS = {'iter': (['run_iter'], ['iter/Run.vo'])}

TB = ['Coq 8.16.1 kernel (reflexivity on generated string lists / booleans; no vm_compute or native_compute)',
      'translator/iter.py: MAX_SIGNUM, channel capacity, the skeletons of the action closure, close, is_closed, flush, pending, poll_pending, '
      'Pending::next, SignalIterator::new, poll_signal, has_signals, wait, Forever::next, SignalOnly/WithRawSiginfo store+load, pipe::wake, and the '
      'three structural facts the model branches on (action_store_first, close_store_first, poll_none_retest); iter/Skeleton.v pins the rest',
      'SC interleaving model of the closed flag / slots / self-pipe (iter/Model.v); the self-pipe is a byte counter with an arbitrary capacity >= 1',
      'lock-step correspondence: cfg(sighook_verif) shim in /repo + harness/src/sched.rs deterministic scheduler + harness/src/bin/ls_iter.rs; the model is run '
      'under the schedule induced by the implementation trace (registry-internal operations of a simulated delivery are filtered out); extraction (ExtrOcamlBasic) + OCaml driver',
      'modelled, not verified: the kernel socket (send/recv/read semantics, blocking), Arc/Mutex of std, the reactor of an async runtime (armed/notified bits)']
ASSUME = ['memory model (DESIGN 3.3): all atomics of the protocol are SeqCst except the FAILURE ordering of SignalOnly::load = compare_exchange(true,false,SeqCst,Relaxed): '
          'a failed exchange is a relaxed load; the model is SC and relies on the byte passed through the self-pipe as the synchronisation edge that orders the handler\'s store '
          'before the consumer\'s rescan (kernel socket semantics, not stated by the C11/Rust memory model); on the EAGAIN path (full pipe) visibility rests on cache coherence - assumed, not proved',
          'the self-pipe can hold at least one byte (cap >= 1); the write end stays open while a Handle exists (no EOF on the read end); read errors other than EINTR do not occur',
          'a blocking read interrupted by a signal (EINTR) is retried; solo-progress bounds count the consumer\'s own uninterrupted steps',
          'one consumer per instance (every consuming method takes &mut self); batches (Pending) may be scanned by any thread at any time',
          'the asynchronous caller\'s readiness callback either consumes a byte and answers true or arms a wake-up and answers false (what tokio/async-io poll_read do)']


def run(ctx):
    ctx.trusted_base, ctx.assumptions = TB, ASSUME
    if not ctx.harness(['ls_iter', 'p_nested_iter', 'sh_probe']):
        return
    ctx.translate(COMPONENTS)
    ctx.prove('props/C09.v')
    L.lockstep(ctx, [L.mon_c09], ['c09'], with_raw=True)
    L.instr_sweep(ctx, L.C09_KINDS)
    L.allsigs_probe(ctx, ('lost',))
    # the asynchronous interface: Pending is only ever answered with a wake-up armed (else the next delivery's byte wakes nobody)
    if ctx.harness(['p_nested_close']):
        L.close_sweep(ctx, L.C09_POLL_KINDS, configs=L.STALE_CONFIGS, key='instruction_poll_sweep')
    full_pipe_probe(ctx)
    # the real adapters: parked with Pending, a later delivery must fire the waker (tokio, async-std; also behind a stale byte) / make the mio Poll readable
    import c11
    c11.async_probe(ctx, only=('S1', 'S5', 'M1', 'M3', 'M4'))
    ctx.coverage['rule_instruction_sweep'] = ('one more delivery (real handler, sigqueue) at every instruction boundary of pending() / wait() / forever().next(), '
                                              'SignalOnly and WithRawSiginfo, 23 configurations of earlier deliveries incl. bursts longer than the buffer; fork per boundary')
    ctx.coverage['rule'] = ('scenarios {wait | Forever::next | poll_signal | pending + several live batches} x {1-2 deliveries of 1-2 signals, add_signal from another thread, close}: every split point of each activity '
                            'against the others (the delivery between the consumer\'s drain and its scan, between store and wake, ...), random 2-preemption and random run-length schedules; monitors on the '
                            'real traces: consumer blocked on the self-pipe (scheduler deadlock report: nothing readable) while a slot is set, its handlers are past their wake and no handed-out batch is open; '
                            'parked after Pending with a set slot and an empty pipe; every stored delivery reported afterwards (final drain included)')


def full_pipe_probe(ctx, n=1500):
    """an instance nobody reads (its self-pipe fills up completely) next to one with a consumer in forever(): every one
    of n deliveries must reach the consumer (harness/src/bin/p_c09_full.rs)"""
    if not ctx.harness(['p_c09_full']):
        return
    rc, out, _ = common.sh([common.bin_path('p_c09_full'), str(n)], timeout=200)
    row = [l.split() for l in out.split('\n') if l.startswith('F ')]
    ctx.evaluations += n
    res = row[0][1:] if row else ['no-output', str(rc)]
    if res[0] in ('lost', 'stuck'):
        what = ('delivery %s of SIGUSR1 was not handed to the consumer blocked in forever() within 3 s' % res[1] if res[0] == 'lost' else
                'the raise of delivery %s did not return: the handler is stuck' % res[1])
        ctx.violation({'monitor': 'full-pipe', 'kind': res[0]},
                      'two instances watch SIGUSR1, the first is never read (its self-pipe is full after a few hundred deliveries): ' + what,
                      {'full_pipe': True, 'n': n, 'result': res})
    else:
        ctx.correspondence('full self-pipe probe: %d deliveries with an undrained instance registered first all reach the other instance\'s consumer' % n, res[0] == 'ok', res)
    ctx.coverage['full_pipe_probe'] = {'deliveries': n, 'result': ' '.join(res)}


def replay(ctx, path):
    case = json.load(open(path))
    sc = case.get('case', {}).get('scenario')
    if case.get('case', {}).get('close_sweep'):
        return L.close_replay(ctx, case['case'], L.C09_POLL_KINDS)
    if case.get('case', {}).get('instr_sweep'):
        return L.instr_replay(ctx, case['case'], L.C09_KINDS)
    if case.get('case', {}).get('adapter'):
        import c11
        return c11.adapter_replay(ctx, case['case'])
    if case.get('case', {}).get('full_pipe'):
        ctx.harness(['p_c09_full'])
        rc, out, _ = common.sh([common.bin_path('p_c09_full'), str(case['case']['n'])], timeout=200)
        print(out)
        bad = any(l.startswith('F lost') or l.startswith('F stuck') for l in out.split('\n'))
        if bad:
            print('REPRODUCED: a delivery did not reach the consumer while another instance\'s pipe was full')
        return 1 if bad else 0
    if not sc:
        print('replay file names no concrete input:', json.dumps(case.get('broken'), indent=1)[:2000])
        return 1
    ctx.harness(['ls_iter'])
    s = L.from_json(sc)
    r = L.run_impl([s])[0]
    v = [x for m in (L.mon_c09,) for x in m(s, r)]
    for l in r['trace']:
        if not (l[1] == 5 and l[5] == 0):
            print(L.pretty(l))
    for kind, idx, what in v:
        print('REPRODUCED:', what)
    return 1 if v else 0
