"""C11 - close() is sticky, unblocks every consumer, and never strands an async poller (DESIGN 5.11)."""
import json, os, shutil
import common
import ls_iter as L

COMPONENTS = ['iter']
DRIVERS = {'iter': (['run_iter'], ['iter/Run.vo'])}

TB = ['Coq 8.16.1 kernel (reflexivity on generated string lists / booleans; no vm_compute or native_compute)',
      'translator/iter.py: MAX_SIGNUM, channel capacity, the skeletons of the action closure, close, is_closed, flush, pending, poll_pending, '
      'Pending::next, SignalIterator::new, poll_signal, has_signals, wait, Forever::next, SignalOnly/WithRawSiginfo store+load, pipe::wake, and the '
      'three structural facts the model branches on (action_store_first, close_store_first, poll_none_retest); iter/Skeleton.v pins the rest',
      'SC interleaving model of the closed flag / slots / self-pipe (iter/Model.v); the self-pipe is a byte counter with an arbitrary capacity >= 1',
      'lock-step correspondence: cfg(sighook_verif) shim in /repo + harness/src/sched.rs deterministic scheduler + harness/src/bin/ls_iter.rs; the model is run '
      'under the schedule induced by the implementation trace (registry-internal operations of a simulated delivery are filtered out); extraction (ExtrOcamlBasic) + OCaml driver',
      'modelled, not verified: the kernel socket (send/recv/read semantics, blocking), Arc/Mutex of std, the reactor of an async runtime (armed/notified bits)']
ASSUME = ['memory model (DESIGN 3.3): all atomics of the protocol are SeqCst except the FAILURE ordering of SignalOnly::load = compare_exchange(true,false,SeqCst,Relaxed): '
          'a failed exchange is a relaxed load; the model is SC and relies on the byte passed through the self-pipe as the synchronisation edge that orders the handler\'s store '
          'before the consumer\'s rescan (kernel socket semantics, not stated by the C11/Rust memory model); on the EAGAIN path (full pipe) visibility rests on cache coherence - assumed, not proved',
          'the self-pipe can hold at least one byte (cap >= 1); the write end stays open while a Handle exists (no EOF on the read end); read errors other than EINTR do not occur',
          'a blocking read interrupted by a signal (EINTR) is retried; solo-progress bounds count the consumer\'s own uninterrupted steps',
          'one consumer per instance (every consuming method takes &mut self); batches (Pending) may be scanned by any thread at any time',
          'the asynchronous caller\'s readiness callback either consumes a byte and answers true or arms a wake-up and answers false (what tokio/async-io poll_read do)',
          'reactor contract (hypothesis of C11_adapter_*): poll_read of tokio::net::UnixStream / async_io::Async<UnixStream> on the read end of the self-pipe reads one byte if one is '
          'readable, otherwise returns Pending after registering the task\'s waker for readability of the read end; no end-of-file/error while a Handle (write end) exists']


def run(ctx):
    ctx.trusted_base, ctx.assumptions = TB, ASSUME
    if not ctx.harness(['ls_iter', 'p_closeafter', 'p_nested_close', 'p_nested_iter', 'sh_probe']):
        return
    ctx.translate(COMPONENTS)
    ctx.prove('props/C11.v')
    L.lockstep(ctx, [L.mon_c11], ['c11'])
    async_probe(ctx)
    L.close_sweep(ctx, L.C11_KINDS)
    # close() while the library's handler is running for a delivery to ANOTHER instance (every instruction boundary of the handler)
    L.instr_sweep(ctx, L.C11_HANDLER_KINDS, configs=L.HANDLER_CLOSE_CONFIGS, key='instruction_handler_close_sweep')
    ctx.coverage['rule_close_sweep'] = ('close() at every instruction boundary of wait() / forever().next() / one poll_signal with a recording non-blocking callback '
                                        '(fork per boundary): Pending only with an armed wake-up, is_closed sticky, every later call comes back, forever ends, the poller reaches Closed')
    # "once close has been called ..." holds in every history of the instance, also after additions that were refused
    import c12
    c12.close_after_rejection(ctx)
    ctx.coverage['rule'] = ('scenarios {wait | Forever::next | poll_signal with a recording non-blocking callback} x {close(), two close(), delivery + close()}: every split point '
                            'of each activity against the others (consumer: every step around call boundaries and scan ends), random 2-preemption and random run-length schedules; '
                            'distinct_nontrivial = distinct implementation traces in which at least two activities interleave; monitors on the real traces: every PollResult with the '
                            'callback log of that call (Pending with 0 consultations or after an "available" answer = violation), closed flag read false after the store, consumer blocked / '
                            'not returning within 2*MAX_SIGNUM+12 own steps / Forever::next not ending after close() returned')


def async_build_run(ctx):
    """builds harness_async against the repository and runs it: (rc, output) or None when it cannot be built offline"""
    src = os.path.join(common.ROOT, 'harness_async')
    d = os.path.join(common.BUILD, 'c11_async')
    os.makedirs(d, exist_ok=True)
    toml = open(os.path.join(src, 'Cargo.toml.in')).read().replace('@REPO@', common.REPO).replace('@SRC@', src)
    common.write_if_changed(os.path.join(d, 'Cargo.toml'), toml)
    if not os.path.exists(os.path.join(d, 'Cargo.lock')) and os.path.exists(os.path.join(common.REPO, 'Cargo.lock')):
        shutil.copy(os.path.join(common.REPO, 'Cargo.lock'), os.path.join(d, 'Cargo.lock'))
    with common.Lock('cargo_async'):
        rc, out, _ = common.sh('cargo build --offline 2>&1', cwd=d, env={'CARGO_TARGET_DIR': os.path.join(d, 'target')}, timeout=900)
    if rc != 0:
        if any(k in out for k in ('no matching package', 'failed to download', 'failed to select a version', "can't be accessed in offline mode")):
            ctx.notes.append('async adapter probe skipped: tokio/async-io do not build offline here')
            ctx.coverage['async_adapter_probe'] = 'skipped (crates not available offline)'
            return None
        ctx.correspondence('async adapters: probe builds against the adapters of the repository', False, out[-1500:])
        return None
    rc, out, _ = common.sh([os.path.join(d, 'target', 'debug', 'p_c11_async')], timeout=120)
    return rc, out


def adapter_replay(ctx, case):
    r = async_build_run(ctx)
    if r is None:
        print('the adapter probe cannot be built here')
        return 1
    print(r[1])
    ad, sit = case['adapter'], case['situation']
    for l in r[1].split('\n'):
        t = l.split()
        if len(t) >= 4 and t[0] == ad and t[1] == sit:
            row = dict(x.split('=', 1) for x in t[2:])
            bad = (row.get('events') == '0') if ad == 'mio' else (row.get('first') == 'Pending' and int(row['wakes1']) <= int(row['wakes0']))
            if bad:
                print('REPRODUCED: %s adapter, situation %s: parked and never woken' % (ad, sit))
            return 1 if bad else 0
    print('no row for', ad, sit)
    return 1


def async_probe(ctx, only=None):
    """Dynamic monitor on the real adapters: signal-hook-tokio / signal-hook-async-std built as path
    dependencies of the repository under test (offline, crates from the cargo cache), Stream::poll_next
    polled by hand with a counting waker; signal-hook-mio at a real mio::Poll (harness_async/src/main.rs).
    only = the situations whose stranding is reported as a violation by the calling check."""
    r = async_build_run(ctx)
    if r is None:
        return
    rc, out = r

    def off(o):
        """lines that differ from what the adapters do on a healthy machine (the reactor is given 1.5-2 s per situation)"""
        bad_lines = []
        for l in o.split('\n'):
            f = dict(x.split('=', 1) for x in l.split()[2:] if '=' in x)
            if (f.get('first') == 'Pending' and f.get('wakes0') == f.get('wakes1')) or (l.startswith('mio M') and not l.startswith('mio M2') and f.get('events') == '0'):
                bad_lines.append(' '.join(l.split()[:2]))
        return sorted(bad_lines)
    if off(out):
        # a starved machine must not look like a stranded poller: the same lines have to come out of two more runs, alone
        d = os.path.join(common.BUILD, 'c11_async')
        again = [common.sh([os.path.join(d, 'target', 'debug', 'p_c11_async')], timeout=120)[1] for _ in range(2)]
        if not all(off(a) == off(out) for a in again):
            ctx.coverage['async_unconfirmed_on_rerun'] = off(out)
            out = min(again, key=lambda a: len(off(a)))
    rows = {}
    for l in out.split('\n'):
        t = l.split()
        if len(t) == 6 and t[1] in ('S1', 'S2', 'S3', 'S4', 'S5'):
            rows[(t[0], t[1])] = dict(x.split('=', 1) for x in t[2:])
    expect = {'S1': ('Pending', 'Ready(Some(10))'), 'S2': ('Ready(None)', 'Ready(None)'), 'S3': ('Pending', 'Ready(None)'),
              'S4': ('Pending', 'Ready(None)'), 'S5': ('Pending', 'Ready(Some(10))')}
    bad = []
    for ad in ('tokio', 'asyncstd'):
        for sit, (f, snd) in expect.items():
            ctx.evaluations += 1
            r = rows.get((ad, sit))
            if r is None:
                bad.append('%s %s: no result (rc=%d)' % (ad, sit, rc))
                continue
            fired = int(r['wakes1']) > int(r['wakes0'])
            if only is not None and sit not in only:
                ctx.traces += 1
            elif r['first'] == 'Pending' and not fired:
                ctx.violation({'monitor': 'adapter-stranded', 'adapter': ad, 'situation': sit},
                              '%s adapter: poll_next returned Poll::Pending and the waker never fired after the later %s' % (ad, 'raise' if sit in ('S1', 'S5') else 'close()'),
                              {'adapter': ad, 'situation': sit, 'row': r})
            elif (r['first'], r['second']) != (f, snd):
                bad.append('%s %s: poll_next gave %s then %s, expected %s then %s' % (ad, sit, r['first'], r['second'], f, snd))
            else:
                ctx.traces += 1
    ctx.correspondence('async adapters: real Stream::poll_next (tokio, async-std) behaves as C11_adapter_* state, 5 situations (two with a stale wake-up byte in the pipe) x 2 adapters', not bad, bad)
    # signal-hook-mio (mio 1.0): the instance registered as an event source of a real Poll
    mio = {}
    for l in out.split('\n'):
        t = l.split()
        if len(t) == 4 and t[0] == 'mio':
            mio[t[1]] = dict(x.split('=', 1) for x in t[2:])
    mexpect = {'M1': ('1', '[10]'), 'M2': ('0', '[]'), 'M3': ('1', '[10]'), 'M4': ('1', '[12]')}
    mbad = []
    for sit, (ev, pend) in mexpect.items():
        ctx.evaluations += 1
        r = mio.get(sit)
        if r is None:
            mbad.append('mio %s: no result (rc=%d)' % (sit, rc))
        elif sit != 'M2' and r['events'] == '0' and (only is None or sit in only):
            ctx.violation({'monitor': 'adapter-stranded', 'adapter': 'mio', 'situation': sit},
                          'mio adapter: a delivery after registration with the Poll produced no readable event within 2 s (the poller stays asleep)',
                          {'adapter': 'mio', 'situation': sit, 'row': r})
        elif (r['events'], r['pending']) != (ev, pend):
            mbad.append('mio %s: %s events, pending() gave %s; expected %s and %s' % (sit, r['events'], r['pending'], ev, pend))
        else:
            ctx.traces += 1
    ctx.correspondence('mio adapter: real mio::Poll with the instance as event source, 4 situations (wake after raise, none without, re-arm after drain, added signal)', not mbad, mbad)
    rows.update({('mio', k): v for k, v in mio.items()})
    ctx.coverage['async_adapter_probe'] = {'%s/%s' % k: v for k, v in rows.items()}


def replay(ctx, path):
    case = json.load(open(path))
    sc = case.get('case', {}).get('scenario')
    if case.get('case', {}).get('close_sweep'):
        return L.close_replay(ctx, case['case'], L.C11_KINDS)
    if case.get('case', {}).get('adapter'):
        return adapter_replay(ctx, case['case'])
    if case.get('case', {}).get('instr_sweep'):
        return L.instr_replay(ctx, case['case'], L.C11_HANDLER_KINDS)
    if case.get('case', {}).get('replay', '').endswith('p_closeafter'):
        print('run:', case['case']['replay'])
        import subprocess
        return subprocess.call(case['case']['replay'], shell=True, cwd=common.ROOT)
    if not sc:
        print('replay file names no concrete input:', json.dumps(case.get('broken'), indent=1)[:2000])
        return 1
    ctx.harness(['ls_iter'])
    s = L.from_json(sc)
    r = L.run_impl([s])[0]
    v = L.mon_c11(s, r)
    for l in r['trace']:
        if not (l[1] == 5 and l[5] == 0):
            print(L.pretty(l))
    for kind, idx, what in v:
        print('REPRODUCED:', what)
    return 1 if v else 0
