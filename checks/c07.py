"""C07 - cells are race-free under the declared orderings; values dropped exactly once (DESIGN 5.7)."""
import common
import ls_channel as L

COMPONENTS = ['channel']
DRIVERS = {'channel': L.DRIVER}

TB = ['Coq 8.16.1 kernel; vm_compute for the 326-word sweep and the skeleton lemmas',
      'translator/channel.py: the memory orderings of channel.rs (load Relaxed; enqueue CAS Release/Relaxed; dequeue CAS Acquire/Relaxed) and of '
      'the Slot in exfiltrator/raw.rs (swap Release, loads Acquire) are extracted as DATA that coq/channel/ModelRA.v reads; the unsafe impl bounds '
      '(T: Send) are extracted and required',
      'memory model of C07_race_free: promise-free view-based release/acquire + relaxed semantics (Kang et al. style; RMWs inherit the view of the '
      'message they read; relaxed loads / failed CASes read any message at or after the thread view). Assumption: RC11-style absence of '
      '(po U rf) cycles - exact here because every write to the queue words is an RMW; hardware/compiler conformance to the model is not proved',
      'memory model of C07_drop_once: SC interleaving (accounting is about values, not orderings)',
      'lock-step correspondence + payload type with a destructor counted per tag + happens-before race detector over the real traces using the '
      'orderings the operations report',
      'modelled, not verified: drop glue of the storage array drops every Some cell exactly once; Option::take; assignment drops the old value']
ASSUME = ['a frame spawned with the bottom view or with the view of an existing frame over-approximates every real thread/handler start '
          '(a lower view allows more stale reads and flags more races)',
          'Drop for Channel runs only when no operation is in flight (exclusive ownership)']


def run(ctx):
    ctx.trusted_base, ctx.assumptions = TB, ASSUME
    if not ctx.harness(['ls_channel', 'p_nested', 'sh_probe']):
        return
    ctx.translate(COMPONENTS)
    ctx.prove('props/C07.v')
    L.lockstep(ctx, [L.mon_c07])
    L.nested_sweep(ctx, ('drops', 'outcome', 'panic'))
    if ctx.tier == 'thorough':
        ctx.harness(['p_nested2'])
        L.nested2_sweep(ctx, ('drops', 'outcome', 'panic'))
    L.histories(ctx, 500 if ctx.tier == 'quick' else 5000)
    # model-side search: the only way to exhibit a weak-memory failure (runs always; finds nothing while the theorems hold)
    L.ra_search(ctx, 3000 if ctx.tier == 'quick' else 100000)
    ctx.coverage['rule_nested'] = ('instruction-level sweep (trap flag): send/recv interrupted after every instruction by a handler running '
                                   'send/recv to completion, fill 0-5; outcomes (returns, drained values, drop counts, panic, hang) against the '
                                   'outcomes of the SC model over all step boundaries')
    ctx.coverage['rule'] = ('same scenarios/schedules as C06; monitors on the real traces: payload constructed once and dropped exactly once '
                            '(per tag, before/after the channel is dropped), cells alternate write/take and a take returns what was written, '
                            'vector-clock race detection on the cell accesses with release/acquire edges only where the traced orderings give '
                            'them; 500 single-thread histories with drop accounting incl. values dropped with the channel; view-semantics '
                            'search: random schedules x read-from choices of the extracted model looking for RACE')


def replay(ctx, path):
    return L.replay_case(ctx, path, [L.mon_c07])
