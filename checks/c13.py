"""C13 - self-pipe wake: one non-blocking byte per delivery; descriptor owned and closed once (DESIGN 5.13).

Encoding shared with coq/pipe/Run.v (model) and harness/src/bin/p_c13.rs (implementation):
  history = channels + ops
    channel (probe): kind blocking prefill_mode prefill_n bufsize
        kind 0 pipe 1 stream 2 dgram 3 /dev/null 4 eventfd 5 regular file 6 invalid
        prefill_mode 0 none | 1 n one-byte units | 2 full | 3 n empty datagrams | 4 full of empty datagrams
    channel (model): kind' nonblock fcntl_ok other_full other_err cap npre pre...   (kind' 3 = other, 4 = invalid)
    ops: 1 generic sig ch [outcome: model only] | 5 sig n | 3 ch n | 4 id | 6 (reuse probe, implementation only)
"""
import json, random
import common
import registry_of_checks as R
from common import sh

COMPONENTS = ['pipe']
DRIVERS = {'pipe': (['run_c13', 'run_oracle'], ['pipe/Run.vo'])}

TB = ['Coq 8.16.1 kernel + vm_compute (facts read off the extracted data, examples, refutation witness); no native_compute',
      'translator/pipe.py (wake arms, register_raw probe kind (getsockopt SO_TYPE | zero-length send)/arms/order, set_flags, Drop, register conversion, wake_readers; cfg and constants resolved with values measured from /repo\'s libc)',
      'pipe/Model.v sys_result = OS ORACLE (write/send per descriptor kind, blocking iff write-or-send-without-MSG_DONTWAIT and O_NONBLOCK clear and queue not accepting), validated row by row against the running kernel on every run (p_c13 oracle)',
      'buffer accounting of the kernel = arbitrary function `accept` with the single hypothesis accept_empty (capacity >= 1); the correspondence instantiates it with capacities measured per channel',
      'the registry is abstract in this model (its answer ok/err/panic is part of the history; that a removed action is dropped exactly once after the grace period is C01); Arc ownership of the iterator write end is Rust std semantics, not modelled',
      'extraction (ExtrOcamlBasic only) + ocaml/main_template.ml; harness/src/bin/p_c13.rs forked probes']

FORBIDDEN = {9, 19, 4, 8, 11}
OKSIGS = [10, 12, 34, 35, 36]
BADSIGS = [9, 19, 0, 100, -1, 65, 4]
QUEUE_KINDS = (0, 1, 2)
REUSE_SIGS = [10, 12, 34, 35, 36]   # op 6 of the probe delivers each of these REUSE_N times
REUSE_N = 3


def predicted_outcome(sig):
    if sig in FORBIDDEN:
        return 2
    if sig <= 0 or sig > 64 or sig in (32, 33):
        return 1
    return 0


def model_kind(k):
    return k if k <= 2 else (4 if k == 6 else 3)


# ---------------------------------------------------------------------------------------------
def fixed_histories():
    """corner cases that every run contains (non-vacuity of each monitor)"""
    H = []
    # blocking pipe, completely full, long burst, then full drain, burst, unregister, burst
    H.append(([(0, 1, 2, 0, 4096)], [(1, 0, 10, 0), (5, 10, 300), (3, 0, 0), (5, 10, 3), (4, 0), (5, 10, 2), (4, 0), (6,)]))
    # stream and dgram sockets (blocking, full), generic register
    H.append(([(1, 1, 2, 0, 0), (2, 1, 2, 0, 0)], [(1, 1, 10, 0), (1, 1, 10, 1), (5, 10, 50), (3, 0, 0), (3, 1, 0), (5, 10, 4), (4, 1), (5, 10, 2), (4, 0), (6,)]))
    # regression input of the repaired defect (fix 96b2274): tiny socket buffer and more registrations than
    # messages fit; when register_raw probed with a zero-length send, the empty probe datagrams filled the queue
    # and the reader saw no byte
    H.append(([(2, 1, 0, 0, 1)], [(1, 0, 10, 0), (1, 1, 12, 0), (1, 0, 34, 0), (1, 0, 35, 0), (1, 0, 36, 0), (1, 0, 37, 0), (1, 0, 38, 0),
                                 (5, 10, 3), (3, 0, 0), (5, 10, 2), (6,)]))
    # rejected registrations of every sort, then the reuse probe
    H.append(([(0, 1, 0, 0, 4096), (1, 0, 1, 3, 0), (6, 1, 0, 0, 0), (4, 1, 0, 0, 0)],
              [(1, 0, 9, 0), (1, 1, 100, 1), (1, 0, 0, 1), (1, 1, 19, 0), (1, 0, 10, 2), (1, 1, 10, 7), (1, 0, 10, 0), (1, 0, 10, 3), (5, 10, 5),
               (4, 0), (4, 6), (4, 6), (4, 99), (5, 10, 2), (6,)]))
    # several registrations share ONE open file description (dups of one blocking pipe, the documented way to use a
    # pipe for several signals): removing the older / the younger one must leave the description non-blocking for
    # the other; the pipe is full, so a delivery that found it blocking would never return
    H.append(([(0, 1, 2, 0, 4096)], [(1, 0, 10, 0), (1, 0, 12, 0), (4, 0), (5, 12, 5), (5, 10, 2), (3, 0, 0), (5, 12, 3), (4, 1), (6,)]))
    H.append(([(0, 1, 2, 0, 4096)], [(1, 1, 10, 0), (1, 0, 12, 0), (1, 1, 34, 0), (4, 2), (5, 10, 4), (4, 1), (5, 10, 4), (3, 0, 0), (5, 10, 3), (6,)]))
    # other kinds: /dev/null, eventfd (write of one byte is EINVAL), regular file
    H.append(([(3, 1, 0, 0, 0), (4, 1, 0, 0, 0), (5, 1, 0, 0, 0)], [(1, 0, 10, 0), (1, 1, 10, 1), (1, 0, 12, 2), (5, 10, 20), (5, 12, 7), (4, 2), (5, 12, 3), (6,)]))
    return H


def many_registrations_history():
    """the same with the default socket buffer: more registrations (on dups of one datagram socket) than the
    278 messages it takes, then deliveries of a signal with a single registration"""
    ops = [(1, 0, 10, 0)] + [(1, k % 2, (12, 34, 35, 36)[k % 4], 0) for k in range(290)] + [(5, 10, 3), (3, 0, 0), (5, 10, 2), (6,)]
    return ([(2, 1, 0, 0, 0)], ops)


def gen_history(rnd, thorough):
    nchan = rnd.randint(1, 3)
    chans = []
    for _ in range(nchan):
        kind = rnd.choice([0, 0, 0, 1, 1, 2, 2, 2, 3, 4, 5, 6])
        blocking = rnd.choice([0, 1, 1])
        if kind == 0:
            mode = rnd.choice([0, 1, 2, 2])
            buf = 4096 if not (thorough and rnd.random() < 0.1) else 0
        elif kind == 1:
            mode = rnd.choice([0, 1, 2, 2])
            buf = rnd.choice([0, 1])
        elif kind == 2:
            mode = rnd.choice([0, 1, 2, 3, 4, 4])
            buf = rnd.choice([0, 1, 1])
        else:
            mode, buf = 0, 0
        chans.append((kind, blocking, mode, rnd.randint(1, 5), buf))
    ops, nreg = [], 0
    for _ in range(rnd.randint(6, 22 if not thorough else 40)):
        x = rnd.random()
        if x < 0.3 or nreg == 0:
            sig = rnd.choice(OKSIGS) if rnd.random() < 0.8 else rnd.choice(BADSIGS)
            ch = rnd.randrange(nchan) if rnd.random() < 0.93 else nchan + rnd.randint(0, 2)
            ops.append((1, rnd.choice([0, 1]), sig, ch))
            nreg += 1
        elif x < 0.65:
            n = rnd.choice([1, 1, 2, 3, 7, 300, 1000] + ([5000] if thorough else []))
            ops.append((5, rnd.choice(OKSIGS[:3]), n))
        elif x < 0.85:
            ch = rnd.randrange(nchan)
            # pipes are page granular: the capacity model is exact only between complete drains
            n = 0 if chans[ch][0] == 0 or rnd.random() < 0.5 else rnd.randint(1, 8)
            ops.append((3, ch, n))
        else:
            ops.append((4, rnd.randrange(nreg + 1)))
    ops.append((6,))
    return chans, ops


FORCE_STALE = [None]


def stale_errno(hid):
    if FORCE_STALE[0] is not None:
        return FORCE_STALE[0]
    """every second history delivers with a stale EINTR / EAGAIN in the interrupted code's errno (probe op 7
    instead of 5): the model and the monitors do not distinguish the two"""
    try:
        return int(str(hid).lstrip('hH') or 0) % 2 == 1
    except ValueError:
        return False


def probe_line(hid, chans, ops):
    v = [len(chans)]
    for c in chans:
        v += list(c)
    st = stale_errno(hid)
    for o in ops:
        v += [7] + list(o[1:]) if (st and o[0] == 5) else list(o)
    return '%s %s' % (hid, ' '.join(str(x) for x in v))


def model_line(chans, caps, ops):
    """caps: per channel (cap, npre, prelen) measured by the probe"""
    v = [len(chans)]
    for c, (cap, npre, prelen) in zip(chans, caps):
        kind, blocking = c[0], c[1]
        v += [model_kind(kind), 0 if kind == 6 else 1 - blocking, 1, 0, 1 if kind == 4 else 0, cap, npre] + [prelen] * npre
    for o in ops:
        if o[0] == 1:
            v += [1, o[1], o[2], o[3], predicted_outcome(o[2])]
        elif o[0] == 6:
            for sg in REUSE_SIGS:
                v += [5, sg, REUSE_N]
        else:
            v += list(o)
    return 'run_c13 ' + ' '.join(str(x) for x in v)


def parse_model(out, ops, nchan):
    v = [int(x) for x in out.split()]
    recs, p = [], 0
    for o in ops:
        if o[0] == 6:
            p += 6 * len(REUSE_SIGS)
            continue
        n = {1: 6, 5: 6, 3: 4, 4: 3}[o[0]]
        recs.append(v[p:p + n])
        p += n
    tr = []
    for _ in range(nchan):
        tr.append(v[p:p + 6])
        p += 6
    return recs, tr, p == len(v)


def parse_probe(lines):
    """lines of one history (without the hid prefix)"""
    caps, recs, tr, end, reuse = {}, [], {}, None, None
    for l in lines:
        t = l.split()
        if t[0] == 'C':
            caps[int(t[1])] = (int(t[2]), int(t[3]), int(t[4]))
        elif t[0] == 'E':
            end = ' '.join(t[1:])
        elif t[0] == '9':
            tr[int(t[1])] = [int(x) for x in t[2:]]
        elif t[0] == '6':
            reuse = [int(x) for x in t[1:]]
        else:
            recs.append([int(x) for x in t])
    return caps, recs, tr, end, reuse


# ---------------------------------------------------------------------------------------------
def monitor(ctx, hid, chans, ops, recs, tr, end, reuse, bound_ms):
    """the property evaluated directly on what the implementation did"""
    case = {'history': probe_line(hid, chans, ops), 'replay': './check C13 --replay <this file>'}

    def viol(key, what):
        # one report per key: the shortest history that shows it
        k = json.dumps(dict(key), sort_keys=True)
        pend = ctx.__dict__.setdefault('c13_pending', {})
        if k not in pend or len(case['history']) < len(pend[k][1]['history']):
            pend[k] = (what, dict(case, key=dict(key)))

    if end != 'exit:0':
        viol({'monitor': 'blocked-or-died', 'end': end, 'kinds': [c[0] for c in chans]},
             'history did not run to its end (%s): a delivery blocked or the process died' % end)
        return
    nchan = len(chans)
    att = [0] * nchan      # write attempts of deliveries since the reader last emptied the channel
    xread = [0] * nchan    # X bytes read since then
    bread = [0] * nchan    # bytes read since then
    total_att = [0] * nchan
    regs = []              # (sig, ch, active)
    i = 0
    for o in ops:
        if o[0] == 6:
            for sg in REUSE_SIGS:
                for (s_, ch, a) in regs:
                    if a and s_ == sg and ch < nchan:
                        att[ch] += REUSE_N
                        total_att[ch] += REUSE_N
            continue
        r = recs[i]
        i += 1
        if o[0] == 1:
            _, g, sig, ch = o
            outcome, is_open, nb = r[1], r[2], r[3]
            kind = chans[ch][0] if ch < nchan else 6
            exp = predicted_outcome_for(o, chans)
            if outcome != exp:
                viol({'monitor': 'register-outcome', 'sig': sig, 'kind': kind}, 'register(sig=%d) on kind %d ended %d, expected %d' % (sig, kind, outcome, exp))
            if outcome == 0 and not is_open:
                viol({'monitor': 'closed-early', 'kind': kind}, 'descriptor closed although the registration succeeded')
            if outcome != 0 and is_open:
                viol({'monitor': 'leak-on-rejection', 'sig': sig, 'kind': kind, 'outcome': outcome}, 'descriptor still open after a rejected registration')
            if outcome == 0 and kind in (0, 3, 4, 5) and not nb:
                viol({'monitor': 'write-end-left-blocking', 'kind': kind}, 'O_NONBLOCK not set on a descriptor that is written with write(2)')
            regs.append([sig, ch, outcome == 0])
        elif o[0] == 5:
            _, sig, n = o
            if r[2] > bound_ms:
                viol({'monitor': 'slow-burst', 'n': n}, '%d deliveries took %d ms' % (n, r[2]))
            for (s, ch, a) in regs:
                if a and s == sig and ch < nchan:
                    att[ch] += n
                    total_att[ch] += n
        elif o[0] == 3:
            _, ch, n = o
            u, b, x = r[1], r[2], r[3]
            if ch < nchan and chans[ch][0] in QUEUE_KINDS:
                check_read(viol, chans, ch, att, xread, bread, u, b, x, emptied=(n == 0 or u < n))
        elif o[0] == 4:
            _, id_ = o
            removed, is_open = r[1], r[2]
            if id_ < len(regs):
                was = regs[id_][2]
                if bool(removed) != bool(was):
                    viol({'monitor': 'unregister-result'}, 'unregister returned %d for a registration that was %s' % (removed, 'active' if was else 'not active'))
                if is_open:
                    viol({'monitor': 'not-closed-on-removal', 'kind': chans[regs[id_][1]][0] if regs[id_][1] < nchan else 6},
                         'descriptor still open after its action was removed / rejected')
                regs[id_][2] = False
    for ch in range(nchan):
        u, b, x, nb, size = tr[ch]
        if chans[ch][0] in QUEUE_KINDS:
            check_read(viol, chans, ch, att, xread, bread, u, b, x, emptied=True)
        if chans[ch][0] == 5 and size != total_att[ch]:
            viol({'monitor': 'file-bytes'}, 'regular file grew by %d bytes for %d deliveries' % (size, total_att[ch]))
    if reuse is not None:
        nre, foreign, all_open = reuse
        if foreign:
            viol({'monitor': 'write-after-close'}, '%d bytes arrived in descriptors that re-use the numbers of closed ones' % foreign)
        if not all_open:
            viol({'monitor': 'closed-twice'}, 'a descriptor re-using the number of a closed one got closed by later deliveries')


def check_read(viol, chans, ch, att, xread, bread, u, b, x, emptied):
    kind = chans[ch][0]
    xread[ch] += x
    bread[ch] += b
    if xread[ch] > att[ch]:
        viol({'monitor': 'more-bytes-than-deliveries', 'kind': kind}, 'reader saw %d wake bytes for %d deliveries since the last complete drain' % (xread[ch], att[ch]))
    if emptied:
        if att[ch] >= 1 and bread[ch] < 1:
            if kind == 2 and chans[ch][2] in (3, 4):
                # the test itself queued empty datagrams before registering: no implementation could add a
                # byte to that queue; covered by the `only_empty_datagrams` disjunct of the partial theorem
                pass
            elif kind == 2:
                viol({'kind': 'dgram', 'corner': 'queue-holds-only-empty-probe-datagrams'},
                     'datagram socket: %d deliveries since the last complete drain, the reader drained the socket and saw 0 bytes '
                     '(only empty datagrams, which nobody but register_raw put there; the wake byte was refused with EAGAIN)' % att[ch])
            else:
                viol({'monitor': 'no-byte-after-delivery', 'kind': kind}, '%d deliveries since the last complete drain but the reader saw no byte' % att[ch])
        att[ch] = xread[ch] = bread[ch] = 0


# ---------------------------------------------------------------------------------------------
def oracle_correspondence(ctx):
    rc, out, _ = sh([common.bin_path('p_c13'), 'oracle'], timeout=120)
    rows = [l.split()[1:] for l in out.split('\n') if l.startswith('O ')]
    if rc != 0 or len(rows) < 60 or not any(r[3] == '2' for r in rows):
        ctx.correspondence('kernel oracle probes ran', False, out[-800:])
        return
    req = []
    for r in rows:
        kind, full, oe, sys_, ln, fl, nb = [int(x) for x in r[:7]]
        req.append('run_oracle %d %d %d %d %d %d %d' % (model_kind(kind), nb, full, oe, sys_, ln, fl))
    res = common.run_driver('pipe', req)
    bad = []
    consts = common.measured_consts()
    for r, m in zip(rows, res):
        ctx.evaluations += 1
        if int(r[3]) == 2:
            # getsockopt(SO_TYPE): sockets 0, everything else ENOTSOCK, an invalid descriptor EBADF
            kind = int(r[0])
            want = 0 if kind in (1, 2) else (consts['EBADF'] if kind == 6 else consts['ENOTSOCK'])
            if int(r[8]) != want:
                bad.append({'getsockopt row': ' '.join(r), 'expected errno': want})
        if int(r[7]) != int(m.split()[0]):
            bad.append({'row(kind full other_err sys len flags nonblock code errno)': ' '.join(r), 'model': m})
    ctx.correspondence('Model.sys_result (OS oracle: write/send result per kind x fill x O_NONBLOCK x MSG_DONTWAIT incl. BLOCKS, getsockopt(SO_TYPE) per kind) = running kernel', not bad, bad[:8])
    ctx.samples.append({'oracle_rows': len(rows), 'example': ' '.join(rows[10])})


def run_histories(ctx, hs, have_model, bound_ms=2000):
    lines = [probe_line('h%d' % i, c, o) for i, (c, o) in enumerate(hs)]
    rc, out, _ = sh([common.bin_path('p_c13'), 'run'], input=('\n'.join(lines) + '\n').encode(), timeout=3000)
    per = {}
    for l in out.split('\n'):
        t = l.split(' ', 1)
        if len(t) == 2 and t[0].startswith('h'):
            per.setdefault(t[0], []).append(t[1])
    if rc != 0 or len(per) != len(hs):
        ctx.correspondence('history probes ran', False, out[-800:])
        return
    parsed, req = [], []
    for i, (chans, ops) in enumerate(hs):
        caps, recs, tr, end, reuse = parse_probe(per['h%d' % i])
        parsed.append((caps, recs, tr, end, reuse))
        if have_model and len(caps) == len(chans):
            req.append(model_line(chans, [caps[k] for k in range(len(chans))], ops))
        else:
            req.append('run_c13')
    res = common.run_driver('pipe', req, timeout=3000) if have_model else []
    bad, model_blocked = [], []
    for i, (chans, ops) in enumerate(hs):
        caps, recs, tr, end, reuse = parsed[i]
        hid = 'h%d' % i
        nops = len([o for o in ops if o[0] != 6])
        complete = end == 'exit:0' and len(recs) == nops and len(tr) == len(chans)
        if complete:
            monitor(ctx, hid, chans, ops, recs, tr, end, reuse, bound_ms)
        else:
            monitor(ctx, hid, chans, ops, recs, tr, end or 'no-end-line', reuse, bound_ms)
        ctx.traces += 1
        for c in chans:
            ctx.distinct.add(('chan',) + tuple(c[:3]) + (c[4],))
        if not have_model:
            continue
        mrecs, mtr, okparse = parse_model(res[i], ops, len(chans))
        if i in (0, 2, 3) and len(ctx.samples) < 8:
            ctx.samples.append({'history': lines[i], 'impl_records': recs[:12], 'impl_trailer': tr, 'model_records': mrecs[:12], 'model_trailer': mtr})
        if not okparse or not complete:
            bad.append({'history': lines[i], 'why': 'incomplete', 'end': end, 'model': res[i][:200]})
            continue
        k = 0
        for o in ops:
            if o[0] == 6:
                continue
            r, m = recs[k], mrecs[k]
            k += 1
            ctx.evaluations += 1
            if o[0] == 1:
                same = (r[1] == 0) == (m[1] == 1) and r[1] == predicted_outcome_for(o, chans) and r[2] == m[2] and r[3] == m[3]
                ctx.distinct.add(('reg', chans[o[3]][0] if o[3] < len(chans) else 6, r[1], m[4], m[5]))
            elif o[0] == 5:
                same = True
                if m[4] != 0:
                    model_blocked.append(lines[i])
                ctx.distinct.add(('burst', m[2] > 0, m[3] > 0, m[5] > 0))
            elif o[0] == 3:
                same = r[1:4] == m[1:4]
            else:
                same = r[1] == m[1] and r[2] == m[2]
            if not same:
                bad.append({'history': lines[i], 'op': list(o), 'impl': r, 'model': m})
                break
        else:
            for ch in range(len(chans)):
                if tr[ch][:4] != mtr[ch][1:5]:
                    bad.append({'history': lines[i], 'trailer_channel': ch, 'impl(units bytes xbytes nonblock)': tr[ch][:4], 'model': mtr[ch][1:5]})
                    break
    for k, (what, case) in sorted(ctx.__dict__.get('c13_pending', {}).items()):
        ctx.violation(json.loads(k), what, case)
    ctx.__dict__['c13_pending'] = {}
    if have_model:
        ctx.correspondence('extracted model run_c13 = signal_hook::low_level::pipe on %d histories (outcomes, O_NONBLOCK, descriptor validity, units/bytes/wake bytes read back)' % len(hs), not bad, bad[:3])
        ctx.correspondence('extracted model never takes the BLOCKS branch on these histories', not model_blocked, model_blocked[:3])
    return parsed


def predicted_outcome_for(o, chans):
    """an invalid descriptor fails in set_flags (error) before the registry sees the signal"""
    kind = chans[o[3]][0] if o[3] < len(chans) else 6
    return 1 if kind == 6 else predicted_outcome(o[2])


def histories(ctx):
    rnd = random.Random(ctx.seed * 7919 + 13)
    thorough = ctx.tier == 'thorough'
    hs = fixed_histories()
    hs.append(many_registrations_history())
    # every queue kind x {empty, full} x {blocking, non-blocking} with a burst longer than the capacity
    for kind in (0, 1, 2):
        for mode in (0, 2) + ((4,) if kind == 2 else ()):
            for blocking in (0, 1):
                buf = 4096 if kind == 0 else (1 if blocking else 0)
                n = 5000 if not thorough else 20000
                hs.append(([(kind, blocking, mode, 0, buf)], [(1, blocking, 10, 0), (5, 10, n), (3, 0, 0), (5, 10, 2), (4, 0), (5, 10, 1), (6,)]))
    for _ in range(150 if not thorough else 700):
        hs.append(gen_history(rnd, thorough))
    return hs


def close_counts(ctx, only=None):
    """Count the close() calls the library makes on a handed-over descriptor (the probe binary interposes
    `close`): exactly one once the action is removed or the registration is refused, none while registered -
    also when the reader has gone away and deliveries keep failing with EPIPE.
    only = predicate on the case name (C01 looks at the cases with deliveries only)."""
    rc, out, _ = common.sh([common.bin_path('p_closecount')], timeout=120)
    rows = [l.split() for l in out.split('\n') if len(l.split()) == 4]
    ctx.correspondence('close-count probe ran (p_closecount)', rc == 0 and len(rows) >= 24, out[-400:] if rc else None)
    for name, got, want, shape in rows:
        if only is not None and not only(name):
            continue
        ctx.evaluations += 1
        ctx.distinct.add(('close-count', name))
        if name.endswith('_still_open') and got != want:
            ctx.violation({'close_count': name}, 'case %s: the descriptor of a STILL REGISTERED self-pipe action is no longer open after two deliveries whose writes failed '
                          '(reader gone): it was released inside a signal handler, not by the thread that removes the action' % name,
                          {'case': name, 'probe_output': out, 'replay': 'harness/target/debug/p_closecount'})
        elif got != want:
            ctx.violation({'close_count': name}, 'descriptor handed over in case %s was closed %s time(s) by the library, expected %s '
                          '(closed exactly once - when the action is removed or the registration is rejected)' % (name, got, want),
                          {'case': name, 'probe_output': out, 'replay': 'harness/target/debug/p_closecount'})
        if shape != '1':
            ctx.violation({'close_count_shape': name}, 'case %s did not take the expected accept/refuse path' % name, {'probe_output': out})
    ctx.coverage['close_count_cases'] = len(rows)


def run(ctx, only=None):
    ctx.trusted_base = TB
    ctx.assumptions = ['an empty pipe / socket accepts one unit (capacity >= 1): hypothesis accept_empty of the theorems',
                       'the kernel honours O_NONBLOCK and MSG_DONTWAIT as in Model.sys_result (probed on every run, not proved)',
                       'world_in_bytes: datagrams that somebody else queued before the descriptor was handed over carry at least one byte (a queue the environment filled with empty datagrams takes no byte from anybody)',
                       'nobody else clears O_NONBLOCK on the open file description or writes wake-like bytes into it',
                       'each registration is handed a descriptor of its own (dup/try_clone for several signals), as the API documents',
                       'panic = unwind (a forbidden signal drops the closure during unwinding)']
    ctx.level = 'proof'
    if not ctx.harness(['p_c13', 'p_closecount']):
        return
    ctx.translate(COMPONENTS)
    ctx.prove('props/C13.v')
    have_model = ctx.driver('pipe', *R.all_drivers()['pipe'])
    if have_model and only is None:
        oracle_correspondence(ctx)
    hs = only or histories(ctx)
    run_histories(ctx, hs, have_model)
    if only is None:
        close_counts(ctx)
    ctx.coverage['rule'] = ('histories = 5 fixed corner histories + 1 history with 291 registrations on one datagram socket + every queue kind x {empty, full[, full of empty datagrams]} x {blocking, O_NONBLOCK} with a burst '
                            'longer than the capacity + %d random histories from VERIF_SEED (1-3 channels of 7 descriptor kinds, register/register_raw incl. forbidden, invalid '
                            'signals and invalid descriptors, bursts up to %d deliveries, partial and complete drains, stale unregisters, descriptor-number reuse probe); '
                            'each runs on the real crate in a forked child and on the extracted model with the measured capacities; distinct_nontrivial = distinct '
                            '(channel configuration) and (kind, outcome, method, probe result) combinations seen' % ((150, 5000) if ctx.tier == 'quick' else (700, 20000)))
    ctx.coverage['exhaustive'] = False
    ctx.coverage['regression'] = ('fixed history 2 and the 291-registration history are the inputs of the defect repaired by 96b2274 (register_raw probing with a '
                                  'zero-length send filled a datagram socket with empty datagrams); Theorems.empty_send_probe_witness keeps the model-side witness for the old probe shape')
    ctx.distinct = set(json.dumps(d) for d in ctx.distinct)


def replay(ctx, path):
    case = json.load(open(path))
    line = case.get('case', {}).get('history')
    if not line:
        print('replay file names no concrete input:', json.dumps(case.get('broken'), indent=1))
        return 1
    v = [int(x) for x in line.split()[1:]]
    n = v[0]
    chans = [tuple(v[1 + 5 * i:6 + 5 * i]) for i in range(n)]
    p, ops = 1 + 5 * n, []
    while p < len(v):
        ln = {1: 4, 5: 3, 7: 3, 3: 3, 4: 2, 6: 1}[v[p]]
        if v[p] == 7:
            FORCE_STALE[0] = True
            ops.append((5,) + tuple(v[p + 1:p + ln]))
        else:
            ops.append(tuple(v[p:p + ln]))
        p += ln
    if FORCE_STALE[0] is None:
        FORCE_STALE[0] = False
    run(ctx, only=[(chans, ops)])
    for x in ctx.violations:
        print('REPRODUCED:', x['what'])
    return 1 if ctx.violations else 0
