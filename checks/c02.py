"""C02 - each delivery runs exactly one consistent snapshot, in order (DESIGN 5.2)."""
import json
import common
import ls_registry as L
from c01 import COMPONENTS, DRIVERS, TB, ASSUME


def run(ctx):
    ctx.trusted_base, ctx.assumptions = TB, ASSUME + ['BTreeMap iterates in key order (modelled as a list kept sorted by insert_act)']
    if not ctx.harness(['ls_registry', 'sh_probe']):
        return
    ctx.translate(COMPONENTS)
    ctx.prove('props/C02.v')
    L.lockstep(ctx, [L.mon_c02])
    L.reg_sweep(ctx, L.REG_KINDS['C02'])
    # "each action runs exactly once" as the users of the iterators see it: the one action an instance owns per signal must
    # stay one when two handle clones add the signal at the same time (one record, one wake-up per delivery)
    import c12
    if ctx.harness(['ls_addsig']):
        c12.concurrent_add(ctx, 'records')
    ctx.coverage['rule'] = ('lock-step scenarios with 1-3 actions per signal, concurrent register/unregister/unregister_signal on one or two signals; '
                            'monitor: the tags a delivery ran, in order, must equal the action list of some registry state current between its begin and end '
                            '(reference states computed from the publish events of the real trace)')


def replay(ctx, path):
    case = json.load(open(path))
    sc = case.get('case', {}).get('scenario')
    if case.get('case', {}).get('reg_sweep'):
        return L.reg_replay(ctx, case['case'], L.REG_KINDS['C02'])
    if not sc:
        print(json.dumps(case, indent=1)[:3000])
        return 1
    ctx.harness(['ls_registry'])
    s = L.from_json(sc)
    r = L.run_impl([s])[0]
    v = L.mon_c02(s, r)
    for l in r['trace']:
        print(L.pretty(l))
    for kind, idx, what in v:
        print('REPRODUCED:', what)
    return 1 if v else 0
