"""C03 - dispatch is async-signal-safe (DESIGN 5.3)."""
import json
import common
import ls_registry as L
from c01 import COMPONENTS, DRIVERS, TB, ASSUME

SAFE_KINDS = {0, 1, 3, 4, 5, 13, 14, 15}   # load store fetch_add fetch_sub cas cell-write cell-take syscall(wake)


def builtin_probe(ctx):
    """one real dispatch with every built-in action registered, allocator + shim observed"""
    rc, out, _ = common.sh([common.bin_path('p_c03'), '8' if ctx.tier == 'quick' else '64'], timeout=120)
    vals = {}
    for l in out.split('\n'):
        p = l.split()
        if len(p) >= 2:
            vals[p[0]] = p[1:]
    if 'hang' in vals:
        ctx.violation({'probe': 'builtin', 'hang': True}, 'a real delivery with every built-in action registered and completely full self-pipes did not return within 15 s - 8 observed deliveries, then 1500 that nobody drains (%s)' % ' '.join(vals['hang']),
                      {'probe_output': out, 'replay': 'harness/target/debug/p_c03 8'})
        return
    if rc != 0 or 'ops' not in vals:
        ctx.correspondence('built-in actions probe ran', False, out[-800:])
        return
    ctx.evaluations += int(vals['ops'][0])
    kinds = int(vals['kinds'][0])
    seen = {b for b in range(32) if kinds >> b & 1}
    bad = seen - SAFE_KINDS
    if bad:
        ctx.violation({'probe': 'builtin', 'ops': sorted(bad)}, 'a delivery with the built-in actions performed operation kinds %s (6 lock, 7 unlock, 8 yield, 9 spin, 10 alloc, 11 free)' % sorted(bad),
                      {'probe_output': out})
    if int(vals['allocs'][0]) or int(vals['allocs'][2]):
        ctx.violation({'probe': 'builtin', 'heap': True}, 'heap traffic inside a real delivery with the built-in actions: ' + ' '.join(vals['allocs']), {'probe_output': out})
    n = 8 if ctx.tier == 'quick' else 64
    per = int(vals['ops'][0]) / n
    if per > 40:
        ctx.violation({'probe': 'builtin', 'steps': True}, 'a delivery with 8 built-in actions took %.1f shim operations on average' % per, {'probe_output': out})
    if int(vals['elapsed_us'][0]) > 2_000_000:
        ctx.violation({'probe': 'builtin', 'slow': True}, 'deliveries with full self-pipes took %s us (blocking?)' % vals['elapsed_us'][0], {'probe_output': out})
    if 'burst_elapsed_us' not in vals or int(vals['burst_elapsed_us'][0]) > 3_000_000:
        ctx.violation({'probe': 'builtin', 'burst': True}, '1500 undrained deliveries (iterator self-pipes full) took %s us' % vals.get('burst_elapsed_us', ['?'])[0], {'probe_output': out})
    ctx.coverage['builtin_actions_probe'] = {k: ' '.join(v) for k, v in vals.items()}


def run(ctx):
    ctx.trusted_base = TB + ['harness allocator wrapper (sched::CountingAlloc) with a thread-local inside-delivery flag: OBSERVES the real allocator during '
                             'every simulated delivery; built-in actions probe p_c03 (flag, usize, conditional shutdown/default, wake on full socket and full pipe, '
                             'SignalOnly and WithRawSiginfo iterators)']
    ctx.assumptions = ASSUME + ['built-in action bodies are single steps in this model; their own step bounds are C13 (wake never blocks), C08 (channel send), C15 (flags)',
                                'fewer activities than MAX_GUARDS = isize::MAX (explicit hypothesis of C03_bounded_solo)']
    if not ctx.harness(['ls_registry', 'p_c03', 'sh_probe']):
        return
    ctx.translate(COMPONENTS)
    ctx.prove('props/C03.v')
    L.lockstep(ctx, [L.mon_c03])
    L.reg_sweep(ctx, L.REG_KINDS['C03'])
    builtin_probe(ctx)
    # the iterator's info-carrying built-in action sends through the channel inside the handler: the
    # bound of a delivery composes with C08 (send completes in a bounded number of its own steps with
    # every other channel operation paused anywhere) - its cone and its step monitors are part of C03
    import ls_channel as LC
    ctx.harness(['ls_channel', 'p_nested'])
    if ctx.translate(['channel']):
        ctx.prove_dep('props/C08.v', 'a delivery runs Channel::send (WithRawSiginfo / WithOrigin exfiltration)')
    LC.lockstep(ctx, [LC.mon_c08])
    LC.nested_sweep(ctx, ('panic', 'hang'))
    # the iterators' action (store + wake_readers) runs inside the handler as well: its complete call list is part of C03's tie
    if ctx.translate(['iter']):
        ctx.prove_dep('iter/Calls.v', 'the iterator action is a built-in action of a delivery')
    # ... with C13: the self-pipe wake-up runs inside the handler; "never waits" rests on C13's non-blocking write /
    # send in every history of registrations on shared descriptions, full queues, removals
    import c13
    if ctx.harness(['p_c13']):
        if ctx.translate(c13.COMPONENTS):
            ctx.prove_dep('props/C13.v', 'the self-pipe wake-up is a built-in action of a delivery')
        c13.run_histories(ctx, c13.fixed_histories(), False)
    # ... and with C15: the flag / conditional-shutdown actions run inside the handler too; ending the process
    # there must go through _exit (no exit hooks, no locks, no waiting)
    import c15
    if ctx.harness(['p_c15']):
        if ctx.translate(c15.COMPONENTS):
            ctx.prove_dep('props/C15.v', 'the conditional-shutdown / flag actions are built-in actions of a delivery')
        c15.shutdown_probe(ctx)
    # the iterator's action while its instance is being torn down: the object gone, the last Handle dropped with a delivery at
    # every instruction boundary of that drop (D), or dropped by another thread at every instruction boundary of the running
    # handler (G) - the action neither allocates nor releases heap memory inside the handler
    import ls_iter
    if ctx.harness(['p_nested_iter']):
        ls_iter.instr_sweep(ctx, ('ALLOC', 'RELEASE', 'CRASH', 'BLOCKED'), configs=[('o', 'D', '-'), ('r', 'D', '-'), ('o', 'G', '-'), ('r', 'G', '-')], key='instruction_sweep_drop_of_last_handle')
    ctx.coverage['rule'] = ('lock-step scenarios as C01 (a delivery arriving at every boundary of register/unregister/unregister_signal and of other deliveries); '
                            'monitors: operation kinds of delivery activities, no failed/blocked step, step count <= 10 + #actions, '
                            'allocator wrapper = 0 allocations/releases inside deliveries; plus one real dispatch with all built-in actions on full pipes')


def replay(ctx, path):
    case = json.load(open(path))
    sc = case.get('case', {}).get('scenario')
    if case.get('case', {}).get('reg_sweep'):
        return L.reg_replay(ctx, case['case'], L.REG_KINDS['C03'])
    if case.get('case', {}).get('instr_sweep'):
        import ls_iter
        return ls_iter.instr_replay(ctx, case['case'], ('ALLOC', 'RELEASE', 'CRASH', 'BLOCKED'))
    if case.get('case', {}).get('history'):
        import c13
        return c13.replay(ctx, path)
    if case.get('case', {}).get('c15_script'):
        import c15
        ctx.harness(['p_c15'])
        ops = [tuple(o) for o in case['case']['c15_script']]
        rc, impl, raw = c15.run_impl([('replay', ops)])
        ex = c15.expected(c15.NB, c15.NU, c15.strip_env(ops))
        print('script', ops); print('implementation', impl.get(0)); print('expected      ', ex)
        if impl.get(0) != ex:
            print('REPRODUCED:', c15.clause_of(c15.NB, c15.NU, c15.strip_env(ops), impl.get(0), ex))
            return 1
        return 0
    if case.get('case', {}).get('nested') or (sc and sc.get('system') == 'channel'):
        import ls_channel as LC
        return LC.replay_case(ctx, path, [LC.mon_c08])
    if not sc:
        print(json.dumps(case, indent=1)[:3000])
        return 1
    ctx.harness(['ls_registry'])
    s = L.from_json(sc)
    r = L.run_impl([s])[0]
    v = L.mon_c03(s, r)
    for l in r['trace']:
        print(L.pretty(l))
    for kind, idx, what in v:
        print('REPRODUCED:', what)
    return 1 if v else 0
