"""C15 - flags and conditional shutdown do exactly what the flag state dictates (DESIGN 5.15).

Three sides are compared on the same generated scripts (encoding: coq/flag/Run.v):
  impl   harness/src/bin/p_c15.rs  - the real crates, one forked child per script
  model  extracted coq/flag/Run.v  - the Gallina model the theorems of props/C15.v are about
  prop   expected() below          - the property's own statements, evaluated directly
impl vs model = correspondence;  impl vs prop = the property monitor (ctx.violation).
"""
import hashlib, json, random
import common
import registry_of_checks as R
from common import sh, bin_path

COMPONENTS = ['flag', 'details']
DRIVERS = {'flag': (['run_c15'], ['flag/Run.vo'])}

TB = ['Coq 8.16.1 kernel (all C15 theorems Closed under the global context); vm_compute only in Examples',
      'translator/flag.py (closure bodies of the four flag.rs functions; libc function behind low_level::exit; ActionId assignment, container and dispatcher order of the registry)',
      'translator/details.py + details/Model.v + details/Kernel.v (C16 model, used for register_conditional_default)',
      'flag/Model.v execution of the descriptors: _exit ends the process at once with wait status = low 8 bits and runs no exit hooks; SeqCst atomics = one sequentially consistent map (all extracted orderings are SeqCst: C15_sc_premise) - modelled, validated by the forked probes',
      'extraction (ExtrOcamlBasic only) + ocaml/main_template.ml; harness/src/bin/p_c15.rs + harness/src/forked.rs']
ASSUME = ['deliveries are handler invocations for signals that have been registered with the registry (its handler is installed)',
          'the disposition before the first registration was SIG_DFL/SIG_IGN (prev.execute does nothing; chaining is C04)',
          'registration with the registry succeeds (valid, non-forbidden signal: C14); fewer than 2^128 registrations',
          'one delivery at a time (the history is a sequence; nested / concurrent deliveries are C02/C18); a signal raised inside its own '
          'handler (script op 9) stays pending until the handler returns and is delivered then - the kernel rule for a handler installed '
          'without SA_NODEFER (C05 pins the flags); flag/Run.v deliver_chain and the property oracle apply it, the probes validate it']

NB, NU = 3, 2
STOP_KIND = {19, 20, 21, 22}
IGN_KIND = {17, 18, 23, 28}
KNOWN_SIGS = set(range(1, 32)) - {16, 30}     # names known to signal_details.rs on linux (C16 checks the table)
OPLEN = {1: 3, 2: 2, 3: 3, 4: 4, 5: 4, 6: 3, 7: 2, 8: 3, 9: 3}


def split_ops(flat):
    ops, i = [], 0
    while i < len(flat):
        n = OPLEN[flat[i]]
        ops.append(tuple(flat[i:i + n]))
        i += n
    return ops


def flat(ops):
    return [x for o in ops for x in o]


# ------------------------------------------------------------------------------------------
# the property, evaluated directly (what the text of C15 dictates for a script)
def expected(nb, nu, ops):
    fl = [0] * (nb + nu)
    regs = []          # per registration op: dict or None (failed)
    log = []
    for i, o in enumerate(ops):
        res = 0
        if o[0] == 1:
            fl[o[1]] = (1 if o[2] else 0) if o[1] < nb else o[2]
        elif o[0] == 2:
            sig = o[1]
            again = True
            while again:
                # (a raise made inside the handler - op 9 - stays pending while the handler runs, its own signal being
                # blocked, and is delivered when it has returned: one more complete delivery)
                again = False
                for r in [r for r in regs if r and r['live'] and r['sig'] == sig]:
                    k = r['kind']
                    if k == 3:
                        fl[r['f']] = 1                      # a registered flag holds true ...
                    elif k == 4:
                        fl[r['f']] = r['v']                 # ... or the registered value
                    elif k == 5:
                        if fl[r['c']]:                      # condition true at that moment: immediately,
                            return log + [9, 1, r['status'] & 0xff, 0]   # exactly that status, no exit hooks
                    elif k == 6:
                        if fl[r['c']]:
                            if sig in STOP_KIND:
                                return log + [9, 3, 0, 0]
                            if sig not in IGN_KIND:
                                return log + [9, 2, sig, 0]
                    elif k in (8, 9):
                        log += [2, r['k'], 0] + fl
                        if k == 9 and not r.get('fired'):
                            r['fired'] = True
                            again = True
        elif o[0] in (3, 4, 5, 6, 8, 9):
            r = {'kind': o[0], 'sig': o[1], 'live': True}
            if o[0] == 3:
                r['f'] = o[2]
            elif o[0] == 4:
                r['f'], r['v'] = o[2], o[3]
            elif o[0] == 5:
                r['status'], r['c'] = o[2], o[3]
            elif o[0] == 6:
                r['c'] = o[2]
                if o[1] not in KNOWN_SIGS:
                    r = None
            else:
                r['k'] = o[2]
            regs.append(r)
            res = 1 if r else 0
        elif o[0] == 7:
            r = regs[o[1]] if o[1] < len(regs) else None
            if r and r['live']:
                r['live'] = False
                res = 1
        log += [1, i, res] + fl
    return log + [9, 0, 0, 0]


def clause_of(nb, nu, ops, impl, exp):
    """name the clause of the property that the observation contradicts"""
    n = 3 + nb + nu
    fi, fe = impl[-4:], exp[-4:]
    if fi[3]:
        return 'exit-hooks-ran'
    if fi != fe:
        if fe[1] == 1 and fi[1] == 1:
            return 'wrong-exit-status'
        if fe[1] == 1:
            return 'armed-shutdown-did-not-exit'
        if fi[1] == 1:
            return 'exit-with-condition-false'
        return 'process-end-differs'
    for j in range(0, min(len(impl), len(exp)) - 4, n):
        a, b = impl[j:j + n], exp[j:j + n]
        if a != b:
            if a[0] == 1 and b[0] == 1 and a[1] == b[1] and ops[a[1]][0] == 2:
                return 'flag-value-after-delivery'
            if a[0] == 2 or b[0] == 2:
                return 'actions-run-or-order'
            return 'operation-result'
    return 'log-length'


# ------------------------------------------------------------------------------------------
# generators (everything derives from the seed)
STATUS_EXTRA = [256, 257, -1, -2, -256, 1000, 65535, 2147483647, -2147483648]


def gen_status_cases(rnd, term, tier):
    if tier == 'thorough':
        statuses = list(range(256)) + STATUS_EXTRA
        sig_of = lambda st: term
    else:
        statuses = sorted(set([0, 1, 2, 3, 42, 77, 101, 126, 127, 128, 129, 130, 143, 254, 255] + rnd.sample(range(256), 40))) + STATUS_EXTRA
        sig_of = lambda st: term
    cases = []
    for st in statuses:
        for sig in sig_of(st):
            # shutdown first, arming flag second: survives the first, dies on the second
            cases.append(('st', [(5, sig, st, 0), (3, sig, 0), (2, sig), (2, sig), (2, sig)]))
            # opposite order: dies at once
            cases.append(('st', [(3, sig, 0), (5, sig, st, 0), (2, sig), (2, sig)]))
    return cases


def gen_armdisarm(rnd, term, length):
    """double ctrl-c set-up followed by a random interleaving of arm / disarm / reset writes and deliveries;
    observers before, between and after show which actions of a delivery ran"""
    sig = rnd.choice(term)
    st = rnd.choice([0, 1, 2, 7, 130, 255, 256, -1, 1000])
    first = [(5, sig, st, 0), (3, sig, 0)]
    if rnd.random() < 0.3:
        first.reverse()
    ops = []
    if rnd.random() < 0.5:
        ops.append((1, 0, rnd.randint(0, 1)))          # written before anything is registered
    k = 100
    for r in first:
        if rnd.random() < 0.5:
            ops.append((8, sig, k)); k += 1
        ops.append(r)
    if rnd.random() < 0.7:
        ops.append((8, sig, k)); k += 1
    if rnd.random() < 0.4:
        ops.append((4, sig, NB, rnd.choice([0, 1, 5, 2 ** 40])))
    for _ in range(length):
        x = rnd.random()
        if x < 0.55:
            ops.append((1, 0, 0 if rnd.random() < 0.7 else 1))
        elif x < 0.65:
            ops.append((1, rnd.randrange(1, NB + NU), rnd.randint(0, 1)))
        else:
            ops.append((2, sig))
    ops.append((2, sig)); ops.append((2, sig))
    return ('ad', ops)


def gen_random(rnd, term, length):
    sigs = list(term) + [10, 12]
    ops, delivered_ok, nreg, k = [], [], 0, 200
    for _ in range(length):
        x = rnd.random()
        if x < 0.30:
            f = rnd.randrange(NB + NU)
            v = (0 if rnd.random() < 0.6 else 1) if f < NB else rnd.choice([0, 1, 2, 7, 2 ** 32, 2 ** 62 - 1])
            ops.append((1, f, v))
        elif x < 0.55 and delivered_ok:
            ops.append((2, rnd.choice(delivered_ok)))
        elif x < 0.92:
            y = rnd.random()
            sig = rnd.choice(sigs)
            if y < 0.28:
                ops.append((3, sig, rnd.randrange(NB)))
            elif y < 0.46:
                ops.append((4, sig, NB + rnd.randrange(NU), rnd.choice([0, 1, 3, 99, 2 ** 32 + 5, 2 ** 62 - 1])))
            elif y < 0.70:
                ops.append((5, sig, rnd.choice([0, 1, 2, 3, 100, 255, 256, 511, -1, -255, 1000, rnd.randrange(256)]), rnd.randrange(NB)))
            elif y < 0.82:
                sig = rnd.choice(list(term) + [10, 23, 28, 17, 64, 40, 20])
                ops.append((6, sig, rnd.randrange(NB)))
                if sig in (64, 40):
                    nreg += 1
                    continue
            else:
                ops.append((9 if (rnd.random() < 0.3 and sig < 32) else 8, sig, k)); k += 1
            nreg += 1
            if sig not in delivered_ok:
                delivered_ok.append(sig)
        elif nreg:
            ops.append((7, rnd.randrange(nreg)))
        else:
            ops.append((1, 0, 0))
    return ('rnd', ops)


def fixed_cases(term):
    t = term[0]
    return [
        ('fx', [(3, t, 1), (1, 1, 0), (2, t), (1, 1, 0), (1, 1, 1), (1, 1, 0), (2, t)]),                    # flag overwritten before delivery
        ('fx', [(4, 10, NB, 42), (1, NB, 7), (2, 10), (1, NB, 0), (2, 10), (1, NB, 42), (2, 10)]),          # usize value, overwritten
        ('fx', [(4, 10, NB, 5), (4, 10, NB, 6), (2, 10), (7, 1), (1, NB, 0), (2, 10)]),                     # two setters: the later one wins
        ('fx', [(4, 12, NB, 9), (5, 12, 3, 0), (4, 12, NB + 1, 9), (8, 12, 1), (1, 0, 1), (2, 12)]),        # later actions do not run
        ('fx', [(5, t, 9, 0), (1, 0, 1), (1, 0, 0), (2, t), (1, 0, 1), (7, 0), (2, t)]),                    # disarmed again / unregistered: no exit
        ('fx', [(5, t, 9, 1), (3, t, 0), (1, 0, 1), (2, t), (1, 1, 1), (2, t)]),                            # other flag armed: ignored
        ('fx', [(5, 10, 1, 0), (5, 10, 2, 1), (1, 1, 1), (2, 10)]),                                         # second shutdown's condition
        ('fx', [(5, 10, 1, 0), (5, 10, 2, 1), (1, 1, 1), (1, 0, 1), (2, 10)]),                              # both armed: the first registered wins
        ('fx', [(3, 10, 0), (5, 12, 4, 0), (2, 12), (2, 10), (2, 12)]),                                     # armed by another signal
        ('fx', [(6, 64, 0), (6, t, 0), (2, t), (1, 0, 1), (2, t)]),                                         # conditional default
        # the second signal arrives DURING the first delivery (raised by an action in between): it waits for the handler
        # to return, so the double-signal set-up still survives the first and dies on the second
        ('fx', [(5, t, 9, 0), (9, t, 50), (3, t, 0), (2, t)]),
        ('fx', [(5, t, 9, 0), (3, t, 0), (9, t, 50), (2, t)]),
        ('fx', [(9, t, 50), (5, t, 9, 0), (3, t, 0), (2, t), (2, t)]),
        ('fx', [(3, t, 0), (5, t, 9, 0), (9, t, 50), (2, t)]),                                              # armed first: dies on the first
        ('fx', [(9, 10, 50), (9, 10, 51), (4, 10, NB, 7), (8, 10, 52), (2, 10), (1, NB, 0), (2, 10)]),      # two re-raisers: one pending delivery
        # an older action of the signal is removed: the order of the remaining ones (shutdown before its arming flag) stays
        ('fx', [(8, t, 60), (5, t, 9, 0), (3, t, 0), (7, 0), (2, t), (2, t)]),
        ('fx', [(8, t, 60), (8, t, 61), (5, t, 9, 0), (3, t, 0), (8, t, 62), (7, 1), (2, t), (7, 0), (2, t)]),
    ]


# ------------------------------------------------------------------------------------------
def run_impl(cases, confirm=True):
    """8 probe processes side by side (a script that hangs costs its 5 s time limit)"""
    from concurrent.futures import ThreadPoolExecutor
    lines = ['%d %d %d %s' % (i, NB, NU, ' '.join(str(x) for x in flat(ops))) for i, (_, ops) in enumerate(cases)]
    nsh = 8 if len(lines) > 64 else 1
    shards = [lines[k::nsh] for k in range(nsh)]

    def one(sh_lines):
        return sh([bin_path('p_c15')], input=('\n'.join(sh_lines) + '\n').encode(), timeout=1500)
    with ThreadPoolExecutor(max_workers=nsh) as ex:
        outs = list(ex.map(one, shards))
    res, rc, out = {}, 0, ''
    for r, o, _ in outs:
        rc = rc or r
        out += o
        for l in o.split('\n'):
            p = l.split()
            if len(p) > 4 and p[0].isdigit():
                try:
                    res[int(p[0])] = [int(x) for x in p[1:]]
                except ValueError:
                    pass
    # a script that hit the probe's time limit is run once more on its own (a starved machine must not look like a hang)
    if len(lines) > 1 and confirm:
        for i in [i for i, v in res.items() if len(v) >= 4 and v[-4:-2] == [9, 6]][:8]:
            r2 = sh([bin_path('p_c15')], input=(lines[i] + '\n').encode(), timeout=120)[1].split()
            if len(r2) > 4 and r2[0].isdigit():
                try:
                    res[i] = [int(x) for x in r2[1:]]
                except ValueError:
                    pass
    return rc, res, out


def strip_env(ops):
    """environment ops (-1 sig d: earlier disposition, -2 n: idle threads) do not exist for the model
    or the property: what the flags do must not depend on them"""
    return [o for o in ops if o[0] >= 0]


def with_env(rnd, fam, ops):
    sigs = sorted(set(o[1] for o in ops if o[0] in (2, 3, 4, 5, 6, 8, 9)))
    env = [(-1, s, rnd.choice((1, 2, 3))) for s in sigs if s not in (9, 19) and rnd.random() < 0.7]
    if rnd.random() < 0.6:
        env.append((-2, rnd.choice((1, 3))))
    return (fam + '+env', env + list(ops))


def run_model(cases):
    req = ['run_c15 %d %s' % (NB + NU, ' '.join(str(x) for x in flat(strip_env(ops)))) for _, ops in cases]
    out = common.run_driver('flag', req, timeout=1500)
    return [[int(x) for x in l.split()] if l and not l.startswith('!') else None for l in out]


def valid(ops):
    """every delivery is for a signal whose handler has been installed by an earlier successful registration"""
    installed = set()
    for o in ops:
        if o[0] in (3, 4, 5, 8, 9) or (o[0] == 6 and o[1] in KNOWN_SIGS):
            installed.add(o[1])
        elif o[0] == 2 and o[1] not in installed:
            return False
    return True


def shrink(ops, still_fails, budget=12):
    """greedy removal of single operations while the case keeps failing (unregister indices are kept
    valid by only removing non-registration ops or trailing ops)"""
    cur = list(ops)
    for _ in range(budget):
        cands = []
        for j in range(len(cur)):
            if cur[j][0] in (3, 4, 5, 6, 8, 9) and any(o[0] == 7 for o in cur):
                continue
            c = cur[:j] + cur[j + 1:]
            if valid(c):
                cands.append(c)
        if not cands:
            break
        flags = still_fails(cands)
        nxt = [c for c, f in zip(cands, flags) if f]
        if not nxt:
            break
        cur = min(nxt, key=len)
    return cur


def run(ctx, only=None):
    ctx.trusted_base, ctx.assumptions = TB, ASSUME
    if not ctx.harness(['p_c15']):
        return
    ctx.translate(COMPONENTS)
    ctx.prove('props/C15.v')
    rc, out, _ = sh([bin_path('p_c15'), 'term'], timeout=60)
    try:
        term = [int(x) for x in out.split()]
        assert rc == 0 and term
    except (ValueError, AssertionError):
        ctx.correspondence('TERM_SIGNALS read from the crate', False, out[-500:])
        return
    rnd = random.Random(ctx.seed * 1000003 + 15)
    if only is not None:
        cases = only
    else:
        thorough = ctx.tier == 'thorough'
        cases = fixed_cases(term) + gen_status_cases(rnd, term, ctx.tier)
        n_ad, n_rnd = (15000, 25000) if thorough else (800, 1200)
        for i in range(n_ad):
            cases.append(gen_armdisarm(rnd, term, rnd.randint(2, 60 if thorough else 14)))
        for i in range(n_rnd):
            cases.append(gen_random(rnd, term, rnd.randint(3, 80 if thorough else 22)))
    if only is None:
        # the same scripts again in other environments: the signal ignored / handled by a foreign handler
        # before the first registration, and further threads in the process
        base = list(cases)
        cases += [with_env(rnd, fam, ops) for fam, ops in base[:len(fixed_cases(term))]]
        cases += [with_env(rnd, fam, ops) for fam, ops in rnd.sample(base, min(len(base), 6000 if ctx.tier == 'thorough' else 500))]
    rc, impl, raw = run_impl(cases)
    if rc != 0 or len(impl) != len(cases):
        ctx.correspondence('c15 probes ran', False, raw[-1500:])
        return
    have_model = ctx.driver('flag', *R.all_drivers()['flag'])
    model = run_model(cases) if have_model else [None] * len(cases)

    bad_model, n_viol = [], 0
    kinds = {}
    for i, (fam, ops) in enumerate(cases):
        im = impl[i]
        n = 3 + NB + NU
        ctx.evaluations += max(1, (len(im) - 4) // n + 1)
        kinds[(fam, im[-3])] = kinds.get((fam, im[-3]), 0) + 1
        if im[-3] != 0:
            ctx.distinct.add(hashlib.sha1(json.dumps(ops).encode()).hexdigest())
        if have_model:
            ctx.traces += 1
            if model[i] != im:
                bad_model.append({'ops': ops, 'impl': im, 'model': model[i]})
        ex = expected(NB, NU, strip_env(ops))
        if ex != im and n_viol < 5:
            # a probe that hit its time limit may have been starved by the machine: the script alone must fail again
            rc0, r0, _ = run_impl([('again', ops)])
            if r0.get(0) == ex:
                ctx.coverage['unconfirmed_on_rerun'] = ctx.coverage.get('unconfirmed_on_rerun', 0) + 1
                continue
            n_viol += 1

            def still_fails(cands):
                cs = [('s', c) for c in cands]
                rc2, r2, _ = run_impl(cs, confirm=False)
                return [r2.get(j) is not None and r2.get(j) != expected(NB, NU, strip_env(c)) for j, (_, c) in enumerate(cs)]
            small = shrink(ops, still_fails, budget=6) if (only is None and n_viol <= 2) else ops
            rc3, r3, _ = run_impl([('s', small)])
            im_s, ex_s = r3.get(0, im), expected(NB, NU, strip_env(small))
            if im_s == ex_s:
                small, im_s, ex_s = ops, im, ex
            clause = clause_of(NB, NU, strip_env(small), im_s, ex_s)
            envtxt = ''.join(' [signal %d was %s before]' % (o[1], {1: 'ignored', 2: 'handled by a foreign handler', 3: 'handled by a foreign SA_RESETHAND handler'}[o[2]]) if o[0] == -1
                             else ' [%d extra threads]' % o[1] for o in small if o[0] < 0)
            clause = clause + envtxt
            ctx.violation({'clause': clause, 'ops': flat(small)},
                          'C15 %s: script %s on the real crates gives log %s, the property dictates %s' % (clause, small, im_s, ex_s),
                          {'nb': NB, 'nu': NU, 'ops': [list(o) for o in small], 'impl': im_s, 'property': ex_s,
                           'replay': './check C15 --replay <this file>'})
    if have_model:
        ctx.correspondence('extracted model run_c15 = real crates on %d scripts (forked probes: op results, flags after every op, observers inside deliveries, how the process ended, wait status, atexit marker)' % len(cases),
                           not bad_model, bad_model[:3])
    ctx.samples = [{'script': cases[i][1], 'impl_log': impl[i], 'model_log': model[i]} for i in (0, 3, len(fixed_cases(term)), len(fixed_cases(term)) + 1) if i < len(cases)]
    ctx.coverage['rule'] = ('scripts over %d bool + %d usize flags: %d fixed; status sweep (%s) x TERM_SIGNALS %s x both registration orders; '
                            'random arm/disarm/deliver histories around the double-ctrl-c set-up; random scripts of all 8 operations '
                            '(signals %s + USR1/USR2, conditional default also on ignored/stop/unknown signals). '
                            'distinct_nontrivial = scripts in which the process ended inside a delivery. by family/ending: %s'
                            % (NB, NU, len(fixed_cases(term)), 'all 0..255 + outside' if ctx.tier == 'thorough' else '55 of 0..255 + outside',
                               term, term, sorted('%s:%d=%d' % (f, k, v) for (f, k), v in kinds.items())))
    ctx.coverage['exhaustive'] = False
    ctx.coverage['scripts'] = len(cases)


def shutdown_probe(ctx):
    """For C03 (the conditional-shutdown and flag actions are built-in actions run inside the handler): the
    fixed scripts and a status sample on the real crates; an action that ends the process must do so at once,
    with the requested status, WITHOUT running exit hooks (an exit path that runs hooks takes locks and waits:
    not async-signal-safe), and in every environment (ignored before / foreign handler / more threads)."""
    rc, out, _ = sh([bin_path('p_c15'), 'term'], timeout=60)
    try:
        term = [int(x) for x in out.split()]
        assert rc == 0 and term
    except (ValueError, AssertionError):
        ctx.correspondence('TERM_SIGNALS read from the crate', False, out[-500:])
        return
    rnd = random.Random(ctx.seed * 1000003 + 3)
    base = fixed_cases(term) + gen_status_cases(rnd, term, 'quick')[:40]
    cases = base + [with_env(rnd, fam, ops) for fam, ops in base]
    rc, impl, raw = run_impl(cases)
    if rc != 0 or len(impl) != len(cases):
        ctx.correspondence('built-in shutdown/flag actions probe ran', False, raw[-1500:])
        return
    n_viol = 0
    for i, (fam, ops) in enumerate(cases):
        ctx.evaluations += 1
        ex = expected(NB, NU, strip_env(ops))
        if ex != impl[i]:
            rc0, r0, _ = run_impl([('again', ops)])
            if r0.get(0) == ex:
                continue
            n_viol += 1
            if n_viol <= 3:
                clause = clause_of(NB, NU, strip_env(ops), impl[i], ex)
                ctx.violation({'builtin_action': clause, 'ops': flat(ops)},
                              'built-in flag/shutdown action, %s: script %s gives log %s, expected %s%s' % (
                                  clause, ops, impl[i], ex, ' (exit hooks ran: the action left the handler through an exit path that is not async-signal-safe)'
                                  if clause == 'exit-hooks-ran' else ''),
                              {'c15_script': [list(o) for o in ops], 'impl': impl[i], 'expected': ex})
        else:
            ctx.traces += 1
    ctx.coverage['builtin_shutdown_scripts'] = len(cases)


def replay(ctx, path):
    case = json.load(open(path))
    c = case.get('case') or {}
    if 'ops' not in c:
        print('replay file names no concrete input:', json.dumps(case.get('broken'), indent=1)[:3000])
        return 1
    ops = [tuple(o) for o in c['ops']]
    run(ctx, only=[('replay', ops)])
    for v in ctx.violations:
        print('REPRODUCED:', v['what'])
    for b in ctx.broken:
        print('BROKEN:', b['name'], str(b.get('detail'))[:500])
    return 1 if (ctx.violations or ctx.broken) else 0
