"""C16 - default-action emulation matches the kernel (DESIGN 5.16)."""
import json, random
import common
import registry_of_checks as R

COMPONENTS = ['details', 'platform']
DRIVERS = {'details': (['run_c16'], ['details/Run.vo'])}
from common import sh, PROBE

TB = ['Coq 8.16.1 kernel + vm_compute (finite sweep over the extracted DETAILS table); no native_compute',
      'translator/details.py (table, early-return test, action skeleton of each match arm; cfg filtering for linux/x86_64)',
      'translator/plat.py + gcc + <signal.h> (platform signal names)',
      'details/Kernel.v: kernel default dispositions = ORACLE, validated against the running kernel by forked probes on every run',
      'extraction (ExtrOcamlBasic only) + ocaml/main_template.ml; harness/src/c16.rs forked probes',
      'modelled, not verified: sigaction/sigprocmask/raise/abort semantics (details/Model.v exec)']


def code_of(txt, native=False):
    if txt.startswith('sig:'):
        return int(txt[4:])
    if txt.startswith('stop:'):
        return -1
    if txt == 'exit:42':
        return 0
    if txt == 'exit:43' and not native:
        return -2
    return -100


def sweep(ctx):
    sigs = list(range(-2, 71)) + [100, 127, 128, 129, 1000, 2147483647, -2147483647]
    if ctx.tier == 'thorough':
        rnd = random.Random(ctx.seed)
        sigs += [rnd.randint(-2**31 + 1, 2**31 - 1) for _ in range(200)] + list(range(71, 300))
    return sigs


def run(ctx, only=None):
    ctx.trusted_base = TB
    ctx.assumptions = ['process group not orphaned (probes create one)', 'kernel default dispositions as in details/Kernel.v (probed)',
                       'restore_default succeeds for signals the table knows']
    if not ctx.harness(["sh_probe"]):
        return
    ctx.translate(COMPONENTS)
    ctx.prove('props/C16.v')
    sigs = only or sweep(ctx)
    rc, out, _ = sh([PROBE, 'c16'] + [str(s) for s in sigs], timeout=900)
    impl = {}
    for l in out.split('\n'):
        p = l.split()
        if len(p) == 3:
            impl.setdefault(int(p[0]), {})[p[1]] = p[2]
    if rc != 0 or not impl:
        ctx.correspondence('c16 probes ran', False, out[-1000:])
        return
    have_model = ctx.driver('details', *R.all_drivers()['details'])
    model = {}
    if have_model:
        req = []
        for s in sigs:
            req.append('run_c16 0 1 %d' % s)
            req.append('run_c16 1 0 %d' % s)
        res = common.run_driver('details', req)
        for i, s in enumerate(sigs):
            a = [int(x) for x in res[2 * i].split()]
            b = [int(x) for x in res[2 * i + 1].split()]
            model[s] = {'emu': a[0], 'kernel': a[1], 'known': a[2], 'name': ''.join(chr(c) for c in a[3:]) or '-', 'emu_in_handler': b[0]}
    bad_emu, bad_kernel, bad_name = [], [], []
    for s in sigs:
        im = impl.get(s, {})
        ctx.evaluations += len(im)
        if s in model:
            m = model[s]
            if code_of(im.get('emu', '?')) != m['emu']:
                bad_emu.append((s, 'emu', im.get('emu'), m['emu']))
            if 'emu_in_handler' in im and code_of(im['emu_in_handler']) != m['emu_in_handler']:
                bad_emu.append((s, 'emu_in_handler', im['emu_in_handler'], m['emu_in_handler']))
            if 'native' in im and im['native'] != 'exit:44' and code_of(im['native'], True) != m['kernel']:
                bad_kernel.append((s, im['native'], m['kernel']))
            if im.get('name') != m['name']:
                bad_name.append((s, im.get('name'), m['name']))
            ctx.traces += 1
        # property monitor on the implementation itself
        known = im.get('name', '-') != '-'
        if known and 'native' in im and im['native'] != 'exit:44':
            nat = code_of(im['native'], True)
            for mode in ('emu', 'emu_in_handler', 'emu_ignored', 'emu_foreign', 'emu_blocked', 'emu_thread', 'emu_otherpending'):
                if mode in im and code_of(im[mode]) != nat:
                    ctx.violation({'signal': s, 'mode': mode},
                                  'emulate_default_handler(%d) [%s] gives %s but the kernel default gives %s' % (s, mode, im[mode], im['native']),
                                  {'signal': s, 'impl': im, 'replay': './check C16 --replay <this file>'})
            ctx.distinct.add(s)
        if not known and im.get('emu') != 'exit:43':
            ctx.violation({'signal': s, 'mode': 'unknown'}, 'unknown signal %d: emulate_default_handler did not return an error (%s)' % (s, im.get('emu')),
                          {'signal': s, 'impl': im})
    if have_model:
        ctx.correspondence('model emulate = implementation emulate_default_handler (forked probes)', not bad_emu, bad_emu[:10])
        ctx.correspondence('Kernel.v kernel_default = running kernel (forked native probes)', not bad_kernel, bad_kernel[:10])
        ctx.correspondence('model signal_name = implementation signal_name', not bad_name, bad_name[:10])
    ctx.samples = [{'signal': s, 'impl': impl.get(s), 'model': model.get(s)} for s in (15, 20, 29, 17, 64, -1) if s in impl]
    ctx.coverage['rule'] = ('every signal number in the sweep %s: forked native default vs emulate_default_handler from normal context (default disposition, ignored, foreign handler, blocked, another signal blocked and pending), '
                            'from a second thread, and from inside its own handler; distinct_nontrivial = signals known to the library whose native outcome could be measured' % ('[-2,70]+extremes' if ctx.tier == 'quick' else '[-2,299]+200 random i32'))
    ctx.coverage['exhaustive'] = False


def replay(ctx, path):
    case = json.load(open(path))
    s = case.get('case', {}).get('signal')
    if s is None:
        print('replay file names no concrete input:', json.dumps(case.get('broken'), indent=1))
        return 1
    run(ctx, only=[s])
    for v in ctx.violations:
        print('REPRODUCED:', v['what'])
    return 1 if ctx.violations else 0
