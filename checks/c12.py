"""C12 - a Signals instance survives rejected additions and cleans up what it owns (DESIGN 5.12).

Static: translator/instance.py regenerates coq/gen/Extracted_instance.v (skeletons of Handle::add_signal,
PendingSignals::add_signal, DeliveryState::drop, with_pipe, the exfiltrators' init, lock poison policies);
coq/instance/Spec.v turns the interpreted model into closed forms (fails when a skeleton changes) and
props/C12.v holds the theorems over all histories.

Dynamic: random + fixed life-cycle histories run on the real crates (harness/src/bin/p_c12.rs, each
history in a forked child, every call under catch_unwind) and on the extracted model (run_c12);
outcomes and observations are compared per operation, and the property itself is monitored on the
implementation's observations (function `monitor`), independently of the model.

Probe encoding of an operation (list of ints; the model's encoding is the same without `api`):
  [1, e, api, len, s..] new   [2, i, via, n] add   [3, i] clone   [4, i] drop handle   [5, i] drop object
  [6, sig] raise              [7, n] independent flag registration
"""
import json, os, random, tempfile
import common
import registry_of_checks as R
from common import sh

COMPONENTS = ['instance']
DRIVERS = {'instance': (['run_c12'], ['instance/Run.vo'])}
P_C12 = common.bin_path('p_c12')

TB = ['Coq 8.16.1 kernel + vm_compute (Examples only)',
      'translator/instance.py (statement shapes of Handle::add_signal, PendingSignals::add_signal, DeliveryState::drop, '
      'SignalDelivery::with_pipe, WithRawSiginfo::init, lock poison policy, struct field order, FORBIDDEN_IMPL, MAX_SIGNUM)',
      'instance/Model.v: sequential semantics of Mutex poisoning, Arc ownership (last owner drops DeliveryState; registered actions hold the write end), '
      'struct drop order, panic while unwinding = abort; the registry as a specification (list of (id, signal), fresh ids, forbidden assert first, '
      'EINVAL leaves nothing behind) - the registry itself is C05/C14',
      'instance/Os.v: which numbers sigaction accepts = ORACLE for the correspondence only (theorems quantify over every verdict), validated by the probe on every run',
      'extraction (ExtrOcamlBasic only) + ocaml/main_template.ml; harness/src/bin/p_c12.rs (forked children, catch_unwind, tracked pipe ends)']
ASSUME = ['calls on one instance are sequential (the mutex serialises them; concurrency of the registry is C01/C05)',
          'fewer than 2^128 registrations per process (ids modelled as unbounded naturals)',
          'UnixStream::pair() succeeds', 'panics are caught by the caller (catch_unwind)',
          'dispositions stay taken over after a failed constructor (registry behaviour, C05)']

FORBIDDEN = [4, 8, 9, 11, 19]
RAISABLE = [1, 2, 10, 12, 14, 15, 17, 28, 34, 35, 50, 64]
OS_BAD = [0, 32, 33] + list(range(65, 128))
# SIGPIPE (13) is deliberately absent: see the note in run() about wake-ups on a closed peer
GOOD_EXTRA = [3, 5, 6, 7, 16, 18, 20, 21, 22, 23, 24, 25, 26, 27, 29, 30, 31, 36, 40, 63]
NEG = [-1, -2, -9, -128, -2147483648]
LARGE = [128, 129, 255, 256, 1000, 65536, 2147483647]
EXF = ['SignalOnly', 'WithRawSiginfo', 'WithOrigin']


def bad_class(n):
    if n < 0:
        return 'negative'
    if n >= 128:
        return 'too-large'
    if n in FORBIDDEN:
        return 'forbidden'
    return None


# ------------------------------------------------------------------------------------------
# histories
def fixed_histories():
    hs = []
    for e in (0, 1, 2):
        for api in (0, 1):
            hs.append([[7, 10], [7, 12], [1, e, api, 1, 10], [2, 0, 0, 9], [2, 0, 0, 12], [6, 12], [6, 10], [2, 0, 0, -1],
                       [2, 0, 0, 128], [2, 0, 0, 10], [3, 0], [2, 0, 1, 19], [2, 0, 1, 14], [5, 0], [6, 10], [2, 0, 1, 12], [4, 0], [6, 10], [6, 12]])
            hs.append([[7, 10], [1, e, api, 0], [2, 0, 0, 100], [2, 0, 0, 100], [2, 0, 0, 0], [2, 0, 0, 33], [2, 0, 0, 10], [6, 10], [5, 0], [6, 10]])
            hs.append([[7, 10], [7, 12], [1, e, api, 2, 10, 9], [6, 10], [1, e, api, 3, 10, 12, 100], [6, 10], [6, 12], [1, e, api, 1, 10], [6, 10],
                       [1, e, api, 2, -1, 10], [1, e, api, 1, 128], [5, 2], [6, 10]])
    return hs


def gen_history(rnd, maxlen):
    h = []
    nfor = rnd.randint(2, 6)
    raisable = rnd.sample(RAISABLE, nfor)
    for s in raisable:
        h.append([7, s])
    insts = []      # [alive, clones, watched-guess]

    def good():
        r = rnd.random()
        if r < 0.75:
            return rnd.choice(raisable)
        if r < 0.9:
            return rnd.choice(RAISABLE)
        return rnd.choice(GOOD_EXTRA)

    def bad():
        r = rnd.random()
        if r < 0.3:
            return rnd.choice(FORBIDDEN)
        if r < 0.5:
            return rnd.choice(NEG) if rnd.random() < 0.7 else -rnd.randint(1, 2 ** 31)
        if r < 0.7:
            return rnd.choice(LARGE) if rnd.random() < 0.7 else rnd.randint(128, 2 ** 31 - 1)
        return rnd.choice(OS_BAD)

    def pick_inst(want=None):
        if not insts or rnd.random() < 0.05:
            return rnd.randint(0, len(insts) + 1)
        live = [i for i, x in enumerate(insts) if (x[0] or x[1] > 0) and (want is None or want(x))]
        if live and rnd.random() < 0.93:
            return rnd.choice(live)
        return rnd.randrange(len(insts))

    n = rnd.randint(8, maxlen)
    while len(h) < n:
        r = rnd.random()
        nolive = not any(x[0] or x[1] > 0 for x in insts)
        if (nolive and r < 0.7 and len(insts) < 10) or (r < 0.10 and len(insts) < 10):
            k = rnd.choice([0, 1, 1, 2, 2, 3])
            sigs = [bad() if rnd.random() < 0.12 else good() for _ in range(k)]
            e, api = rnd.randint(0, 2), (1 if rnd.random() < 0.3 else 0)
            h.append([1, e, api, len(sigs)] + sigs)
            ok = all(bad_class(s) is None and s not in OS_BAD for s in sigs)
            insts.append([ok, 0])
        elif r < 0.47:
            i = pick_inst()
            via = 1 if (i < len(insts) and insts[i][1] > 0 and (not insts[i][0] or rnd.random() < 0.4)) else (1 if rnd.random() < 0.05 else 0)
            h.append([2, i, via, bad() if rnd.random() < 0.3 else good()])
        elif r < 0.55:
            i = pick_inst()
            h.append([3, i])
            if i < len(insts) and (insts[i][0] or insts[i][1] > 0):
                insts[i][1] += 1
        elif r < 0.63:
            i = pick_inst(lambda x: x[1] > 0)
            h.append([4, i])
            if i < len(insts) and insts[i][1] > 0:
                insts[i][1] -= 1
        elif r < 0.70:
            i = pick_inst(lambda x: x[0])
            h.append([5, i])
            if i < len(insts):
                insts[i][0] = False
        elif r < 0.95:
            h.append([6, rnd.choice(raisable)])
        else:
            s = rnd.choice(RAISABLE)
            h.append([7, s])
            if s not in raisable:
                raisable.append(s)
    return h


def flat(h):
    return [x for op in h for x in op]


def model_line(h):
    out = []
    for op in h:
        out += ([1, op[1]] + op[3:]) if op[0] == 1 else op
    return 'run_c12 ' + ' '.join(str(x) for x in out)


# ------------------------------------------------------------------------------------------
# running
def run_probe(hists):
    """-> list of (records, end) ; record = dict(res=, msg=, fds=, kv={}, inst=[(wake, rep, extra)], flags=, wrong=)"""
    with tempfile.NamedTemporaryFile('w', suffix='.txt', prefix='c12_', delete=False) as f:
        for h in hists:
            f.write(' '.join(str(x) for x in flat(h)) + '\n')
        path = f.name
    try:
        rc, out, _ = sh([P_C12, path], timeout=3000)
    finally:
        os.unlink(path)
    res, cur = [], None
    for l in out.split('\n'):
        if not l.startswith('@'):
            continue
        p = l.split(' ')
        if p[0] == '@H':
            cur = []
        elif p[0] == '@O' and cur is not None:
            rec = {'raw': l, 'res': p[2].split(':')[0], 'msg': p[2].partition(':')[2], 'kv': {}, 'inst': []}
            for t in p[3:]:
                if '=' in t:
                    k, v = t.split('=', 1)
                    rec['kv'][k] = v
                elif t.count(':') >= 2:
                    a, b, c = t.split(':', 2)
                    rec['inst'].append((a, b, c))
            cur.append(rec)
        elif p[0] == '@E' and cur is not None:
            res.append((cur, p[2]))
            cur = None
    if rc != 0 or len(res) != len(hists):
        raise RuntimeError('p_c12 failed (rc=%s, %d of %d histories): %s' % (rc, len(res), len(hists), out[-1500:]))
    return res


RES_CODE = {'ok': 0, 'err': 1, 'panic': 2, 'skip': 4}
RES_NAME = {0: 'ok', 1: 'err', 2: 'panic', 3: 'abort', 4: 'skip', 5: 'dead'}


def parse_model(line, nops):
    v = [int(x) for x in line.split()]
    out, p = [], 0
    while p < len(v):
        if v[p] == -99 or p + 1 >= len(v):
            return None
        ln = v[p + 1]
        out.append((v[p], v[p + 2:p + 2 + ln]))
        p += 2 + ln
    return out if len(out) == nops else None


def compare(h, recs, end, mout):
    """model output vs implementation records, per operation -> list of mismatch strings"""
    bad = []
    closes = []            # per instance, the model's [rd, wr]
    died = end != 'exit:0'
    for k, op in enumerate(h):
        mres, mobs = mout[k]
        if k < len(recs):
            rec = recs[k]
            ires = RES_CODE.get(rec['res'], -1)
        else:
            rec = None
            ires = 3 if (died and k == len(recs)) else (5 if died else -2)
        if ires != mres:
            bad.append('op %d %s: impl %s, model %s' % (k, op, rec['raw'] if rec else RES_NAME.get(ires, ires), RES_NAME.get(mres)))
            continue
        if op[0] == 1:
            closes.append(list(mobs))
        elif op[0] in (4, 5) and mres != 4 and op[1] < len(closes):
            closes[op[1]] = list(mobs)
        if rec is None:
            continue
        kv = rec['kv']
        if op[0] in (1, 4, 5) and mres != 4 and kv.get('rd', '-') != '-':
            if [int(kv['rd']), int(kv['wr'])] != list(mobs):
                bad.append('op %d %s: pipe closes impl rd=%s wr=%s, model %s' % (k, op, kv['rd'], kv['wr'], mobs))
        if 'fds' in kv:
            exp = sum(2 - c[0] - c[1] for c in closes)
            if int(kv['fds']) != exp:
                bad.append('op %d %s: open descriptors impl %s, model %d' % (k, op, kv['fds'], exp))
        if op[0] == 6:
            if 'flags' not in kv:
                bad.append('op %d %s: probe refused to raise' % (k, op))
                continue
            pairs = [(mobs[1 + 2 * j], mobs[2 + 2 * j]) for j in range((len(mobs) - 1) // 2)]
            if len(pairs) != len(rec['inst']):
                bad.append('op %d %s: instance count impl %d model %d' % (k, op, len(rec['inst']), len(pairs)))
                continue
            if int(kv['flags']) != mobs[0] - sum(a for a, _ in pairs) or kv.get('wrongflags') != '0':
                bad.append('op %d %s: independent flags fired %s (wrong %s), model total %d of which instances %d' %
                           (k, op, kv['flags'], kv.get('wrongflags'), mobs[0], sum(a for a, _ in pairs)))
            for j, ((wake, rep, extra), (mran, mrep)) in enumerate(zip(rec['inst'], pairs)):
                if wake != '?' and int(wake) != mran:
                    bad.append('op %d %s: instance %d action ran %s times, model %d' % (k, op, j, wake, mran))
                if (0 if rep == '-' else int(rep)) != mrep or extra:
                    bad.append('op %d %s: instance %d reported %s (+%r), model %d' % (k, op, j, rep, extra, mrep))
    return bad


def monitor(h, recs, end):
    """The property, evaluated on the implementation's observations alone.
    -> list of (kind, op index, text).  Knowledge used: which numbers the documentation says panic
    (forbidden / negative / >= 128); everything else must be Ok or Err, and consistently so."""
    v = []
    insts = []      # dict(e, alive, clones, watched:set, tracked)
    verdict = {}    # signal -> 'ok' | 'err' as decided by the OS earlier in this history
    foreign = {}

    def owners(x):
        return x['alive'] or x['clones'] > 0

    def expect_add(x, n):
        if n in x['watched']:
            return 'ok'
        if bad_class(n):
            return 'panic'
        return verdict.get(n)       # None: either ok or err

    def exf_of(i):
        return EXF[insts[i]['e']] if i < len(insts) else '-'

    for k, op in enumerate(h):
        if k >= len(recs):
            v.append(('abort', k, 'the process died (%s) during %s %s' % (end, OPN[op[0]], op)))
            break
        rec = recs[k]
        res, kv = rec['res'], rec['kv']
        if op[0] == 7:
            if res == 'ok':
                foreign[op[1]] = foreign.get(op[1], 0) + 1
        elif op[0] == 1:
            e, api, sigs = op[1], op[2], op[4:]
            x = {'e': e, 'alive': False, 'clones': 0, 'watched': set(), 'tracked': api == 0}
            exp, unknown, seen = 'ok', [], set()
            for s in sigs:
                if s in seen:
                    continue                    # listed twice: the second add is a no-op
                if bad_class(s):
                    exp = 'panic'
                    break
                if verdict.get(s) == 'err':
                    exp = 'err'
                    break
                if verdict.get(s) is None:
                    unknown.append(s)           # the OS decides: Ok or Err
                seen.add(s)
            acceptable = {exp} | ({'err'} if unknown else set())
            if res not in acceptable:
                v.append(('new-unexpected-panic' if res == 'panic' else 'new-unexpected-result', k,
                          'constructor %s<%s>: expected %s, got %s' % (op, EXF[e], '/'.join(sorted(acceptable)), rec['raw'])))
            if res == 'ok':
                x['watched'] = seen
                for s in seen:
                    verdict.setdefault(s, 'ok')
            elif res == 'err' and len(unknown) == 1 and exp != 'err':
                verdict.setdefault(unknown[0], 'err')
            if res == 'ok':
                x['alive'] = True
            else:
                if x['tracked'] and (kv.get('rd'), kv.get('wr'), kv.get('rdfd'), kv.get('wrfd')) != ('1', '1', 'closed', 'closed'):
                    v.append(('pipe-not-closed', k, 'failed constructor %s (%s): pipe ends not closed exactly once: %s' % (op, EXF[e], rec['raw'])))
            insts.append(x)
        elif op[0] == 2:
            i, via, n = op[1], op[2], op[3]
            usable = i < len(insts) and (insts[i]['clones'] > 0 if via else insts[i]['alive'])
            if not usable:
                if res != 'skip':
                    v.append(('probe', k, 'unusable handle but outcome %s' % res))
                continue
            x = insts[i]
            exp = expect_add(x, n)
            if res == 'panic' and exp != 'panic':
                v.append(('add-unexpected-panic', k, 'add_signal(%d) on a %s instance panicked (%s); expected %s (documented panics: forbidden, negative, >= 128 only)' %
                          (n, EXF[x['e']], rec['msg'], exp or 'ok/err')))
            elif exp is not None and res != exp:
                v.append(('add-unexpected-result', k, 'add_signal(%d) on a %s instance: expected %s, got %s' % (n, EXF[x['e']], exp, rec['raw'])))
            if res == 'ok':
                x['watched'].add(n)
                verdict.setdefault(n, 'ok')
            elif res == 'err' and not bad_class(n):
                verdict.setdefault(n, 'err')
        elif op[0] == 3:
            i = op[1]
            if i < len(insts) and owners(insts[i]):
                if res != 'ok':
                    v.append(('probe', k, 'clone failed: %s' % rec['raw']))
                insts[i]['clones'] += 1
        elif op[0] in (4, 5):
            i = op[1]
            if i >= len(insts):
                continue
            x = insts[i]
            if op[0] == 4:
                if x['clones'] == 0:
                    continue
                x['clones'] -= 1
            else:
                if not x['alive']:
                    continue
                x['alive'] = False
            if res != 'ok':
                v.append(('drop-panicked', k, 'dropping %s of a %s instance: %s' % ('a handle' if op[0] == 4 else 'the object', EXF[x['e']], rec['raw'])))
            if x['tracked']:
                want_rd = '0' if x['alive'] else '1'
                want_wr = '0' if owners(x) else '1'
                if kv.get('rd') != want_rd or kv.get('wr') != want_wr or kv.get('rdfd') == 'open' or kv.get('wrfd') == 'open':
                    v.append(('pipe-not-closed', k, 'after %s on a %s instance (owners left: %s): %s; expected rd=%s wr=%s' %
                              (OPN[op[0]], EXF[x['e']], owners(x), rec['raw'], want_rd, want_wr)))
        elif op[0] == 6:
            sig = op[1]
            if 'flags' not in kv:
                v.append(('probe', k, 'probe refused to raise %d' % sig))
                continue
            if int(kv['flags']) != foreign.get(sig, 0) or kv.get('wrongflags') != '0':
                v.append(('foreign-registration-disturbed', k, 'raise(%d): %s independent flags fired (%s of other signals), %d registered' %
                          (sig, kv['flags'], kv.get('wrongflags'), foreign.get(sig, 0))))
            for j, (wake, rep, extra) in enumerate(rec['inst']):
                if j >= len(insts):
                    break
                x = insts[j]
                want = 1 if (owners(x) and sig in x['watched']) else 0
                if wake != '?' and int(wake) != want:
                    kind = 'registration-leaked' if int(wake) > want else 'delivery-lost'
                    v.append((kind, k, 'raise(%d): the action of %s instance %d (owners left: %s, watched: %s) ran %s times, expected %d' %
                              (sig, EXF[x['e']], j, owners(x), sorted(x['watched']), wake, want)))
                if x['alive']:
                    if rep == '-' or int(rep) != want or extra:
                        v.append(('delivery-lost' if want else 'spurious-report', k, 'raise(%d): %s instance %d (watched %s) reported it %s times (+ others: %r), expected %d' %
                                  (sig, EXF[x['e']], j, sorted(x['watched']), rep, extra, want)))
        if 'fds' in kv:
            exp = sum((1 if x['alive'] else 0) + (1 if owners(x) else 0) for x in insts)
            if int(kv['fds']) != exp:
                v.append(('descriptor-leak', k, 'after %s %s: %s descriptors open beyond the baseline, expected %d' % (OPN[op[0]], op, kv['fds'], exp)))
    else:
        if end != 'exit:0':
            v.append(('abort', len(h), 'the process ended with %s' % end))
    return v


OPN = {1: 'new', 2: 'add_signal', 3: 'clone handle', 4: 'drop handle', 5: 'drop object', 6: 'raise', 7: 'flag::register'}


def shrink(h, kind, budget=6):
    """greedy one-operation removal, every round in one probe invocation"""
    cur = h
    import time as _t
    t0 = _t.time()
    for _ in range(budget * 10):
        if _t.time() - t0 > 90:
            break             # (histories that hang cost their time limit each)
        cands = [cur[:j] + cur[j + 1:] for j in range(len(cur))]
        cands = [c for c in cands if c]
        if not cands:
            break
        try:
            outs = run_probe(cands)
        except RuntimeError:
            break
        nxt = None
        for c, (recs, end) in zip(cands, outs):
            if any(kd == kind for kd, _, _ in monitor(c, recs, end)):
                nxt = c
                break
        if nxt is None:
            break
        cur = nxt
    return cur


def describe(h):
    out = []
    for op in h:
        if op[0] == 1:
            out.append('new<%s>%s(%s)' % (EXF[op[1]], '[Signals]' if op[2] else '[with_pipe]', op[4:]))
        elif op[0] == 2:
            out.append('inst%d%s.add_signal(%d)' % (op[1], '.handle' if op[2] else '', op[3]))
        else:
            out.append('%s(%d)' % (OPN[op[0]], op[1]))
    return '; '.join(out)


def concurrent_add(ctx, flavour='cleanup'):
    """Two handle clones call add_signal while the other is paused at every point (deterministic
    scheduler over the shim's mutex/atomic operations).  flavour 'cleanup' (C12, C01): afterwards
    every owner is dropped: no registration of the instance may survive (no wake-up on a later
    dispatch) and its write end must be closed.  flavour 'records' (C10): with the owners alive
    one delivery of the signal is dispatched: it may wake the consumer once per registration made
    (one) and pending() may yield at most one record for it - SignalOnly and WithRawSiginfo."""
    cases = []
    for raw in ((False,) if flavour == 'cleanup' else (True, False)):
        for s1, s2 in ((10, 10), (10, 12)):
            for first in (0, 1):
                for i in range(0, 70 if ctx.tier == 'quick' else 140):
                    cases.append((raw, s1, s2, [first] * i + [1 - first] * 150 + [first] * 150))
    inp = '\n'.join('%s%d %d %d %s' % ('R ' if raw else '', a, b, len(sc), ' '.join(map(str, sc))) for raw, a, b, sc in cases) + '\n'
    rc, out, _ = common.sh([common.bin_path('ls_addsig')], input=inp.encode(), timeout=600)
    lines = out.split('\n')
    bad_run = 0
    for (raw, a, b, sc), l in zip(cases, lines):
        ctx.evaluations += 1
        p = l.split()
        if len(p) != 8:
            bad_run += 1
            continue
        ok1, ok2, fdopen, wakes, stuck, pan, wakes_alive, records_alive = map(int, p)
        split = next((k for k, x in enumerate(sc) if x != sc[0]), 0)
        ctx.distinct.add(('concurrent-add', raw, a == b, sc[0], split))
        key = {'concurrent_add': [a, b], 'first': sc[0], 'steps_before_switch': split, 'raw': raw}
        case = {'signals': [a, b], 'exfiltrator': 'WithRawSiginfo' if raw else 'SignalOnly', 'schedule': sc[:split + 3], 'observed': l,
                'replay': 'echo "%s%d %d %d %s" | harness/target/debug/ls_addsig' % ('R ' if raw else '', a, b, len(sc), ' '.join(map(str, sc)))}
        who = 'concurrent add_signal(%d) / add_signal(%d) on two handle clones (%s, switch after %d steps of the first)' % (
            a, b, 'WithRawSiginfo' if raw else 'SignalOnly', split)
        if flavour == 'cleanup':
            if wakes or fdopen:
                ctx.violation(key, '%s: after every owner was dropped %d wake-up(s) still happen on a later dispatch and the write end is %s - a registration '
                              'of the instance survived its owners' % (who, wakes, 'still open' if fdopen else 'closed'), case)
            elif stuck or pan or ok1 != 1 or ok2 != 1:
                ctx.violation(key, 'concurrent add_signal calls did not both succeed: results %s' % l, case)
        else:
            if stuck or pan or ok1 != 1 or ok2 != 1:
                ctx.violation(key, '%s: the calls did not both succeed: results %s' % (who, l), case)
            elif records_alive > 1 or wakes_alive > 1:
                ctx.violation(key, '%s: ONE delivery of signal %d afterwards runs %d action(s) of this iterator and pending() yields %d record(s) for it'
                              % (who, a, wakes_alive, records_alive), case)
            elif records_alive != 1:
                ctx.violation(key, '%s: one delivery of signal %d afterwards yields %d records' % (who, a, records_alive), case)
    ctx.correspondence('concurrent add_signal probe ran (ls_addsig, %s)' % flavour, bad_run == 0 and rc == 0, out[-500:] if bad_run else None)
    ctx.coverage['concurrent_add_cases'] = len(cases)


def close_after_rejection(ctx):
    """close() after add_signal calls that were rejected by panic (forbidden, negative, >= 128) or by
    error (numbers the OS refuses): it must not panic, is_closed must be true, a consumer that starts
    afterwards must come back from wait() and its forever() must end, a second close is harmless."""
    rnd = random.Random(ctx.seed * 31 + 1112)
    panicking, erroring = [9, 19, 4, 8, 11, -1, -7, 128, 200, 1000], [0, 32, 33, 65, 100, 127]
    cases = [(e, via, sigs) for e in (0, 1) for via in (0, 1) for sigs in ([], [9], [19, 4], [-1], [200], [0], [65, 0], [9, 65, -1, 12])]
    for _ in range(30):
        k = rnd.randint(1, 5)
        cases.append((rnd.randint(0, 1), rnd.randint(0, 1), [rnd.choice(panicking + erroring + [12, 10]) for _ in range(k)]))
    inp = ''.join('%d %d %d %s\n' % (e, via, len(sg), ' '.join(map(str, sg))) for e, via, sg in cases)
    rc, out, _ = common.sh([common.bin_path('p_closeafter')], input=inp.encode(), timeout=600)
    lines = [l for l in out.split('\n') if l.strip()]
    bad_run = 0
    for (e, via, sg), l in zip(cases, lines):
        ctx.evaluations += 1
        left, _, how = l.partition(' | ')
        p = left.split()
        key = {'close_after': sg, 'exf': e, 'via': via}
        case = {'exfiltrator': ['SignalOnly', 'WithRawSiginfo'][e], 'close_through': ['a fresh handle', 'a handle taken before the additions'][via],
                'add_signal_attempts': sg, 'observed': l, 'replay': 'echo "%d %d %d %s" | harness/target/debug/p_closeafter' % (e, via, len(sg), ' '.join(map(str, sg)))}
        if len(p) != 6 or how.strip() != 'exit:0':
            if how.strip() in ('timeout',) or how.strip().startswith('sig:'):
                ctx.violation(key, 'after add_signal attempts %s the close/wait/forever sequence did not run to its end: %s' % (sg, l), case)
            else:
                bad_run += 1
            continue
        rej, cpan, closed, wret, fend, second = map(int, p)
        ctx.distinct.add(('close-after', e, via, tuple(sg)))
        if cpan or not closed or not wret or not fend or second:
            ctx.violation(key, 'after add_signal attempts %s (%d rejected): close() %s, is_closed() = %s, a later wait() %s, forever() %s, a second close() %s'
                          % (sg, rej, 'PANICKED' if cpan else 'returned', bool(closed), 'returned' if wret else 'DID NOT RETURN', 'ended' if fend else 'DID NOT END',
                             'PANICKED' if second else 'returned'), case)
        else:
            ctx.traces += 1
    ctx.correspondence('close-after-rejection probe ran (p_closeafter)', bad_run == 0 and rc == 0, out[-500:] if bad_run or rc else None)
    ctx.coverage['close_after_rejection_cases'] = len(cases)


def run(ctx, only=None):
    ctx.trusted_base = TB
    ctx.assumptions = ASSUME
    if not ctx.harness(['p_c12', 'ls_addsig', 'p_closeafter']):
        return
    ctx.translate(COMPONENTS)
    ctx.prove('props/C12.v')
    have_model = ctx.driver('instance', *R.all_drivers()['instance'])

    if only is not None:
        hists = [only]
    else:
        rnd = random.Random(ctx.seed * 7919 + 12)
        nrand, maxlen = (260, 40) if ctx.tier == 'quick' else (2500, 120)
        hists = fixed_histories() + [gen_history(rnd, maxlen) for _ in range(nrand)]
    ctx.log('built and proved; running %d histories on the implementation' % len(hists))
    impl = run_probe(hists)
    ctx.log('implementation done; running the extracted model')
    model = None
    if have_model:
        lines = common.run_driver('instance', [model_line(h) for h in hists])
        model = [parse_model(l, len(h)) for l, h in zip(lines, hists)]

    mismatches, found = [], {}
    for hi, (h, (recs, end)) in enumerate(zip(hists, impl)):
        if end == 'skipped':
            # (the probe stops running histories after 5 of them did not end: the hang is reported through those)
            ctx.coverage['histories_skipped_after_hangs'] = ctx.coverage.get('histories_skipped_after_hangs', 0) + 1
            continue
        ctx.evaluations += len(recs)
        for k, rec in enumerate(recs):
            op = h[k]
            ctx.distinct.add((op[0], rec['res'], bad_class(op[3]) if op[0] == 2 else None,
                              op[1] if op[0] == 1 else None, op[2] if op[0] in (1, 2) else None))
        if model is not None:
            if model[hi] is None:
                mismatches.append({'history': h, 'diff': ['model rejected the input / wrong output length']})
            else:
                d = compare(h, recs, end, model[hi])
                if d:
                    mismatches.append({'history': h, 'text': describe(h), 'diff': d[:6]})
                ctx.traces += 1
        for kind, k, text in monitor(h, recs, end):
            if kind not in found or len(h) < len(found[kind][0]):
                found[kind] = (h, k, text)
    if model is not None:
        ctx.correspondence('model run_c12 = implementation, per operation (outcome, pipe closes, open descriptors, who a delivery reaches) on %d histories' % len(hists),
                           not mismatches, mismatches[:3])
    for kind, (h, k, text) in sorted(found.items()):
        if kind == 'probe':
            ctx.correspondence('probe self-consistency', False, text)
            continue
        small = shrink(h, kind) if only is None else h
        # re-evaluate on the shrunk history for the message
        recs, end = run_probe([small])[0]
        hits = [(kd, kk, tx) for kd, kk, tx in monitor(small, recs, end) if kd == kind]
        if hits:
            _, k, text = hits[0]
        else:
            small = h
        inv = [op for op in small if op[0] == 1]
        if k < len(small) and small[k][0] in (2, 3, 4, 5) and small[k][1] < len(inv):
            inv = [inv[small[k][1]]]
        elif k < len(small) and small[k][0] == 1:
            inv = [small[k]]
        ctx.violation({'monitor': kind, 'exfiltrator': EXF[inv[0][1]] if inv else '-'},
                      '%s: %s   [history: %s]' % (kind, text, describe(small)),
                      {'history': small, 'failing_op': k, 'text': describe(small),
                       'observed': [r['raw'] for r in recs] + ['@E ' + end],
                       'replay': './check C12 --replay <this file>'})
    ctx.samples = [{'history': describe(h), 'impl': [r['raw'] for r in recs][:8], 'end': end} for h, (recs, end) in list(zip(hists, impl))[:2]]
    ctx.coverage['rule'] = ('%d fixed regression histories (3 exfiltrators x 2 constructors x 3 scenarios) + %d random histories of up to %d operations '
                            '(new with 0-3 signals, add_signal with ~30%% rejected numbers: forbidden / negative / >=128 / OS-refused 0,32,33,65..127, '
                            'clone/drop handle, drop object, raise + observation through every instance, its tracked write end and independent flags); '
                            'distinct_nontrivial = distinct (operation, outcome, rejection class, exfiltrator, constructor/handle) combinations observed'
                            % (len(fixed_histories()), len(hists) - len(fixed_histories()), 40 if ctx.tier == 'quick' else 120))
    ctx.coverage['exhaustive'] = False
    ctx.coverage['notes'] = [
        'SIGPIPE (13) is never added by the generated histories: when the object is dropped while a Handle clone lives, every wake-up '
        'send()s (MSG_DONTWAIT only, no MSG_NOSIGNAL) to a socket whose peer is closed, which raises SIGPIPE; if that same instance watches '
        'SIGPIPE its action wakes again and the handler re-enters forever (measured: new([10, 13]); handle(); drop(object); raise(10) never '
        'returns). This is outside the C12 statement (self-pipe wake-up, C13) and is reported separately.']
    ctx.coverage['histories'] = len(hists)
    if only is None:
        concurrent_add(ctx)
        close_after_rejection(ctx)
        concurrent_instances(ctx)
        import ls_iter
        if ctx.harness(['p_nested_iter']):
            # the clean-up itself with a delivery at every instruction boundary of drop(instance)
            ls_iter.instr_sweep(ctx, ls_iter.C12_KINDS, configs=ls_iter.DROP_CONFIGS, key='instruction_drop_sweep')
    ctx.coverage['outcome_histogram'] = hist_outcomes(hists, impl)


def concurrent_instances(ctx, rounds=1500):
    """instances of three threads (a signal each) created, used and dropped side by side: each one built reports its signal,
    and when all are gone the descriptors are as at the start - "every registration it made, and only those, has been
    removed" also holds when another thread's instance comes or goes at the same instant (harness/src/bin/p_c12_conc.rs)"""
    if not ctx.harness(['p_c12_conc']):
        return
    rc, out, _ = sh([common.bin_path('p_c12_conc'), str(rounds)], timeout=200)
    row = [l.split() for l in out.split('\n') if l.startswith('G ')]
    res = row[0][1:] if row else ['no-output', str(rc)]
    ctx.evaluations += 3 * rounds
    if res[0] == 'lost' and len(res) == 4:
        ctx.violation({'monitor': 'concurrent-instances'},
                      'three threads creating and dropping their own instances (one signal each, %d rounds): %s instance(s) did not report the signal raised right after '
                      'their construction, %s descriptor(s) left open when all were gone' % (rounds, res[1], res[3]),
                      {'concurrent_instances': True, 'rounds': rounds, 'result': res})
    else:
        ctx.correspondence('concurrent instances probe: %d rounds x 3 threads, nothing lost, nothing left' % rounds, res[0] == 'ok', res)
    ctx.coverage['concurrent_instances_probe'] = ' '.join(res)


def hist_outcomes(hists, impl):
    d = {}
    for h, (recs, end) in zip(hists, impl):
        for k, rec in enumerate(recs):
            key = '%s:%s' % (OPN[h[k][0]], rec['res'])
            d[key] = d.get(key, 0) + 1
        if end != 'exit:0':
            d['history-ended:' + end] = d.get('history-ended:' + end, 0) + 1
    return d


def replay(ctx, path):
    case = json.load(open(path))
    h = case.get('case', {}).get('history')
    if case.get('case', {}).get('concurrent_instances'):
        ctx.harness(['p_c12_conc'])
        rc, out, _ = sh([common.bin_path('p_c12_conc'), str(case['case']['rounds'])], timeout=200)
        print(out)
        if 'G lost' in out:
            print('REPRODUCED: instances of concurrent threads lose signals / leave registrations behind')
        return 1 if 'G ok' not in out else 0
    if case.get('case', {}).get('instr_sweep'):
        import ls_iter
        return ls_iter.instr_replay(ctx, case['case'], ls_iter.C12_KINDS)
    if h is None:
        print('replay file names no concrete input:', json.dumps(case.get('broken'), indent=1))
        return 1
    run(ctx, only=h)
    for v in ctx.violations:
        print('REPRODUCED:', v['what'])
    for b in ctx.broken:
        print('BROKEN:', b['name'])
    return 1 if ctx.violations else 0
