"""C17 - reported signal origin equals the kernel's facts, and is absent when unknown (DESIGN 5.17).

Three comparisons on every run
  (1) model vs implementation: the extracted Coq model (`run_c17`) and `Origin::extract` (called by
      hand inside a raw handler, through `SignalsInfo<WithOrigin>`, and on synthetic records) on the
      same (si_signo, si_code, si_pid, si_uid);
  (2) oracle vs kernel: siginfo/Kernel.v's cause / "fills si_pid,si_uid" per (signo, code) against
      what the running kernel delivers for every sending mechanism (ground truth: which syscall
      was used, getpid/getuid/child pid, read by an independent #[repr(C)] reader);
  (3) the property itself on the implementation (monitor): origin.signal = delivered signal, cause
      class = sending mechanism, process = Some(sender/child pid, uid) exactly when the kernel
      supplies one, None otherwise; on synthetic records: against the oracle.
"""
import json, os, random, re
import common
import registry_of_checks as R
from common import sh

COMPONENTS = ['siginfo', 'platform']
DRIVERS = {'siginfo': (['run_c17'], ['siginfo/Run.vo'])}

TB = ['Coq 8.16.1 kernel + vm_compute (finite sweep over normal forms of (signo, code), lifted to all of Z x Z by congruence lemmas); no native_compute',
      'translator/siginfo.py (consts[] rows with #ifdef resolved and macro values measured by gcc against the system headers and cross-checked with the compiled table of the real extract.c; '
      'first-match loop shape; accessors; ICause discriminants; has_process; From<ICause>; Origin::extract / Process::extract / exfiltrator skeletons)',
      'translator/plat.py + gcc + <signal.h> (si_code macro values and SIGCHLD used by the oracle)',
      'siginfo/Kernel.v: what Linux stores in siginfo_t per (signo, si_code) = ORACLE (sigaction(2), mq_notify(3)), validated against the running kernel by forked probes on every run',
      'extraction (ExtrOcamlBasic only) + ocaml/main_template.ml; harness/src/bin/p_c17.rs (forked probes, independent #[repr(C)] siginfo reader for x86_64 Linux)',
      'modelled, not verified here: transport of the siginfo_t copy through the exfiltrator channel (FIFO/loss is C06); the C ABI (uint8_t return read as repr(u8) enum)']

# cause numbering shared with p_c17.rs and siginfo/Run.v
UNKNOWN, KERNEL, USER, TKILL, QUEUE, MESGQ, EXITED, KILLED, DUMPED, TRAPPED, STOPPED, CONTINUED = range(12)

# mechanism -> list of expected deliveries (si_code macro(s), cause class, kernel supplies pid/uid)
MECH = {
    'kill_self': [(('SI_USER',), USER, True)], 'kill_pgrp': [(('SI_USER',), USER, True)], 'kill_child': [(('SI_USER',), USER, True)],
    'pipe': [(('SI_USER',), USER, True)], 'xfsz': [(('SI_USER',), USER, True)],
    'raise': [(('SI_TKILL',), TKILL, True)], 'tgkill': [(('SI_TKILL',), TKILL, True)], 'pthread_kill': [(('SI_TKILL',), TKILL, True)],
    'sigqueue_self': [(('SI_QUEUE',), QUEUE, True)], 'sigqueue_child': [(('SI_QUEUE',), QUEUE, True)],
    'mesgq': [(('SI_MESGQ',), MESGQ, True)],
    'alarm': [(('SI_KERNEL',), KERNEL, False)], 'itimer_virtual': [(('SI_KERNEL',), KERNEL, False)], 'itimer_prof': [(('SI_KERNEL',), KERNEL, False)],
    'sigio': [(('SI_KERNEL',), KERNEL, False)], 'xcpu': [(('SI_KERNEL',), KERNEL, False)],
    'timer': [(('SI_TIMER',), UNKNOWN, False)],
    'setsig': [(('POLL_IN', 'SI_SIGIO'), UNKNOWN, False)],
    'chld_exit': [(('CLD_EXITED',), EXITED, True)], 'chld_exit_uid': [(('CLD_EXITED',), EXITED, True)],
    'chld_kill': [(('CLD_KILLED',), KILLED, True)],
    'chld_dump': [(('CLD_DUMPED', 'CLD_KILLED'), None, True)],     # CLD_KILLED where core dumps are impossible
    'chld_stop_cont': [(('CLD_STOPPED',), STOPPED, True), (('CLD_CONTINUED',), CONTINUED, True), (('CLD_EXITED',), EXITED, True)],
    'chld_trap': [(('CLD_TRAPPED',), TRAPPED, True), (('CLD_KILLED',), KILLED, True)],
}
CHLD_CAUSE = {'CLD_EXITED': EXITED, 'CLD_KILLED': KILLED, 'CLD_DUMPED': DUMPED}
GENERIC = ['kill_self', 'kill_pgrp', 'kill_child', 'raise', 'tgkill', 'pthread_kill', 'sigqueue_self', 'sigqueue_child', 'timer', 'setsig', 'mesgq']
SPECIAL = [('chld_exit', 'SIGCHLD'), ('chld_kill', 'SIGCHLD'), ('chld_dump', 'SIGCHLD'), ('chld_stop_cont', 'SIGCHLD'), ('chld_trap', 'SIGCHLD'),
           ('alarm', 'SIGALRM'), ('itimer_virtual', 'SIGVTALRM'), ('itimer_prof', 'SIGPROF'), ('sigio', 'SIGIO'), ('pipe', 'SIGPIPE'), ('xfsz', 'SIGXFSZ')]
CHILD_SENDERS = ('kill_child', 'sigqueue_child', 'mesgq')
OPTIONAL_SKIP = ('needs-root', 'mq_open failed', 'mq_notify failed', 'setuid-failed', 'memfd_create failed')
OTHER_UID = 4242


def platform_values():
    """si_code macro values and signal numbers exactly as the oracle sees them (gen/Extracted_platform.v)."""
    txt = open(os.path.join(common.GEN, 'Extracted_platform.v')).read()
    v = {}
    for m in re.finditer(r'Definition c_(\w+) : Z := \(?(-?\d+)\)?\.', txt):
        v[m.group(1)] = int(m.group(2))
    for m in re.finditer(r'\("(SIG\w+)", (\d+)\)', txt):
        v[m.group(1)] = int(m.group(2))
    for m in re.finditer(r'Definition (SIGRTMIN|SIGRTMAX) : Z := (\d+)\.', txt):
        v[m.group(1)] = int(m.group(2))
    v['POLL_IN'] = 1      # <bits/siginfo-consts.h>; only used to accept what F_SETSIG delivers
    return v


def catchable(pv):
    """Signals the library lets us hook and the C library lets us install: not KILL/STOP, not the
    three fault signals the registry forbids, not the two glibc keeps for itself."""
    bad = {pv['SIGKILL'], pv['SIGSTOP'], pv['SIGILL'], pv['SIGFPE'], pv['SIGSEGV'], 32, 33}
    return [s for s in range(1, 65) if s not in bad]


def plan(ctx, pv):
    rnd = random.Random(ctx.seed)
    allsig = catchable(pv)
    quick = [pv[n] for n in ('SIGHUP', 'SIGINT', 'SIGUSR1', 'SIGUSR2', 'SIGALRM', 'SIGTERM', 'SIGCHLD', 'SIGCONT', 'SIGTSTP', 'SIGURG',
                             'SIGWINCH', 'SIGIO', 'SIGBUS')] + [pv['SIGRTMIN'], pv['SIGRTMAX']]
    quick += rnd.sample([s for s in allsig if s not in quick], 4)
    sigs = allsig if ctx.tier == 'thorough' else quick
    root = [(m, s) for s in sigs for m in GENERIC] + [(m, pv[n]) for m, n in SPECIAL] + [('chld_exit_uid', pv['SIGCHLD'])]
    if ctx.tier == 'thorough':
        root.append(('xcpu', pv['SIGXCPU']))
        other = list(root)
    else:
        other = [(m, s) for s in quick[:8] for m in ('kill_self', 'kill_child', 'raise', 'sigqueue_child', 'mesgq', 'timer')] + \
                [(m, pv[n]) for m, n in SPECIAL]
    return root, [c for c in other if c[0] != 'chld_exit_uid']


def run_real(cases, uid=None):
    """-> list of dict(mech, sig, uid, setup, outcome, nraw, niter, deliveries=[...])"""
    res = []
    B = 120
    for k in range(0, len(cases), B):
        args = [common.bin_path('p_c17'), 'real'] + (['--uid', str(uid)] if uid is not None else [])
        for m, s in cases[k:k + B]:
            args += [m, str(s)]
        rc, out, _ = sh(args, timeout=900)
        cur = []
        for l in out.split('\n'):
            p = l.split()
            if p[:1] == ['real'] and len(p) == 9:
                kv = dict(x.split('=') for x in p[4:])
                cur.append({'i': int(p[3]), 'raw': [int(x) for x in kv['raw'].split(',')], 'hand': kv['hand'], 'iter': kv['iter'],
                            'me': [int(x) for x in kv['me'].split(',')], 'peer': [int(x) for x in kv['peer'].split(',')]})
            elif p[:1] == ['case']:
                kv = dict(x.split('=', 1) for x in p[3:] if '=' in x)
                setup = l.split('setup=')[1].split(' outcome=')[0] if 'setup=' in l else '?'
                res.append({'mech': p[1], 'sig': int(p[2]), 'uid': uid, 'setup': setup, 'outcome': kv.get('outcome', '?'),
                            'nraw': int(kv.get('nraw', 0)), 'niter': int(kv.get('niter', 0)), 'deliveries': cur})
                cur = []
        if rc != 0:
            res.append({'mech': '?', 'sig': 0, 'uid': uid, 'setup': 'probe exit %d: %s' % (rc, out[-300:]), 'outcome': '?', 'nraw': 0, 'niter': 0, 'deliveries': []})
    return res


def origin_tuple(txt):
    """'10,2,123,0' / '10,0,-,-' / 'missing' -> (signal, cause, has, pid, uid)"""
    if txt == 'missing':
        return None
    a = txt.split(',')
    if a[2] == '-':
        return (int(a[0]), int(a[1]), 0, 0, 0)
    return (int(a[0]), int(a[1]), 1, int(a[2]), int(a[3]))


def model_many(inputs):
    res = common.run_driver('siginfo', ['run_c17 %d %d %d %d' % tuple(i) for i in inputs])
    out = []
    for l in res:
        a = [int(x) for x in l.split()]
        out.append({'valid': a[0], 'origin': tuple(a[1:6]), 'k_cause': a[6], 'k_fills': a[7], 'c_byte': a[8]})
    return out


def synth_inputs(ctx, pv):
    rnd = random.Random(ctx.seed * 7919 + 17)
    codes = sorted(set([pv[n] for n in ('SI_USER', 'SI_KERNEL', 'SI_QUEUE', 'SI_TIMER', 'SI_MESGQ', 'SI_ASYNCIO', 'SI_SIGIO', 'SI_TKILL',
                                         'SI_ASYNCNL', 'SI_DETHREAD', 'CLD_EXITED', 'CLD_KILLED', 'CLD_DUMPED', 'CLD_TRAPPED', 'CLD_STOPPED',
                                         'CLD_CONTINUED') if n in pv] + [7, 8, 127, 129, 255, 256, 384, -8, -128, -129, 2**31 - 1, -2**31 + 1]))
    signos = [pv['SIGCHLD'], pv['SIGUSR1'], pv['SIGSEGV'], pv['SIGIO'], pv['SIGALRM'], pv['SIGBUS'], 0, -1, 1, 16, 18, 64, 65, 2**31 - 1, -2**31 + 1]
    ins = []

    def rec(s, c):
        ins.append((s, c, rnd.choice([1, rnd.randint(2, 4194304), -rnd.randint(1, 2**31 - 1), rnd.randint(1, 2**31 - 1)]),
                    rnd.choice([0, 1000, rnd.randint(1, 2**32 - 1), 2**32 - 1])))
    for c in codes:
        for s in signos:
            rec(s, c)
    # boundary values of the process fields: a sender outside the PID namespace has pid 0, root has uid 0
    for c in codes:
        for s in signos[:6]:
            ins.append((s, c, 0, 0))
            ins.append((s, c, 0, 1000))
            ins.append((s, c, 4242, 0))
    n = 400 if ctx.tier == 'quick' else 20000
    for _ in range(n):
        k = rnd.random()
        s = rnd.choice(signos) if k < 0.4 else (rnd.randint(1, 64) if k < 0.8 else rnd.randint(-2**31 + 1, 2**31 - 1))
        k = rnd.random()
        c = rnd.choice(codes) if k < 0.5 else (rnd.randint(-70, 140) if k < 0.85 else rnd.randint(-2**31 + 1, 2**31 - 1))
        rec(s, c)
    return ins


def run_synth(ins):
    data = ''.join('%d %d %d %d\n' % i for i in ins).encode()
    rc, out, _ = sh([common.bin_path('p_c17'), 'synth'], input=data, timeout=600)
    res = {}
    for l in out.split('\n'):
        p = l.split()
        if p[:1] == ['synth'] and len(p) == 10:
            key = tuple(int(x) for x in p[1:5])
            res[key] = origin_tuple(','.join(p[6:10]))
    return rc, res


def run(ctx, only=None):
    ctx.trusted_base = TB
    ctx.assumptions = ['Linux x86_64, glibc headers: si_code values and siginfo_t layout as measured on this machine',
                       'what the kernel stores per (signo, si_code) is as in siginfo/Kernel.v (probed on every run for every mechanism available in the sandbox)',
                       'records handed to Origin::extract by hand satisfy its documented safety precondition only in so far as si_signo/si_code are set; the theorems do not need it']
    if not ctx.harness(['p_c17']):
        return
    ctx.translate(COMPONENTS)
    ctx.prove('props/C17.v')
    have_model = ctx.driver('siginfo', *R.all_drivers()['siginfo'])
    pv = platform_values()
    is_root = os.geteuid() == 0

    # ------------------------------------------------------------------ real deliveries
    if only and only.get('kind') == 'real':
        root_cases, other_cases = ([(only['mech'], only['sig'])], []) if only.get('uid') is None else ([], [(only['mech'], only['sig'])])
    elif only:
        root_cases, other_cases = [], []
    else:
        root_cases, other_cases = plan(ctx, pv)
    results = run_real(root_cases) if root_cases else []
    planned = [(m, s, None) for m, s in root_cases]
    if is_root and other_cases:
        results += run_real(other_cases, OTHER_UID)
        planned += [(m, s, OTHER_UID) for m, s in other_cases]
    skipped, not_run, mech_bad, oracle_bad, model_bad, dumped_seen = [], [], [], [], [], False
    deliveries = []
    answered = set((r['mech'], r['sig'], r['uid']) for r in results)
    not_run += [{'mech': m, 'sig': s, 'uid': u, 'why': 'no answer from the probe (crashed or timed out)'} for m, s, u in planned if (m, s, u) not in answered]
    for r in results:
        exp = MECH.get(r['mech'])
        if exp and r['mech'] in CHILD_SENDERS and r['sig'] == pv['SIGCHLD']:
            exp = exp + [(('CLD_EXITED',), EXITED, True)]      # the sending grandchild's own exit, afterwards
        tag = {'mech': r['mech'], 'sig': r['sig'], 'uid': r['uid']}
        if exp is None or r['setup'] != 'ok' or r['outcome'] != 'exit:0':
            (skipped if r['setup'].startswith(OPTIONAL_SKIP) else not_run).append(dict(tag, setup=r['setup'], outcome=r['outcome']))
            continue
        if r['nraw'] != len(exp) or r['niter'] != r['nraw']:
            not_run.append(dict(tag, why='deliveries: raw %d, iterator %d, expected %d' % (r['nraw'], r['niter'], len(exp))))
        for d in r['deliveries'][:len(exp)]:
            signo, code, w0, w1, _w2 = d['raw']
            hand, it = origin_tuple(d['hand']), origin_tuple(d['iter'])
            case = dict(tag, kind='real', delivery=d)
            names, cause, fills = exp[d['i']]
            if cause is None:
                cause = CHLD_CAUSE.get(next((n for n in names if pv.get(n) == code), ''), -1)
            codes_ok = [pv[n] for n in names if n in pv]
            dumped_seen |= (r['mech'] == 'chld_dump' and code == pv['CLD_DUMPED'])
            want = (r['sig'], cause, 1, d['peer'][0], d['peer'][1]) if fills else (r['sig'], cause, 0, 0, 0)
            # (2) the kernel did what the mechanism table and the oracle say
            if signo != r['sig']:
                # the record the library hands to its actions is not about this delivery at all: not the kernel's record
                # (e.g. the handler is no longer installed with SA_SIGINFO) - what Origin reports is built from stale memory
                ctx.evaluations += 1
                ctx.violation({'mech': r['mech'], 'sig': r['sig'], 'uid': r['uid'], 'delivery': d['i'], 'how': 'record'},
                              '%s %d: the siginfo record handed to the actions has si_signo %d, si_code %d for a delivery of signal %d; Origin by hand %r, through the exfiltrator %r, '
                              'the delivery was %r' % (r['mech'], r['sig'], signo, code, r['sig'], hand, it, want), case)
                continue
            if code not in codes_ok:
                mech_bad.append(dict(tag, why='kernel delivered signo %d code %d, expected signal %d code in %r' % (signo, code, r['sig'], codes_ok), delivery=d))
                continue
            if fills and (w0, w1) != tuple(d['peer']):
                mech_bad.append(dict(tag, why='kernel stored pid/uid %d/%d, ground truth %r' % (w0, w1, d['peer']), delivery=d))
            deliveries.append((signo, code, w0, w1, want, hand, it, case))
            ctx.distinct.add((r['mech'], r['sig'], r['uid'], d['i']))
            # (3) the property on the implementation
            for how, got in (('by-hand', hand), ('exfiltrator', it)):
                ctx.evaluations += 1
                if got != want:
                    ctx.violation({'mech': r['mech'], 'sig': r['sig'], 'uid': r['uid'], 'delivery': d['i'], 'how': how},
                                  '%s %d%s: Origin (%s) is %r (signal, cause, has process, pid, uid) but the delivery was %r; raw siginfo %r' % (
                                      r['mech'], r['sig'], '' if r['uid'] is None else ' as uid %d' % r['uid'], how, got, want, d['raw']),
                                  dict(case, expected=want, got=got, how=how))
    if have_model and deliveries:
        ms = model_many([d[:4] for d in deliveries])
        for (signo, code, w0, w1, want, hand, it, case), m in zip(deliveries, ms):
            ctx.traces += 1
            if not m['valid'] or m['origin'] != hand or m['origin'] != it:
                model_bad.append({'case': case, 'model': m})
            okc = (m['k_cause'], m['k_fills']) == (want[1], want[2])
            if not okc:
                oracle_bad.append({'case': case, 'oracle': (m['k_cause'], m['k_fills']), 'kernel': want})
    if not only or only.get('kind') == 'real':
        ctx.correspondence('every planned real-delivery probe ran and delivered (p_c17 real)', not not_run, not_run[:6])
        ctx.correspondence('running kernel = mechanism table (si_code per sending mechanism; si_pid/si_uid = sender or child, read by the independent reader)',
                           not mech_bad, mech_bad[:6])
        if have_model:
            ctx.correspondence('Kernel.v kernel_cause / kernel_fills_process = running kernel on every real delivery', not oracle_bad, oracle_bad[:6])
            ctx.correspondence('model extract = Origin::extract (by hand in the handler and through SignalsInfo<WithOrigin>) on every real delivery',
                               not model_bad, model_bad[:6])

    # ------------------------------------------------------------------ synthetic records
    if only and only.get('kind') == 'synth':
        ins = [tuple(only['input'])]
    elif only:
        ins = []
    else:
        ins = synth_inputs(ctx, pv)
    if ins:
        rc, impl = run_synth(ins)
        ok_ran = rc == 0 and all(i in impl for i in ins)
        ctx.correspondence('synthetic probes ran (p_c17 synth)', ok_ran, None if ok_ran else 'rc=%d, %d of %d answered' % (rc, len(impl), len(ins)))
        ms = model_many(ins) if have_model else []
        sbad = []
        for i, m in zip(ins, ms):
            got = impl.get(i)
            if got is None:
                continue
            ctx.traces += 1
            ctx.evaluations += 1
            ctx.distinct.add(('synth', i[0], i[1]))
            if not m['valid'] or m['origin'] != got:
                sbad.append({'input': i, 'impl': got, 'model': m})
            # property against the oracle: signal, cause, and process exactly when the kernel fills it
            want = (i[0], m['k_cause'], 1, i[2], i[3]) if m['k_fills'] else (i[0], m['k_cause'], 0, 0, 0)
            if got != want:
                ctx.violation({'synth': [i[0], i[1]]},
                              'Origin::extract on a record with si_signo=%d si_code=%d si_pid=%d si_uid=%d gives %r (signal, cause, has process, pid, uid); '
                              'the kernel\'s meaning of that record is %r' % (i[0], i[1], i[2], i[3], got, want),
                              {'kind': 'synth', 'input': list(i), 'got': got, 'expected': want})
        if have_model:
            ctx.correspondence('model extract = Origin::extract on synthetic records (every distinguished code x signals, unknown codes, random pairs)',
                               not sbad, sbad[:6])

    mechs_seen = sorted(set(k[0] for k in ctx.distinct if k[0] != 'synth'))
    ctx.samples = [{'mech': c['mech'], 'sig': c['sig'], 'uid': c['uid'], 'raw': c['delivery']['raw'], 'hand': c['delivery']['hand'], 'iter': c['delivery']['iter'],
                    'peer': c['delivery']['peer']} for (_, _, _, _, _, _, _, c) in deliveries[::max(1, len(deliveries) // 10)]][:10]
    ctx.coverage['rule'] = ('real deliveries: %d (mechanism, signal, uid) cases -> %d deliveries over mechanisms %s, as root%s; CLD_DUMPED delivered for real: %s; '
                            'skipped (unavailable here): %r; synthetic: %d records = every code the extractor or the oracle distinguishes plus unknown codes x %d signal numbers, '
                            'plus seeded random (signo, code); distinct_nontrivial = distinct (mechanism, signal, uid, delivery index) + distinct synthetic (signo, code)' % (
                                len(results), len(deliveries), mechs_seen, (' and as uid %d' % OTHER_UID) if is_root else ' only (not root: uid variants skipped)',
                                dumped_seen, skipped[:5], len(ins), 15))
    ctx.coverage['exhaustive'] = False
    ctx.coverage['skipped'] = skipped


def replay(ctx, path):
    case = json.load(open(path))
    c = case.get('case') or {}
    if c.get('kind') not in ('real', 'synth'):
        print('replay file names no concrete input:', json.dumps(case.get('broken'), indent=1))
        return 1
    run(ctx, only=c)
    for v in ctx.violations:
        print('REPRODUCED:', v['what'])
    return 1 if ctx.violations else 0
