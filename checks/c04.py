"""C04 - a pre-existing handler is chained (DESIGN 5.4)."""
import json
import common
import ls_registry as L
from c01 import COMPONENTS, DRIVERS, TB, ASSUME


def run(ctx):
    ctx.trusted_base = TB + ['harness C-ABI handlers h_plain / h_info installed with sigaction before the scenario; deliveries are simulated by calling what '
                             'sigaction(sig, NULL) reports as the current disposition']
    ctx.assumptions = ASSUME + ['nothing but the library changes signal dispositions after the initial configuration (part of the property)',
                                'the initial dispositions do not contain the library\'s own handler (no_lib)']
    if not ctx.harness(['ls_registry', 'sh_probe']):
        return
    ctx.translate(COMPONENTS)
    ctx.prove('props/C04.v')
    L.lockstep(ctx, [L.mon_c04], want=['first_reg', 'second_reg', 'unreg_vs_deliver', 'unreg_vs_2deliver'])
    L.reg_sweep(ctx, L.REG_KINDS['C04'])
    convention_probe(ctx)
    ctx.coverage['rule'] = ('previous disposition in {default, ignore, plain handler, siginfo handler} x a delivery at every boundary of a first registration '
                            '(incl. the window between sigaction and publication), of a second registration, of a concurrent first registration of another '
                            'signal; monitor: calls of the previous handler per delivery = 1 for handlers / 0 otherwise, before any action, right convention and pointers')


def convention_probe(ctx):
    """real deliveries (sigqueue with a payload) to a pre-existing three-argument handler, before and after another part of the
    library (the default-action emulation, for the signals whose default does not end the process) was used on its signal:
    it is called once per delivery and receives the kernel's info (signal number, SI_QUEUE, the payload)"""
    if not ctx.harness(['p_c04_emu']):
        return
    sigs = [17, 18, 23, 28, 20, 21, 22]
    rc, out, _ = common.sh([common.bin_path('p_c04_emu')] + [str(x) for x in sigs], timeout=120)
    rows = [l.split(' ', 2) for l in out.split('\n') if l.startswith('V ')]
    ctx.correspondence('chained-convention probe ran (p_c04_emu, %d signals)' % len(sigs), rc == 0 and len(rows) == len(sigs), out[-300:] if rc or len(rows) != len(sigs) else None)
    for _, sig, res in rows:
        ctx.evaluations += 2
        if res.strip() != 'ok':
            ctx.violation({'monitor': 'chained-convention', 'sig': int(sig)},
                          'pre-existing SA_SIGINFO handler of signal %s, taken over by the library: %s (expected one call with si_signo = the signal, si_code = SI_QUEUE, '
                          'the payload sent) - deliveries: one before and one after emulate_default_handler(%s)' % (sig, res, sig),
                          {'convention_probe': True, 'sig': int(sig), 'row': res, 'replay': 'harness/target/debug/p_c04_emu %s' % sig})
        else:
            ctx.traces += 1
    ctx.coverage['convention_probe'] = {'signals': sigs}


def replay(ctx, path):
    case = json.load(open(path))
    sc = case.get('case', {}).get('scenario')
    if case.get('case', {}).get('reg_sweep'):
        return L.reg_replay(ctx, case['case'], L.REG_KINDS['C04'])
    if case.get('case', {}).get('convention_probe'):
        ctx.harness(['p_c04_emu'])
        rc, out, _ = common.sh([common.bin_path('p_c04_emu'), str(case['case']['sig'])], timeout=60)
        print(out)
        if ' bad ' in out:
            print('REPRODUCED: the chained handler did not receive the kernel\'s info')
        return 0 if ' ok' in out else 1
    if not sc:
        print(json.dumps(case, indent=1)[:3000])
        return 1
    ctx.harness(['ls_registry'])
    s = L.from_json(sc)
    r = L.run_impl([s])[0]
    v = L.mon_c04(s, r)
    for l in r['trace']:
        print(L.pretty(l))
    for kind, idx, what in v:
        print('REPRODUCED:', what)
    return 1 if v else 0
