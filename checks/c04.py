"""C04 - a pre-existing handler is chained (DESIGN 5.4)."""
import json
import common
import ls_registry as L
from c01 import COMPONENTS, DRIVERS, TB, ASSUME


def run(ctx):
    ctx.trusted_base = TB + ['harness C-ABI handlers h_plain / h_info installed with sigaction before the scenario; deliveries are simulated by calling what '
                             'sigaction(sig, NULL) reports as the current disposition']
    ctx.assumptions = ASSUME + ['nothing but the library changes signal dispositions after the initial configuration (part of the property)',
                                'the initial dispositions do not contain the library\'s own handler (no_lib)']
    if not ctx.harness(['ls_registry', 'sh_probe']):
        return
    ctx.translate(COMPONENTS)
    ctx.prove('props/C04.v')
    L.lockstep(ctx, [L.mon_c04], want=['first_reg', 'second_reg', 'unreg_vs_deliver', 'unreg_vs_2deliver'])
    L.reg_sweep(ctx, L.REG_KINDS['C04'])
    ctx.coverage['rule'] = ('previous disposition in {default, ignore, plain handler, siginfo handler} x a delivery at every boundary of a first registration '
                            '(incl. the window between sigaction and publication), of a second registration, of a concurrent first registration of another '
                            'signal; monitor: calls of the previous handler per delivery = 1 for handlers / 0 otherwise, before any action, right convention and pointers')


def replay(ctx, path):
    case = json.load(open(path))
    sc = case.get('case', {}).get('scenario')
    if case.get('case', {}).get('reg_sweep'):
        return L.reg_replay(ctx, case['case'], L.REG_KINDS['C04'])
    if not sc:
        print(json.dumps(case, indent=1)[:3000])
        return 1
    ctx.harness(['ls_registry'])
    s = L.from_json(sc)
    r = L.run_impl([s])[0]
    v = L.mon_c04(s, r)
    for l in r['trace']:
        print(L.pretty(l))
    for kind, idx, what in v:
        print('REPRODUCED:', what)
    return 1 if v else 0
