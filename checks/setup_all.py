"""./check setup : build everything from files on disk (harness, translation, full Coq build, model drivers)."""
import os, sys
import common
import registry_of_checks as R


def main():
    ok, out = common.build_harness()
    print(out[-1500:])
    if not ok:
        print('SETUP: harness build failed')
        return 1
    res = common.translate(R.all_components())
    bad = {k: v for k, v in res.items() if v}
    if bad:
        print('SETUP: translator failures:', bad)
    common.coq_makefile()
    ok, out = common.coq_make(['all'], timeout=3000)
    print(out[-3000:])
    if not ok:
        print('SETUP: Coq build failed (individual checks will report which property is affected)')
    for comp, (fns, targets) in R.all_drivers().items():
        ok2, out2 = common.build_driver(comp, fns, targets)
        if not ok2:
            print('SETUP: driver %s failed: %s' % (comp, out2[-1500:]))
    # setup succeeds as long as the tools work; property-level failures are reported by the checks
    return 0
