"""C18 - registry calls terminate when overlapping deliveries terminate (DESIGN 5.18)."""
import json
import common
import ls_registry as L
from c01 import COMPONENTS, DRIVERS, TB, ASSUME


def run(ctx):
    ctx.trusted_base = TB
    ctx.assumptions = ASSUME + ['fair OS scheduling; finitely many deliveries (the property states this)',
                                'the pool is finite and fixed during the rounds (no further deliveries or calls arrive), as the property states']
    if not ctx.harness(['ls_registry', 'sh_probe']):
        return
    ctx.translate(COMPONENTS)
    ctx.prove('props/C18.v')
    L.lockstep(ctx, [L.mon_c18])
    L.reg_sweep(ctx, L.REG_KINDS['C18'])
    ctx.coverage['rule'] = ('lock-step scenarios incl. 2-3 concurrent mutators with deliveries; after each schedule every unfinished activity is stepped '
                            'round-robin: monitor = an activity that never returns / rounds without progress (deadlock, livelock)')


def replay(ctx, path):
    case = json.load(open(path))
    sc = case.get('case', {}).get('scenario')
    if case.get('case', {}).get('reg_sweep'):
        return L.reg_replay(ctx, case['case'], L.REG_KINDS['C18'])
    if not sc:
        print(json.dumps(case, indent=1)[:3000])
        return 1
    ctx.harness(['ls_registry'])
    s = L.from_json(sc)
    r = L.run_impl([s])[0]
    v = L.mon_c18(s, r)
    for l in r['trace']:
        print(L.pretty(l))
    for kind, idx, what in v:
        print('REPRODUCED:', what)
    return 1 if v else 0
