"""C18 - registry calls terminate when overlapping deliveries terminate (DESIGN 5.18)."""
import json
import common
import ls_registry as L
from c01 import COMPONENTS, DRIVERS, TB, ASSUME


def run(ctx):
    ctx.trusted_base = TB
    ctx.assumptions = ASSUME + ['fair OS scheduling; finitely many deliveries (the property states this)',
                                'the pool is finite and fixed during the rounds (no further deliveries or calls arrive), as the property states']
    if not ctx.harness(['ls_registry', 'sh_probe']):
        return
    ctx.translate(COMPONENTS)
    ctx.prove('props/C18.v')
    L.lockstep(ctx, [L.mon_c18])
    L.reg_sweep(ctx, L.REG_KINDS['C18'])
    panic_then_mutate(ctx)
    ctx.coverage['rule'] = ('lock-step scenarios incl. 2-3 concurrent mutators with deliveries; after each schedule every unfinished activity is stepped '
                            'round-robin: monitor = an activity that never returns / rounds without progress (deadlock, livelock)')


def panic_then_mutate(ctx):
    """"a panic in one mutator never wedges later ones", for the iterator's add / drop calls (they make their registry calls
    under the instance's own lock): C12's fixed histories - rejected additions by error and by the documented, caught panic,
    followed by further add_signal calls, handle clones and the drops - must all run to their end"""
    if not ctx.harness(['p_c12']):
        return
    import c12
    hs = c12.fixed_histories()
    try:
        outs = c12.run_probe(hs)
    except RuntimeError as e:
        ctx.correspondence('iterator add/drop after a panicking add_signal: probe ran', False, str(e)[-600:])
        return
    n = 0
    for h, (recs, end) in zip(hs, outs):
        ctx.evaluations += len(h)
        if end == 'timeout':
            n += 1
            if n <= 2:
                k = len(recs)
                ctx.violation({'monitor': 'mutator-after-panic', 'op': k},
                              'an iterator call did not return (6 s) in a history with a caught panicking add_signal before it: operation #%d %s   [history: %s]'
                              % (k, h[k] if k < len(h) else '(end)', c12.describe(h)),
                              {'history': h, 'replay': './check C12 --replay <this file>'})
        elif end != 'skipped':
            ctx.traces += 1
    ctx.coverage['panic_then_mutate_histories'] = len(hs)


def replay(ctx, path):
    case = json.load(open(path))
    if case.get('case', {}).get('history'):
        import c12
        ctx.harness(['p_c12'])
        (recs, end), = c12.run_probe([case['case']['history']])
        print(c12.describe(case['case']['history']), '->', end)
        if end == 'timeout':
            print('REPRODUCED: an iterator call after a caught panicking add_signal did not return')
        return 1 if end == 'timeout' else 0
    sc = case.get('case', {}).get('scenario')
    if case.get('case', {}).get('reg_sweep'):
        return L.reg_replay(ctx, case['case'], L.REG_KINDS['C18'])
    if not sc:
        print(json.dumps(case, indent=1)[:3000])
        return 1
    ctx.harness(['ls_registry'])
    s = L.from_json(sc)
    r = L.run_impl([s])[0]
    v = L.mon_c18(s, r)
    for l in r['trace']:
        print(L.pretty(l))
    for kind, idx, what in v:
        print('REPRODUCED:', what)
    return 1 if v else 0
