"""C06 - the channel is a 5-slot FIFO (DESIGN 5.6)."""
import common
import ls_channel as L

COMPONENTS = ['channel']
DRIVERS = {'channel': L.DRIVER}

TB = ['Coq 8.16.1 kernel; vm_compute for the exhaustive sweep over the 326 valid queue words (Word.v: sweep) and for the skeleton lemmas',
      'translator/channel.py: SLOTS/BITS/MASK, get/set and the pure expressions of enqueue/dequeue TRANSLATED to Gallina (u16 wrap at every '
      'operation) - the word lemmas are proved about the generated code; skeletons/orderings/queue roles regenerated and pinned in channel/Skeleton.v',
      'memory models: C06_fifo/_effects_ordered/_drop_only_when_full/_empty_only_when_empty - SC interleaving of shim-level operations (loads, weak '
      'CASes with spurious failures, cell accesses); C06_fifo_ra/_gives_up_on_zero_ra_partial - view-based release/acquire + relaxed semantics reading '
      'the extracted orderings (RC11-style, no (po U rf) cycles; every write to the queue words is an RMW)',
      'lock-step correspondence: cfg(sighook_verif) shim in /repo + harness/src/sched.rs + ls_channel driver; extraction (ExtrOcamlBasic) + OCaml driver',
      'modelled, not verified: Option::take, array indexing, UnsafeCell, the drop glue of [UnsafeCell<Option<T>>; 5]']
ASSUME = ['payload values are abstract (naturals); the channel never inspects them',
          'a frame = one call of send/recv; calls of one thread follow each other (a nested signal handler runs to completion inside a parked frame)']


def run(ctx):
    ctx.trusted_base, ctx.assumptions = TB, ASSUME
    if not ctx.harness(['ls_channel', 'p_nested', 'sh_probe']):
        return
    ctx.translate(COMPONENTS)
    ctx.prove('props/C06.v')
    L.lockstep(ctx, [L.mon_c06])
    L.nested_sweep(ctx, ('outcome', 'panic'))
    if ctx.tier == 'thorough':
        ctx.harness(['p_nested2'])
        L.nested2_sweep(ctx, ('outcome', 'panic'))
    L.histories(ctx, 500 if ctx.tier == 'quick' else 5000)
    # the buffer as its users see it: the info-carrying iterators' store / load around the channel (one buffer per signal),
    # a delivery at every instruction boundary of a draining consumer: nothing discarded below five outstanding, nothing
    # left sitting in the buffer while the consumer is told it is empty
    import ls_iter
    if ctx.harness(['p_nested_iter']):
        ls_iter.instr_sweep(ctx, ('LOST', 'CRASH'), configs=[('r', 'p', '-'), ('r', 'p', 's'), ('r', 'p', 'ss'), ('r', 'w', 's'), ('r', 'f', 's')], key='instruction_sweep_through_exfiltrator')
    ctx.coverage['rule_nested'] = ('instruction-level sweep (trap flag): send/recv interrupted after every instruction by a handler running '
                                   'send/recv to completion, fill 0-5; outcomes (returns, drained values, drop counts, panic, hang) against the '
                                   'outcomes of the SC model over all step boundaries')
    ctx.coverage['rule'] = ('17 scenario shapes with 2-3 activities of 1-3 operations (senders/receivers, prefilled 0-5, a send running inside the '
                            'window between the two queue operations of another send/recv); every split point of one activity against the other, '
                            'with and without injected spurious CAS failures, + random 2-preemption and random run-length schedules; final drain; '
                            'monitors on the real traces: order of successful dequeue(full) CASes vs enqueue(full) CASes, dup/loss/invented, '
                            'per-producer order, discarded only on reading empty=0 with 5 slots outstanding, None only on reading full=0 with '
                            'nothing undelivered; plus 500 random single-thread histories (<=200 ops) against a bounded FIFO of capacity 5')


def replay(ctx, path):
    import json
    case = json.load(open(path))
    if case.get('case', {}).get('instr_sweep'):
        import ls_iter
        return ls_iter.instr_replay(ctx, case['case'], ('LOST', 'CRASH'))
    return L.replay_case(ctx, path, [L.mon_c06])
