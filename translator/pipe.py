"""src/low_level/pipe.rs (+ src/iterator/backend.rs) -> coq/gen/Extracted_pipe.v      (DESIGN 4.1, 5.13)

Extracted data (everything the model coq/pipe/Model.v interprets):
  * `wake`: per `WakeMethod` arm the system call (`write` / `send`), the byte count, the flags
    (the cfg-resolved `const MSG_NOWAIT` -> libc constant -> measured value); that the result of
    the `match` is discarded (`;`, no `?`, no binding) and that there is no loop / retry;
  * `WakeFd::wake`: forwards `(self.fd, self.method)`;
  * `register_raw`: the probe call -- `getsockopt(pipe, level, opt, ..)` (ProbeSockType) or the older
    zero-length `send(pipe, .., len, flags)` (ProbeEmptySend) --, the patterns of the arm that
    chooses `WakeMethod::Send`, the operations of both arms (creation of the owning `WakeFd`,
    `set_flags()?`) in source order, and what follows the match (the closure capturing the WakeFd
    by move and calling `fd.wake()`, then `super::register(signal, action)`);
  * `set_flags`: fcntl commands, the flags or-ed in, whether each -1 result returns an error;
  * `Drop for WakeFd`: the list of operations (`libc::close(self.fd)`);
  * `register`: how the generic argument becomes a raw descriptor (`into_raw_fd` = ownership is
    transferred, `as_raw_fd` = the argument would still close it);
  * backend.rs `SelfPipeWrite::wake_readers`: the method passed to `pipe::wake`.
  * the measured libc constants the OS oracle is stated with.
Unrecognised shapes raise TranslateError.
"""
import re
from rustsrc import *


def ws(s):
    return re.sub(r'\s+', ' ', s).strip()


def resolve_const(expr, s, consts, depth=0):
    """integer literal | libc::NAME | NAME (a local const, cfg-resolved) | a | b"""
    expr = expr.strip()
    if depth > 4:
        raise TranslateError('constant resolution too deep: ' + expr)
    if '|' in expr:
        v = 0
        for p in expr.split('|'):
            v |= resolve_const(p, s, consts, depth + 1)
        return v
    m = re.match(r'^(\d+)(?:_?[iu](?:8|16|32|64|size))?$', expr)
    if m:
        return int(m.group(1))
    m = re.match(r'^(?:libc::)(\w+)$', expr)
    if m:
        if m.group(1) not in consts:
            raise TranslateError('no measured value for libc::%s' % m.group(1))
        return consts[m.group(1)]
    m = re.match(r'^(\w+)$', expr)
    if m:
        init, _ = find_const_item(s, m.group(1))
        return resolve_const(init, s, consts, depth + 1)
    raise TranslateError('cannot resolve constant expression %r' % expr)


def call_args(text, fname):
    """arguments of the single call `fname(...)` in text"""
    ms = list(re.finditer(r'\b' + re.escape(fname) + r'\s*\(', text))
    if len(ms) != 1:
        raise TranslateError('expected exactly one call of %s, found %d' % (fname, len(ms)))
    lp = ms[0].end() - 1
    rp = match_brace(text, lp, '(', ')')
    return [a.strip() for a in split_top(text[lp + 1:rp]) if a.strip()], ms[0].start(), rp


def no_loops(body, what):
    if re.search(r'\b(loop|while|for)\b', body):
        raise TranslateError('%s: loop / retry not recognised' % what)


def tr_wake(s, consts):
    # the free function, not the method WakeFd::wake
    cands = []
    for nth in range(0, 4):
        try:
            sg, bd, _ = find_fn(s, 'wake', nth=nth)
        except TranslateError:
            break
        if re.search(r'RawFd', sg):
            cands.append((sg, bd))
    if len(cands) != 1:
        raise TranslateError('free function wake: %d candidates' % len(cands))
    sig, body = cands[0]
    m = re.search(r'\(\s*(\w+)\s*:\s*RawFd\s*,\s*(\w+)\s*:\s*WakeMethod\s*\)', sig)
    if not m:
        raise TranslateError('wake: signature not recognised: ' + ws(sig))
    fdv, mv = m.group(1), m.group(2)
    no_loops(body, 'wake')
    if '?' in body or re.search(r'\b(if|return|unwrap|expect|assert|panic)\b', body):
        raise TranslateError('wake: result of the write does not seem to be ignored')
    mi = re.search(r'\bmatch\s+' + mv + r'\s*\{', body)
    if not mi:
        raise TranslateError('wake: match on the method not found')
    end = match_brace(body, mi.end() - 1)
    before = body[:mi.start()].rstrip()
    if re.search(r'(=|\breturn|\()\s*$', before):
        raise TranslateError('wake: result of the match is used')
    after = body[end + 1:].lstrip()
    if not after.startswith(';'):
        raise TranslateError('wake: the match is not a discarded statement')
    rest = after[1:].strip().strip('}').strip()
    if rest:
        raise TranslateError('wake: unexpected code after the match: ' + ws(rest)[:80])
    mb = body[mi.end():end]
    arms = {}
    for part in split_top(mb):
        part = part.strip()
        if not part:
            continue
        m = re.match(r'^WakeMethod::(\w+)\s*=>\s*(.*)$', part, re.S)
        if not m:
            raise TranslateError('wake: arm not recognised: ' + ws(part))
        name, rhs = m.group(1), m.group(2).strip()
        mw = re.match(r'^libc::write\s*\(', rhs)
        msd = re.match(r'^libc::send\s*\(', rhs)
        if mw:
            args, st, rp = call_args(rhs, 'write')
            if rhs[rp + 1:].strip() or len(args) != 3 or args[0] != fdv:
                raise TranslateError('wake: write call not recognised: ' + ws(rhs))
            arms[name] = ('SysWrite', resolve_const(args[2], s, consts), 0)
        elif msd:
            args, st, rp = call_args(rhs, 'send')
            if rhs[rp + 1:].strip() or len(args) != 4 or args[0] != fdv:
                raise TranslateError('wake: send call not recognised: ' + ws(rhs))
            arms[name] = ('SysSend', resolve_const(args[2], s, consts), resolve_const(args[3], s, consts))
        else:
            raise TranslateError('wake: arm body not recognised: ' + ws(rhs))
    if set(arms) != {'Send', 'Write'}:
        raise TranslateError('wake: arms %s' % sorted(arms))
    # the buffer must be a byte-string literal at least as long as the largest count
    md = re.search(r'let\s+(\w+)\s*=\s*b"([^"]*)"', body)
    if not md or len(md.group(2)) < max(a[1] for a in arms.values()):
        raise TranslateError('wake: data buffer not recognised or shorter than the byte count')
    return arms


def tr_method_wake(s):
    _, body, _ = find_fn(s, 'wake', owner=r'impl\s+WakeFd')
    if not re.match(r'^wake\s*\(\s*self\.fd\s*,\s*self\.method\s*\)\s*;?$', body.strip()):
        raise TranslateError('WakeFd::wake: body not recognised: ' + ws(body))


def tr_set_flags(s, consts):
    _, body, _ = find_fn(s, 'set_flags', owner=r'impl\s+WakeFd')
    no_loops(body, 'set_flags')
    fd = r'self\.(?:as_raw_fd\(\)|fd)'
    m1 = re.search(r'let\s+(\w+)\s*=\s*libc::fcntl\s*\(\s*' + fd + r'\s*,\s*([\w:]+)\s*(?:,\s*0\s*)?\)\s*;', body)
    if not m1:
        raise TranslateError('set_flags: F_GETFL call not recognised')
    var = m1.group(1)
    get_cmd = resolve_const(m1.group(2), s, consts)
    rest = body[m1.end():]
    chk = r'if\s+%s\s*==\s*-\s*1\s*\{\s*return\s+Err\s*\(\s*Error::last_os_error\(\)\s*\)\s*;\s*\}'
    mc = re.match(r'\s*' + chk % var, rest)
    get_checked = bool(mc)
    if mc:
        rest = rest[mc.end():]
    m2 = re.match(r'\s*let\s+(\w+)\s*=\s*' + var + r'\s*((?:\|\s*[\w:]+\s*)*);', rest)
    ors = []
    var2 = var
    if m2:
        var2 = m2.group(1)
        ors = [x.strip() for x in m2.group(2).split('|') if x.strip()]
        rest = rest[m2.end():]
    m3 = re.match(r'\s*if\s+libc::fcntl\s*\(\s*' + fd + r'\s*,\s*([\w:]+)\s*,\s*' + var2 + r'\s*((?:\|\s*[\w:]+\s*)*)\)\s*==\s*-\s*1\s*\{\s*return\s+Err\s*\(\s*Error::last_os_error\(\)\s*\)\s*;\s*\}', rest)
    set_checked = True
    if not m3:
        m3 = re.match(r'\s*libc::fcntl\s*\(\s*' + fd + r'\s*,\s*([\w:]+)\s*,\s*' + var2 + r'\s*((?:\|\s*[\w:]+\s*)*)\)\s*;', rest)
        set_checked = False
    if not m3:
        raise TranslateError('set_flags: F_SETFL call not recognised: ' + ws(rest)[:120])
    set_cmd = resolve_const(m3.group(1), s, consts)
    ors += [x.strip() for x in m3.group(2).split('|') if x.strip()]
    tail = rest[m3.end():]
    if not re.match(r'^[\s}]*Ok\s*\(\s*\(\s*\)\s*\)[\s}]*$', tail):
        raise TranslateError('set_flags: tail not recognised: ' + ws(tail)[:120])
    return get_cmd, get_checked, [resolve_const(o, s, consts) for o in ors], set_cmd, set_checked


def tr_drop(s):
    _, body, _ = find_fn(s, 'drop', owner=r'impl\s+Drop\s+for\s+WakeFd')
    no_loops(body, 'Drop for WakeFd')
    ops = []
    b = body
    for m in re.finditer(r'\b(?:libc::)?(\w+)\s*\(', b):
        nm = m.group(1)
        if nm in ('unsafe',):
            continue
        lp = m.end() - 1
        rp = match_brace(b, lp, '(', ')')
        arg = b[lp + 1:rp].strip()
        if nm == 'close' and arg == 'self.fd':
            ops.append('DClose')
        else:
            raise TranslateError('Drop for WakeFd: call not recognised: %s(%s)' % (nm, arg))
    if re.search(r'\b(if|match|return)\b', b):
        raise TranslateError('Drop for WakeFd: conditional close not recognised')
    return ops


def arm_ops(txt, fdvar):
    """operations of one arm of register_raw's match, in source order"""
    found = []
    for m in re.finditer(r'\bWakeFd\s*\{', txt):
        end = match_brace(txt, m.end() - 1)
        inner = txt[m.end():end]
        mf = re.search(r'\bfd\s*:\s*(\w+)', inner)
        mm = re.search(r'\bmethod\s*:\s*WakeMethod::(\w+)', inner)
        if not mf or not mm or mf.group(1) != fdvar or mm.group(1) not in ('Send', 'Write'):
            raise TranslateError('register_raw: WakeFd literal not recognised: ' + ws(inner))
        found.append((m.start(), 'RMake %s' % mm.group(1)))
    for m in re.finditer(r'\b(\w+)\s*\.\s*set_flags\s*\(\s*\)\s*(\?)?', txt):
        if not m.group(2):
            raise TranslateError('register_raw: set_flags() result not propagated with `?`')
        found.append((m.start(), 'RSetFlagsTry'))
    for m in re.finditer(r'\bregister\s*\(', txt):
        found.append((m.start(), 'RRegister'))
    other = re.sub(r'\bWakeFd\s*\{|\bWakeMethod::\w+|\bset_flags\s*\(\s*\)|\bregister\s*\(', '', txt)
    mo = re.search(r'\b(?!let\b|fd\b|method\b|pipe\b|move\b|action\b|signal\b|unsafe\b|super\b|wake\b)([a-z_]\w*)\s*(\(|!)', other)
    if mo:
        raise TranslateError('register_raw: unrecognised call %s' % mo.group(1))
    found.sort()
    return [t for _, t in found]


def tr_register_raw(s, consts):
    sig, body, _ = find_fn(s, 'register_raw')
    m = re.search(r'\(\s*(\w+)\s*:\s*c_int\s*,\s*(\w+)\s*:\s*RawFd\s*\)', sig)
    if not m:
        raise TranslateError('register_raw: signature not recognised')
    sigv, fdv = m.group(1), m.group(2)
    no_loops(body, 'register_raw')
    # optional prelude: plain `let mut x: T = <no call except size_of>;` declarations (out-parameters)
    pos = 0
    while True:
        mp = re.match(r'\s*let\s+mut\s+\w+\s*(?::\s*[\w:]+\s*)?=\s*([^;]*);', body[pos:])
        if not mp:
            break
        init = re.sub(r'std::mem::size_of\s*::\s*<[^>]*>\s*\(\s*\)', '', mp.group(1))
        if re.search(r'[\w:]+\s*\(|\?|!', init):
            raise TranslateError('register_raw: prelude declaration not recognised: ' + ws(mp.group(0)))
        pos += mp.end()
    body = body[pos:]
    m = re.match(r'\s*let\s+(\w+)\s*=\s*unsafe\s*\{\s*libc::(send|getsockopt)\s*\(', body)
    if not m:
        raise TranslateError('register_raw: probe not recognised')
    resv, pcall = m.group(1), m.group(2)
    # end of the `let res = unsafe { ... };` statement
    ub = body.index('{', m.start())
    ue = match_brace(body, ub)
    stmt_end = body.index(';', ue)
    if body[ue + 1:stmt_end].strip():
        raise TranslateError('register_raw: probe statement not recognised')
    args, st, rp = call_args(body[ub:ue + 1], pcall)
    if pcall == 'send':
        if len(args) != 4 or args[0] != fdv:
            raise TranslateError('register_raw: probe arguments not recognised: %s' % args)
        probe = 'ProbeEmptySend %s %s' % (coq_z(resolve_const(args[2], s, consts)), coq_z(resolve_const(args[3], s, consts)))
        scrut = r'\(\s*' + resv + r'\s*,\s*Error::last_os_error\(\)\s*\.kind\(\)\s*\)'
        paired = True
    else:
        if len(args) != 5 or args[0] != fdv:
            raise TranslateError('register_raw: getsockopt arguments not recognised: %s' % args)
        probe = 'ProbeSockType %s %s' % (coq_z(resolve_const(args[1], s, consts)), coq_z(resolve_const(args[2], s, consts)))
        scrut = resv
        paired = False
    rest = body[stmt_end + 1:]
    mm = re.match(r'\s*let\s+(\w+)\s*=\s*match\s*' + scrut + r'\s*\{', rest)
    if not mm:
        raise TranslateError('register_raw: match on the probe result not recognised')
    wv = mm.group(1)
    end = match_brace(rest, mm.end() - 1)
    mb = rest[mm.end():end]
    arms = [a.strip() for a in split_top(mb) if a.strip()]
    if len(arms) != 2:
        raise TranslateError('register_raw: expected two match arms, got %d' % len(arms))
    ma = re.match(r'^(.*?)=>(.*)$', arms[0], re.S)
    mbd = re.match(r'^_\s*=>(.*)$', arms[1], re.S)
    if not ma or not mbd:
        raise TranslateError('register_raw: arms not recognised')
    pats = []
    for p in ma.group(1).split('|'):
        p = re.sub(r'\s+', '', p)
        if not paired:
            # the scrutinee is the bare return value: `0`, `-1`, `_`
            p = {'0': '(0,_)', '-1': '(-1,_)', '_': '_'}.get(p, '?' + p)
        if p == '(0,_)':
            pats.append('PatZeroAny')
        elif p == '(-1,ErrorKind::WouldBlock)':
            pats.append('PatMinus1WouldBlock')
        elif p == '(-1,_)':
            pats.append('PatMinus1Any')
        elif p == '(_,_)' or p == '_':
            pats.append('PatAny')
        else:
            raise TranslateError('register_raw: pattern not recognised: ' + p)
    then_ops = arm_ops(ma.group(2), fdv)
    else_ops = arm_ops(mbd.group(1), fdv)
    # the value of each arm must be the WakeFd made in it
    tail = rest[end + 1:]
    if not tail.lstrip().startswith(';'):
        raise TranslateError('register_raw: match not terminated')
    tail = tail.lstrip()[1:]
    mt = re.match(r'^\s*let\s+(\w+)\s*=\s*move\s*\|\|\s*' + wv + r'\s*\.\s*wake\s*\(\s*\)\s*;\s*unsafe\s*\{\s*super::register\s*\(\s*' + sigv + r'\s*,\s*(\w+)\s*\)\s*\}\s*$', tail)
    if not mt or mt.group(1) != mt.group(2):
        raise TranslateError('register_raw: tail (closure moving the WakeFd, super::register) not recognised: ' + ws(tail)[:160])
    return probe, pats, then_ops, else_ops, ['RRegister']


def tr_register(s):
    sig, body, _ = find_fn(s, 'register')
    m = re.match(r'^\s*register_raw\s*\(\s*(\w+)\s*,\s*(\w+)\s*\.\s*(\w+)\s*\(\s*\)\s*\)\s*$', body)
    if not m:
        raise TranslateError('register: body not recognised: ' + ws(body))
    conv = {'into_raw_fd': 'IntoRaw', 'as_raw_fd': 'AsRaw'}.get(m.group(3))
    if not conv:
        raise TranslateError('register: conversion %s not recognised' % m.group(3))
    if conv == 'IntoRaw' and not re.search(r'\bIntoRawFd\b', sig):
        raise TranslateError('register: IntoRawFd bound missing')
    return conv


def tr_backend(repo):
    s = strip(open(repo + '/src/iterator/backend.rs').read())
    _, body, _ = find_fn(s, 'wake_readers', owner=r'impl.*SelfPipeWrite\s+for')
    m = re.match(r'^\s*pipe::wake\s*\(\s*self\.as_raw_fd\(\)\s*,\s*WakeMethod::(\w+)\s*\)\s*;?\s*$', body)
    if not m or m.group(1) not in ('Send', 'Write'):
        raise TranslateError('wake_readers: body not recognised: ' + ws(body))
    return m.group(1)


def translate(repo, consts):
    s = strip(open(repo + '/src/low_level/pipe.rs').read())
    # cut the test module off (it has its own fns)
    mt = re.search(r'#\s*\[\s*cfg\s*\(\s*test\s*\)\s*\]\s*mod\s+tests', s)
    if mt:
        s = s[:mt.start()]
    arms = tr_wake(s, consts)
    tr_method_wake(s)
    get_cmd, get_checked, ors, set_cmd, set_checked = tr_set_flags(s, consts)
    drop_ops = tr_drop(s)
    probe, pats, then_ops, else_ops, after_ops = tr_register_raw(s, consts)
    conv = tr_register(s)
    iter_method = tr_backend(repo)
    for k in ('MSG_DONTWAIT', 'O_NONBLOCK', 'F_GETFL', 'F_SETFL', 'SOL_SOCKET', 'SO_TYPE'):
        if k not in consts:
            raise TranslateError('no measured value for ' + k)
    o = []
    o.append('(* GENERATED by translator/pipe.py from src/low_level/pipe.rs and src/iterator/backend.rs -- do not edit *)')
    o.append('From Coq Require Import ZArith List.')
    o.append('Import ListNotations. Open Scope Z_scope.')
    o.append('Inductive method := Send | Write.')
    o.append('Inductive sys := SysWrite | SysSend.')
    o.append('Inductive ppat := PatZeroAny | PatMinus1WouldBlock | PatMinus1Any | PatAny.')
    o.append('Inductive rop := RMake (m : method) | RSetFlagsTry | RRegister.')
    o.append('Inductive dop := DClose.')
    o.append('Inductive conv := IntoRaw | AsRaw.')
    o.append('(* how register_raw finds out whether the descriptor is a socket: send(fd, _, len, flags) of an empty message | getsockopt(fd, level, opt) *)')
    o.append('Inductive probe := ProbeEmptySend (len flags : Z) | ProbeSockType (level opt : Z).')
    o.append('(* measured libc constants (the vocabulary of the OS oracle) *)')
    o.append('Definition os_MSG_DONTWAIT : Z := %s.' % coq_z(consts['MSG_DONTWAIT']))
    o.append('Definition os_O_NONBLOCK : Z := %s.' % coq_z(consts['O_NONBLOCK']))
    o.append('Definition os_F_GETFL : Z := %s.' % coq_z(consts['F_GETFL']))
    o.append('Definition os_F_SETFL : Z := %s.' % coq_z(consts['F_SETFL']))
    o.append('Definition os_SOL_SOCKET : Z := %s.' % coq_z(consts['SOL_SOCKET']))
    o.append('Definition os_SO_TYPE : Z := %s.' % coq_z(consts['SO_TYPE']))
    o.append('(* fn wake: (system call, byte count, flags) per arm; result discarded, no loop (else TranslateError) *)')
    o.append('Definition wake_arm (m : method) : sys * Z * Z :=')
    o.append('  match m with')
    for k in ('Send', 'Write'):
        o.append('  | %s => (%s, %s, %s)' % (k, arms[k][0], coq_z(arms[k][1]), coq_z(arms[k][2])))
    o.append('  end.')
    o.append('(* fn register_raw *)')
    o.append('Definition rr_probe : probe := %s.' % probe)
    o.append('Definition rr_send_pats : list ppat := %s.' % coq_list(pats))
    o.append('Definition rr_then : list rop := %s.' % coq_list(then_ops))
    o.append('Definition rr_else : list rop := %s.' % coq_list(else_ops))
    o.append('Definition rr_after : list rop := %s.' % coq_list(after_ops))
    o.append('(* fn WakeFd::set_flags *)')
    o.append('Definition sf_get_cmd : Z := %s.' % coq_z(get_cmd))
    o.append('Definition sf_get_checked : bool := %s.' % ('true' if get_checked else 'false'))
    o.append('Definition sf_or : list Z := %s.' % coq_list([coq_z(v) for v in ors]))
    o.append('Definition sf_set_cmd : Z := %s.' % coq_z(set_cmd))
    o.append('Definition sf_set_checked : bool := %s.' % ('true' if set_checked else 'false'))
    o.append('(* impl Drop for WakeFd *)')
    o.append('Definition drop_ops : list dop := %s.' % coq_list(drop_ops))
    o.append('(* fn register<P> *)')
    o.append('Definition register_conv : conv := %s.' % conv)
    o.append('(* iterator/backend.rs SelfPipeWrite::wake_readers *)')
    o.append('Definition iter_wake_method : method := %s.' % iter_method)
    return '\n'.join(o) + '\n'
