"""Minimal Rust source utilities for the translator (no Rust parser is available offline).

Everything here works on text with comments and string/char literals blanked out,
plus brace matching.  If an anchor cannot be found a TranslateError is raised; the
check treats that as a broken correspondence for every property anchored in the file.
"""
import re


class TranslateError(Exception):
    pass


def strip(src, keep_strings=False):
    """Blank out comments (and, unless keep_strings, string/char literal contents),
    preserving length and newlines so offsets stay valid."""
    out = []
    i, n = 0, len(src)
    cfg_end = -1          # inside #[cfg(...)] / #![cfg(...)] string literals are KEPT: target_os = "linux" decides what is compiled
    while i < n:
        c = src[i]
        if c == '#' and i > cfg_end:
            m = re.match(r'#!?\[\s*cfg\s*\(', src[i:i + 24])
            if m:
                depth, j = 0, i + src[i:].index('[')
                while j < n:
                    if src[j] == '[':
                        depth += 1
                    elif src[j] == ']':
                        depth -= 1
                        if depth == 0:
                            break
                    elif src[j] == '"':
                        j += 1
                        while j < n and src[j] != '"':
                            j += 2 if src[j] == '\\' else 1
                    j += 1
                cfg_end = j
        if src.startswith('//', i):
            j = src.find('\n', i)
            j = n if j < 0 else j
            out.append(' ' * (j - i))
            i = j
        elif src.startswith('/*', i):
            depth, j = 1, i + 2
            while j < n and depth:
                if src.startswith('/*', j):
                    depth += 1; j += 2
                elif src.startswith('*/', j):
                    depth -= 1; j += 2
                else:
                    j += 1
            out.append(''.join(ch if ch == '\n' else ' ' for ch in src[i:j]))
            i = j
        elif c == '"' or (c == 'b' and src.startswith('b"', i)) or (c == 'r' and re.match(r'r#*"', src[i:i + 8])):
            # string literal (plain, byte, raw)
            m = re.match(r'b?r(#*)"', src[i:i + 10])
            if m:
                hashes = m.group(1)
                start = i + len(m.group(0))
                end = src.find('"' + hashes, start)
                end = n if end < 0 else end
                j = end + 1 + len(hashes)
            else:
                start = i + (2 if c == 'b' else 1)
                j = start
                while j < n and src[j] != '"':
                    j += 2 if src[j] == '\\' else 1
                end = j
                j += 1
            if keep_strings or i < cfg_end:
                out.append(src[i:j])
            else:
                out.append(src[i:start] + ''.join(ch if ch == '\n' else ' ' for ch in src[start:end]) + src[end:j])
            i = j
        elif c == "'":
            # char literal or lifetime
            m = re.match(r"'(\\.[^']*|[^'\\])'", src[i:i + 12])
            if m:
                out.append("'" + ' ' * (len(m.group(0)) - 2) + "'")
                i += len(m.group(0))
            else:
                out.append(c); i += 1
        else:
            out.append(c); i += 1
    return ''.join(out)


def match_brace(s, i, open_ch='{', close_ch='}'):
    """s[i] == open_ch; return index of the matching close_ch."""
    assert s[i] == open_ch, (s[i - 20:i + 20], open_ch)
    depth = 0
    for j in range(i, len(s)):
        if s[j] == open_ch:
            depth += 1
        elif s[j] == close_ch:
            depth -= 1
            if depth == 0:
                return j
    raise TranslateError('unbalanced %s at %d' % (open_ch, i))


def cfg_eval(expr, env):
    """Evaluate a cfg predicate such as  not(any(target_os = "linux", windows)).
    env: dict with 'flags': set of bare names true, 'kv': dict key -> set(values)."""
    expr = expr.strip()
    m = re.match(r'^(\w+)\s*\((.*)\)$', expr, re.S)
    if m and m.group(1) in ('not', 'any', 'all'):
        args = split_top(m.group(2))
        vals = [cfg_eval(a, env) for a in args if a.strip()]
        if m.group(1) == 'not':
            if len(vals) != 1:
                raise TranslateError('cfg not() arity: ' + expr)
            return not vals[0]
        return any(vals) if m.group(1) == 'any' else all(vals)
    m = re.match(r'^(\w+)\s*=\s*"([^"]*)"$', expr)
    if m:
        return m.group(2) in env['kv'].get(m.group(1), set())
    if re.match(r'^\w+$', expr):
        return expr in env['flags']
    raise TranslateError('cannot evaluate cfg: ' + expr)


LINUX_X86_64 = {
    'flags': {'unix'},
    'kv': {'target_os': {'linux'}, 'target_pointer_width': {'64'}, 'target_arch': {'x86_64'},
           'target_family': {'unix'}, 'target_env': {'gnu'}, 'feature': {'channel', 'iterator', 'extended-siginfo', 'extended-siginfo-raw'}},
}


def split_top(s, sep=','):
    """split on sep at nesting depth 0 of () [] {} and outside strings"""
    parts, depth, cur, instr = [], 0, [], False
    i = 0
    while i < len(s):
        ch = s[i]
        if instr:
            cur.append(ch)
            if ch == '\\':
                cur.append(s[i + 1]); i += 1
            elif ch == '"':
                instr = False
        elif ch == '"':
            instr = True; cur.append(ch)
        elif ch in '([{':
            depth += 1; cur.append(ch)
        elif ch in ')]}':
            depth -= 1; cur.append(ch)
        elif ch == sep and depth == 0:
            parts.append(''.join(cur)); cur = []
        else:
            cur.append(ch)
        i += 1
    parts.append(''.join(cur))
    return parts


def find_fn(stripped, name, owner=None, nth=0, cfg_env=LINUX_X86_64):
    """Return (sig_text, body_text, body_start_offset) of function `name`.
    owner: regex that must match the header of the enclosing impl/trait block, e.g.
    r'impl.*Drop for ReadGuard'.  Functions whose preceding #[cfg(..)] attributes are
    false for cfg_env are skipped."""
    cands = []
    for m in re.finditer(r'\bfn\s+' + re.escape(name) + r'\b', stripped):
        # find body start: first '{' after the signature at paren depth 0 (skip where clauses)
        i = m.end()
        depth = 0
        while i < len(stripped):
            ch = stripped[i]
            if ch in '(<[':
                depth += 1
            elif ch in ')>]':
                if ch == '>' and stripped[i - 1] == '-':
                    pass
                else:
                    depth -= 1
            elif ch == '{' and depth <= 0:
                break
            elif ch == ';' and depth <= 0:
                i = -1
                break
            i += 1
        if i < 0 or i >= len(stripped):
            continue
        end = match_brace(stripped, i)
        if not attrs_enabled(stripped, m.start(), cfg_env):
            continue
        if owner == '':
            # a free function: not inside an impl / trait / mod block
            if enclosing_header(stripped, m.start()) is not None:
                continue
        elif owner is not None:
            hdr = enclosing_header(stripped, m.start())
            if hdr is None or not re.search(owner, hdr, re.S):
                continue
        cands.append((stripped[m.start():i], stripped[i + 1:end], i + 1))
    if len(cands) <= nth:
        raise TranslateError('function %s (owner %s) not found' % (name, owner))
    return cands[nth]


def attrs_enabled(stripped, pos, cfg_env):
    """Look at the attributes immediately preceding the item starting at pos
    (skipping `pub`, `unsafe`, `extern "C"`, `pub(crate)` words)."""
    j = pos
    # walk back over the item's qualifiers on the same logical header
    head = stripped[:j]
    # collect attribute blocks directly above
    ok = True
    while True:
        head = head.rstrip()
        m = re.search(r'(pub(\s*\([^)]*\))?|unsafe|extern\s*"[^"]*"|extern|const|async)$', head)
        if m:
            head = head[:m.start()]
            continue
        if head.endswith(']'):
            # find matching '#['
            depth = 0
            k = len(head) - 1
            while k >= 0:
                if head[k] == ']':
                    depth += 1
                elif head[k] == '[':
                    depth -= 1
                    if depth == 0:
                        break
                k -= 1
            if k >= 1 and head[k - 1] == '#':
                attr = head[k + 1:len(head) - 1].strip()
                mm = re.match(r'^cfg\s*\((.*)\)$', attr, re.S)
                if mm and not cfg_eval(mm.group(1), cfg_env):
                    ok = False
                head = head[:k - 1]
                continue
        break
    return ok


def enclosing_header(stripped, pos):
    """Header text (from previous ';' or '}' to the '{') of the innermost block enclosing pos
    that starts with impl/trait/mod."""
    depth = 0
    i = pos - 1
    while i >= 0:
        ch = stripped[i]
        if ch == '}':
            depth += 1
        elif ch == '{':
            if depth == 0:
                # header
                k = i - 1
                while k >= 0 and stripped[k] not in ';}':
                    k -= 1
                hdr = stripped[k + 1:i].strip()
                if re.search(r'\b(impl|trait|mod)\b', hdr):
                    return hdr
                # else an enclosing fn/closure etc: keep going outwards
            else:
                depth -= 1
        i -= 1
    return None


def find_const_item(stripped, name, cfg_env=LINUX_X86_64):
    """Return the initialiser text of `const NAME: T = <init>;` enabled for cfg_env."""
    for m in re.finditer(r'\bconst\s+' + re.escape(name) + r'\s*:\s*([^=]+)=', stripped):
        if not attrs_enabled(stripped, m.start(), cfg_env):
            continue
        i = m.end()
        depth = 0
        j = i
        while j < len(stripped):
            ch = stripped[j]
            if ch in '([{':
                depth += 1
            elif ch in ')]}':
                depth -= 1
            elif ch == ';' and depth == 0:
                break
            j += 1
        return stripped[i:j], i
    raise TranslateError('const %s not found' % name)


def coq_string(s):
    return '"' + s.replace('"', '""') + '"'


def coq_z(n):
    return '(%d)' % n if n < 0 else '%d' % n


def coq_list(items):
    return '[' + '; '.join(items) + ']'


# ------------------------------------------------------------------------------------------
# structural skeletons
ATOMIC_METHODS = ['load', 'store', 'swap', 'fetch_add', 'fetch_sub', 'compare_exchange_weak', 'compare_exchange']


def norm(s):
    return re.sub(r'\s+', ' ', s).strip()


def skeleton(body, extra_ops=(), aliases=True, keep_question=False):
    """Ordered list of strings describing the synchronisation-relevant structure of a function
    body (comments/strings already stripped):  atomic operations with their orderings
    ("self.generation.load(SeqCst)"), further call patterns given by `extra_ops`
    (list of (regex, label)), and control markers ("if COND {", "while COND {", "else {", "}")
    for the blocks that contain at least one of them."""
    alias = {}
    if aliases:
        for m in re.finditer(r'\blet\s+(?:mut\s+)?(\w+)\s*=\s*&\s*(?:mut\s+)?([^;{}]+);', body):
            alias[m.group(1)] = norm(m.group(2))
    op_rx = re.compile(r'((?:[A-Za-z_][\w]*)(?:\s*\.\s*\w+|\s*\[[^\]]*\])*)\s*\.\s*(' + '|'.join(ATOMIC_METHODS) + r')\s*\(')
    kw_rx = re.compile(r'\b(if|while|for|match|loop|else)\b')
    toks = []   # (kind, text) kind in 'op','open','close'
    i, n = 0, len(body)
    extra = [(re.compile(rx), lab) for rx, lab in extra_ops]
    while i < n:
        ch = body[i]
        if ch == '}':
            toks.append(('close', '}')); i += 1; continue
        if ch == '{':
            toks.append(('open', '{')); i += 1; continue
        if ch == '?' and keep_question:
            toks.append(('op', '?')); i += 1; continue
        m = kw_rx.match(body, i)
        if m and (i == 0 or not (body[i - 1].isalnum() or body[i - 1] == '_')):
            kw = m.group(1)
            # find the '{' that opens the block (paren/bracket depth 0)
            j, depth = m.end(), 0
            while j < n:
                c = body[j]
                if c in '([':
                    depth += 1
                elif c in ')]':
                    depth -= 1
                elif c == '{' and depth == 0:
                    break
                elif c == ';' and depth == 0:
                    j = -1
                    break
                j += 1
            if j is not None and 0 <= j < n:
                cond = norm(body[m.end():j])
                if kw == 'else' and cond.startswith('if'):
                    # "else if ..." : let the `if` be handled next
                    toks.append(('else', 'else'))
                    i = m.end()
                    continue
                # ops inside the condition itself (e.g. `while recv(..) > 0`) come first
                inner = skeleton_ops(body[m.end():j], op_rx, extra, alias)
                toks.extend(('op', t) for t in inner)
                toks.append(('open', norm(kw + ' ' + cond) + ' {'))
                i = j + 1
                continue
        m = op_rx.match(body, i)
        if m and (i == 0 or not (body[i - 1].isalnum() or body[i - 1] in '_.')):
            close = match_brace(body, m.end() - 1, '(', ')')
            args = body[m.end():close]
            ords = re.findall(r'Ordering::(\w+)', args)
            recv = norm(m.group(1)).replace(' ', '')
            head = re.match(r'^(\w+)(.*)$', recv)
            if head and head.group(1) in alias and head.group(1) != 'self':
                recv = alias[head.group(1)].replace(' ', '') + head.group(2)
            toks.append(('op', '%s.%s(%s)' % (recv, m.group(2), ','.join(ords))))
            # nested ops inside the argument list are rare; skip to after '('
            i = m.end()
            continue
        hit = None
        for rx, lab in extra:
            mm = rx.match(body, i)
            if mm and (i == 0 or not (body[i - 1].isalnum() or body[i - 1] == '_')):
                hit = (mm, lab)
                break
        if hit:
            mm, lab = hit
            toks.append(('op', mm.expand(lab) if '\\' in lab else lab))
            i = mm.end()
            continue
        i += 1
    # prune blocks without ops; drop anonymous braces
    def build(pos):
        items = []
        while pos < len(toks):
            k, t = toks[pos]
            if k == 'close':
                return items, pos + 1
            if k == 'open':
                sub, pos2 = build(pos + 1)
                items.append((t, sub))
                pos = pos2
            elif k == 'else':
                items.append(('else', None)); pos += 1
            else:
                items.append((t, None)); pos += 1
        return items, pos
    tree, _ = build(0)

    def has_op(items):
        return any((sub is None and t != 'else') or (sub is not None and has_op(sub)) for t, sub in items)

    def flat(items):
        out = []
        prev_if_kept = False
        pending_else = False
        for t, sub in items:
            if sub is None:
                if t == 'else':
                    pending_else = True
                    continue
                out.append(t); prev_if_kept = False; pending_else = False
            else:
                if t == '{':
                    out.extend(flat(sub)); pending_else = False
                elif has_op(sub):
                    label = ('else ' + t) if pending_else else t
                    out.append(label); out.extend(flat(sub)); out.append('}')
                    pending_else = False
                else:
                    pending_else = False
        return out
    return flat(tree)


def skeleton_ops(text, op_rx, extra, alias):
    out = []
    for m in op_rx.finditer(text):
        close = match_brace(text, m.end() - 1, '(', ')')
        ords = re.findall(r'Ordering::(\w+)', text[m.end():close])
        out.append('%s.%s(%s)' % (norm(m.group(1)).replace(' ', ''), m.group(2), ','.join(ords)))
    for rx, lab in extra:
        for mm in rx.finditer(text):
            out.append(mm.expand(lab) if '\\' in lab else lab)
    return out


def coq_string_list(name, items):
    return 'Definition %s : list string :=\n  %s.' % (name, coq_list([coq_string(x) for x in items]))


def cfg_filter(body, cfg_env=LINUX_X86_64):
    """Remove, from a (comment/string-stripped) function body, every statement, block, match arm or
    nested item that carries a `#[cfg(..)]` attribute which is false for cfg_env; attributes that
    are true (and non-cfg attributes) are dropped, their item stays."""
    out = []
    i, n = 0, len(body)
    while i < n:
        if body[i] == '#' and i + 1 < n and body[i + 1] == '[':
            rb = match_brace(body, i + 1, '[', ']')
            attr = body[i + 2:rb].strip()
            mm = re.match(r'^cfg\s*\((.*)\)$', attr, re.S)
            j = rb + 1
            if mm and not cfg_eval(mm.group(1), cfg_env):
                # skip further attributes of the same item, then the item itself
                while True:
                    k = j
                    while k < n and body[k].isspace():
                        k += 1
                    if k + 1 < n and body[k] == '#' and body[k + 1] == '[':
                        j = match_brace(body, k + 1, '[', ']') + 1
                        continue
                    break
                depth = 0
                while j < n:
                    c = body[j]
                    if c in '([':
                        depth += 1
                    elif c in ')]':
                        depth -= 1
                    elif c == '{' and depth == 0:
                        j = match_brace(body, j) + 1
                        # `expr {..}` may be followed by `else {..}` or be a match arm ending in ','
                        k = j
                        while k < n and body[k].isspace():
                            k += 1
                        if body.startswith('else', k):
                            j = k + 4
                            continue
                        if k < n and body[k] in ',;':
                            j = k + 1
                        break
                    elif c in ';,' and depth == 0:
                        j += 1
                        break
                    elif c == '}' and depth == 0:
                        break
                    j += 1
                i = j
                continue
            i = j
            continue
        out.append(body[i])
        i += 1
    return ''.join(out)


RUST_KEYWORDS = {'if', 'while', 'for', 'match', 'loop', 'return', 'fn', 'let', 'unsafe', 'move', 'in', 'as', 'else', 'Some', 'None', 'Ok', 'Err'}


def all_calls(body):
    """Every call in textual order: path or method name followed by '(' (macros `name!(` included
    with their '!'); keywords and the Option/Result constructors are left out.  Early exits are part
    of the list too: `return`, `break`, `continue` and the `?` operator (a function that gives up
    early where it used to go on does not call anything new)."""
    res = []
    rx = re.compile(r'((?:[A-Za-z_]\w*\s*::\s*)*[A-Za-z_]\w*)\s*(!?)\s*\(|\b(return|break|continue)\b|(\?)')
    for m in rx.finditer(body):
        if m.group(3):
            res.append(m.group(3))
            continue
        if m.group(4):
            res.append('?')
            continue
        name = re.sub(r'\s+', '', m.group(1))
        last = name.split('::')[-1]
        if last in RUST_KEYWORDS and not m.group(2):
            if last == 'return':
                res.append('return')
            continue
        pre = body[:m.start()].rstrip()
        res.append(('.' if pre.endswith('.') else '') + name + m.group(2))
    return res
