"""Complete call lists of the modelled functions -> coq/gen/Extracted_calls_<component>.v

For every function a model is written against, the ordered list of ALL calls in its body (paths,
methods, macros) after removing what is compiled out on this target (`cfg_filter`, which also drops
the cfg(sighook_verif) hook lines).  coq/<component>/Calls.v (committed) states each list literally
and proves it by reflexivity, so a call that is added, dropped or replaced in modelled code breaks
an obligation of every property of that component even where the model-specific translator only
looks for the operations it knows.  A function that cannot be found is a TranslateError.

SPEC: component -> [(label, file, function, owner regex | None, nth)]"""
import os, re
from rustsrc import *

REG = 'signal-hook-registry/src/lib.rs'
HL = 'signal-hook-registry/src/half_lock.rs'
BK = 'src/iterator/backend.rs'
IT = 'src/iterator/mod.rs'
EX = 'src/iterator/exfiltrator/mod.rs'
RAW = 'src/iterator/exfiltrator/raw.rs'
ORG = 'src/iterator/exfiltrator/origin.rs'
CH = 'src/low_level/channel.rs'
PIPE = 'src/low_level/pipe.rs'
FLAG = 'src/flag.rs'
LL = 'src/low_level/mod.rs'
SI = 'src/low_level/siginfo.rs'
DET = 'src/low_level/signal_details.rs'
TOK = 'signal-hook-tokio/src/lib.rs'
ASY = 'signal-hook-async-std/src/lib.rs'
MIO = 'signal-hook-mio/src/lib.rs'
MIO_OWNER = r'impl<E:\s*Exfiltrator>\s+SignalsInfo'
MIO_SRC = r'impl\s+Source\s+for\s+Signals'

REGISTRY_FNS = [
    ('slot_new', REG, 'new', r'impl\s+Slot', 0),
    ('prev_detect', REG, 'detect', r'impl\s+Prev', 0),
    ('prev_execute', REG, 'execute', r'impl\s+Prev', 0),
    ('global_get', REG, 'get', r'impl\s+GlobalData', 0),
    ('global_ensure', REG, 'ensure', r'impl\s+GlobalData', 0),
    ('handler', REG, 'handler', None, 0),
    ('register', REG, 'register', None, 0),
    ('register_sigaction', REG, 'register_sigaction', None, 0),
    ('register_sigaction_impl', REG, 'register_sigaction_impl', None, 0),
    ('register_signal_unchecked', REG, 'register_signal_unchecked', None, 0),
    ('register_unchecked', REG, 'register_unchecked', None, 0),
    ('register_unchecked_impl', REG, 'register_unchecked_impl', None, 0),
    ('unregister', REG, 'unregister', None, 0),
    ('unregister_signal', REG, 'unregister_signal', None, 0),
]
HALFLOCK_FNS = [
    ('readguard_drop', HL, 'drop', r'Drop\s+for\s+ReadGuard', 0),
    ('writeguard_store', HL, 'store', r'impl.*WriteGuard', 0),
    ('halflock_new', HL, 'new', r'impl<T>\s+HalfLock', 0),
    ('read', HL, 'read', r'impl<T>\s+HalfLock', 0),
    ('update_seen', HL, 'update_seen', r'impl<T>\s+HalfLock', 0),
    ('write_barrier', HL, 'write_barrier', r'impl<T>\s+HalfLock', 0),
    ('write', HL, 'write', r'impl<T>\s+HalfLock', 0),
    ('halflock_drop', HL, 'drop', r'Drop\s+for\s+HalfLock', 0),
]
ITER_FNS = [
    ('wake_readers', BK, 'wake_readers', r'impl.*SelfPipeWrite\s+for', 0),
    ('deliverystate_drop', BK, 'drop', r'Drop\s+for\s+DeliveryState', 0),
    ('pending_new', BK, 'new', r'impl<E: Exfiltrator>\s+PendingSignals', 0),
    ('pending_add_signal', BK, 'add_signal', r'AddSignal\s+for\s+PendingSignals', 0),
    ('handle_add_signal', BK, 'add_signal', r'impl\s+Handle', 0),
    ('close', BK, 'close', r'impl\s+Handle', 0),
    ('is_closed', BK, 'is_closed', r'impl\s+Handle', 0),
    ('with_pipe', BK, 'with_pipe', None, 0),
    ('flush', BK, 'flush', None, 0),
    ('pending', BK, 'pending', r'SignalDelivery', 0),
    ('poll_pending', BK, 'poll_pending', None, 0),
    ('pending_next', BK, 'next', r'Iterator\s+for\s+Pending', 0),
    ('iterator_new', BK, 'new', r'SignalIterator', 0),
    ('poll_signal', BK, 'poll_signal', None, 0),
    ('has_signals', IT, 'has_signals', None, 0),
    ('wait', IT, 'wait', None, 0),
    ('forever_next', IT, 'next', r'Iterator\s+for\s+Forever', 0),
    ('signalonly_store', EX, 'store', r'Exfiltrator\s+for\s+SignalOnly', 0),
    ('signalonly_load', EX, 'load', r'Exfiltrator\s+for\s+SignalOnly', 0),
    ('raw_store', RAW, 'store', r'Exfiltrator\s+for\s+WithRawSiginfo', 0),
    ('raw_load', RAW, 'load', r'Exfiltrator\s+for\s+WithRawSiginfo', 0),
    ('raw_init', RAW, 'init', r'Exfiltrator\s+for\s+WithRawSiginfo', 0),
    ('origin_store', ORG, 'store', None, 0),
    ('origin_load', ORG, 'load', None, 0),
    ('origin_init', ORG, 'init', None, 0),
]
SPEC = {
    'registry': REGISTRY_FNS + HALFLOCK_FNS,
    'halflock': HALFLOCK_FNS,
    'seqreg': REGISTRY_FNS,
    'channel': [('get', CH, 'get', None, 0), ('set', CH, 'set', None, 0), ('enqueue', CH, 'enqueue', None, 0), ('dequeue', CH, 'dequeue', None, 0),
                ('new', CH, 'new', r'impl<T>\s+Channel', 0), ('default', CH, 'default', r'Default\s+for\s+Channel', 0), ('send', CH, 'send', None, 0), ('recv', CH, 'recv', None, 0),
                ('raw_store', RAW, 'store', r'Exfiltrator\s+for\s+WithRawSiginfo', 0), ('raw_load', RAW, 'load', r'Exfiltrator\s+for\s+WithRawSiginfo', 0),
                ('raw_init', RAW, 'init', r'Exfiltrator\s+for\s+WithRawSiginfo', 0)],
    'iter': ITER_FNS + [('tokio_has_signals', TOK, 'has_signals', None, 0), ('tokio_poll_next', TOK, 'poll_next', None, 0),
                        ('asyncstd_has_signals', ASY, 'has_signals', None, 0), ('asyncstd_poll_next', ASY, 'poll_next', None, 0),
                        ('mio_new', MIO, 'new', MIO_OWNER, 0), ('mio_with_exfiltrator', MIO, 'with_exfiltrator', MIO_OWNER, 0),
                        ('mio_add_signal', MIO, 'add_signal', MIO_OWNER, 0), ('mio_pending', MIO, 'pending', MIO_OWNER, 0),
                        ('mio_register', MIO, 'register', MIO_SRC, 0), ('mio_reregister', MIO, 'reregister', MIO_SRC, 0),
                        ('mio_deregister', MIO, 'deregister', MIO_SRC, 0)],
    'instance': ITER_FNS,
    'pipe': [('wake', PIPE, 'wake', '', 0), ('wakefd_wake', PIPE, 'wake', r'impl\s+WakeFd', 0), ('wakefd_set_flags', PIPE, 'set_flags', None, 0),
             ('wakefd_drop', PIPE, 'drop', r'Drop\s+for\s+WakeFd', 0), ('register_raw', PIPE, 'register_raw', None, 0), ('register', PIPE, 'register', None, 0)],
    'entry': REGISTRY_FNS[6:] + [('pipe_register_raw', PIPE, 'register_raw', None, 0), ('pipe_register', PIPE, 'register', None, 0),
                                 ('flag_register', FLAG, 'register', None, 0), ('handle_add_signal', BK, 'add_signal', r'impl\s+Handle', 0),
                                 ('pending_add_signal', BK, 'add_signal', r'AddSignal\s+for\s+PendingSignals', 0), ('with_pipe', BK, 'with_pipe', None, 0)],
    'flag': [('register', FLAG, 'register', None, 0), ('register_usize', FLAG, 'register_usize', None, 0),
             ('register_conditional_shutdown', FLAG, 'register_conditional_shutdown', None, 0),
             ('register_conditional_default', FLAG, 'register_conditional_default', None, 0),
             ('ll_exit', LL, 'exit', None, 0), ('ll_abort', LL, 'abort', None, 0), ('ll_raise', LL, 'raise', None, 0), ('handler', REG, 'handler', None, 0)],
    'siginfo': [('process_extract', SI, 'extract', r'impl\s+Process', 0), ('origin_extract', SI, 'extract', r'impl\s+Origin', 0),
                ('has_process', SI, 'has_process', None, 0)],
}


def lists_for(repo, comp):
    cache = {}
    out = []
    for label, path, fn, owner, nth in SPEC[comp]:
        if path not in cache:
            cache[path] = strip(open(os.path.join(repo, path)).read())
        try:
            _, body, _ = find_fn(cache[path], fn, owner=owner, nth=nth)
        except TranslateError:
            if owner is None:
                raise
            raise TranslateError('function %s (in %s, owner %s) not found' % (fn, path, owner))
        out.append((label, all_calls(cfg_filter(body))))
    return out


def translate(repo, comp):
    o = ['(* GENERATED by translator/calls.py -- do not edit *)', 'From Coq Require Import List String.',
         'Import ListNotations. Open Scope string_scope.']
    for label, calls in lists_for(repo, comp):
        o.append(coq_string_list('calls_%s' % label, calls))
    return '\n'.join(o) + '\n'


def bootstrap(repo, comp):
    """text of coq/<comp>/Calls.v stating the lists as they are now (run once by hand, then committed)"""
    o = ['(** Complete call lists of the functions component [%s] is modelled on, as they were when the' % comp,
         '    model was written (translator/calls.py extracts the current ones on every run).  A lemma that',
         '    fails names the function whose calls changed: re-read it, adapt the model if needed, then',
         '    restate the list. *)',
         'From Coq Require Import List String.', 'From SH Require Import gen.Extracted_calls_%s.' % comp,
         'Import ListNotations. Open Scope string_scope.', '']
    for label, calls in lists_for(repo, comp):
        o.append('Lemma calls_%s_ok : calls_%s =\n  %s.\nProof. reflexivity. Qed.\n' % (label, label, coq_list([coq_string(c) for c in calls])))
    return '\n'.join(o)


if __name__ == '__main__':
    import sys
    repo = sys.argv[1]
    for comp in sys.argv[2:]:
        for label, calls in lists_for(repo, comp):
            print(comp, label, calls)
