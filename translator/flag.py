"""src/flag.rs, src/low_level/mod.rs, signal-hook-registry/src/lib.rs -> coq/gen/Extracted_flag.v

Extracted (DESIGN 4.1, 5.15):
  * for each of the four registration functions of flag.rs: the parameter list, which parameter
    is passed to `low_level::register` as the signal, whether the `signal_name` pre-check is
    made before registering, and the body of the registered closure as a list of statements
      SStore var operand ordering                     `var.store(operand, Ordering::X)`
      SIfLoad var ordering negated [calls]            `if [!]var.load(Ordering::X) { calls }`
    with calls  CExit operand  (`low_level::exit(..)`)  /  CEmulateDefault operand
    (`low_level::emulate_default_handler(..)`, result ignored);
  * low_level/mod.rs: `register`/`unregister` are the registry's, the libc function `exit`
    calls and its argument, the libc functions `raise` and `abort` call;
  * registry lib.rs: the call chain register -> register_sigaction_impl ->
    register_unchecked_impl, how an action id is chosen (`ActionId(sigdata.next_id)`, then
    `next_id += k`), the initial `next_id`, the container of a slot's actions and the derive(Ord)
    on its key, the dispatcher skeleton (`prev.execute` before the loop over
    `slot.actions.values()`, optional `.rev()`), what `unregister` removes.

Anything that is not of these shapes raises TranslateError.
"""
import re
from rustsrc import *

ORDERINGS = ('Relaxed', 'Acquire', 'Release', 'AcqRel', 'SeqCst')
FUNCS = ['register', 'register_usize', 'register_conditional_shutdown', 'register_conditional_default']


def params_of(sig_text):
    lp = sig_text.index('(')
    rp = match_brace(sig_text, lp, '(', ')')
    out = []
    for p in split_top(sig_text[lp + 1:rp]):
        p = p.strip()
        if not p:
            continue
        m = re.match(r'^(?:mut\s+)?(\w+)\s*:\s*(.+)$', p, re.S)
        if not m:
            raise TranslateError('parameter not recognised: %r' % p)
        out.append((m.group(1), re.sub(r'\s+', '', m.group(2))))
    return out


def top_statements(block):
    """split a block body into statements at depth 0: `...;` or `if ... { ... }` / `unsafe { ... }` blocks."""
    stmts, i, n = [], 0, len(block)
    cur_start = 0
    depth = 0
    while i < n:
        ch = block[i]
        if ch in '([':
            depth += 1
        elif ch in ')]':
            depth -= 1
        elif ch == '{' and depth == 0:
            j = match_brace(block, i)
            head = block[cur_start:i].strip()
            # a block that ends a statement without `;` (if / unsafe / plain block), unless it is
            # part of an expression that continues (closure body followed by `;`)
            k = j + 1
            while k < n and block[k] in ' \t\r\n':
                k += 1
            if re.match(r'^(if\b|unsafe$|$)', head) and not (k < n and block[k] in ';.?)'):
                if k < n and block.startswith('else', k):
                    raise TranslateError('else branch not recognised: %r' % block[cur_start:k + 4].strip())
                stmts.append(block[cur_start:j + 1].strip())
                cur_start = j + 1
            i = j
        elif ch == ';' and depth == 0:
            stmts.append(block[cur_start:i].strip())
            cur_start = i + 1
        i += 1
    tail = block[cur_start:].strip()
    if tail:
        stmts.append(tail)
    return [s for s in stmts if s]


def operand(txt, params):
    txt = txt.strip()
    if txt == 'true':
        return 'OTrue'
    if txt == 'false':
        return 'OFalse'
    if re.match(r'^\d+$', txt):
        return '(OLit %s)' % txt
    if re.match(r'^-\s*\d+$', txt):
        return '(OLit (%s))' % txt.replace(' ', '')
    if txt in [p for p, _ in params]:
        return '(OParam %s)' % coq_string(txt)
    raise TranslateError('operand not recognised: %r' % txt)


def ordering(txt):
    m = re.match(r'^(?:(?:atomic\s*::\s*)?Ordering\s*::\s*)?(\w+)$', txt.strip())
    if not m or m.group(1) not in ORDERINGS:
        raise TranslateError('memory ordering not recognised: %r' % txt)
    return m.group(1)


def captured(var, params):
    if var not in [p for p, _ in params]:
        raise TranslateError('closure uses %r which is not a parameter' % var)
    return coq_string(var)


def parse_call(stmt, params):
    s = stmt.strip()
    m = re.match(r'^(?:low_level\s*::\s*)exit\s*\((.*)\)$', s, re.S)
    if m:
        return '(CExit %s)' % operand(m.group(1), params)
    m = re.match(r'^(?:let\s+_\s*=\s*)?(?:low_level\s*::\s*)emulate_default_handler\s*\((.*)\)$', s, re.S)
    if m:
        return '(CEmulateDefault %s)' % operand(m.group(1), params)
    raise TranslateError('call inside conditional not recognised: %r' % s)


def parse_action_stmt(stmt, params):
    s = stmt.strip()
    m = re.match(r'^(\w+)\s*\.\s*store\s*\((.*)\)$', s, re.S)
    if m:
        args = split_top(m.group(2))
        if len(args) != 2:
            raise TranslateError('store arity: %r' % s)
        return '(SStore %s %s %s)' % (captured(m.group(1), params), operand(args[0], params), ordering(args[1]))
    m = re.match(r'^if\s+(!?)\s*(\w+)\s*\.\s*load\s*\(([^()]*)\)\s*\{(.*)\}$', s, re.S)
    if m:
        calls = [parse_call(c, params) for c in top_statements(m.group(4))]
        return '(SIfLoad %s %s %s %s)' % (captured(m.group(2), params), ordering(m.group(3)),
                                         'true' if m.group(1) else 'false', coq_list(calls))
    raise TranslateError('statement of the action closure not recognised: %r' % s)


def parse_closure(expr, params):
    e = expr.strip()
    m = re.match(r'^(?:move\s+)?\|\s*\|\s*(.*)$', e, re.S)
    if not m:
        raise TranslateError('action is not a closure without arguments: %r' % e[:80])
    body = m.group(1).strip()
    if body.startswith('{'):
        end = match_brace(body, 0)
        if body[end + 1:].strip():
            raise TranslateError('text after closure block: %r' % body[end + 1:])
        stmts = top_statements(body[1:end])
    else:
        stmts = [body]
    return [parse_action_stmt(st, params) for st in stmts]


def parse_flag_fn(s, name):
    sig_text, body, _ = find_fn(s, name)
    params = params_of(sig_text)
    stmts = top_statements(body)
    precheck = False
    lets = {}
    reg = None
    for st in stmts:
        st1 = st
        m = re.match(r'^unsafe\s*\{(.*)\}$', st1, re.S)
        if m:
            inner = top_statements(m.group(1))
            if len(inner) != 1:
                raise TranslateError('%s: unsafe block with %d statements' % (name, len(inner)))
            st1 = inner[0]
        m = re.match(r'^let\s+(\w+)\s*=\s*(.*)$', st1, re.S)
        if m and reg is None:
            lets[m.group(1)] = m.group(2)
            continue
        m = re.match(r'^low_level\s*::\s*signal_name\s*\(\s*(\w+)\s*\)\s*\.\s*ok_or_else\s*\(.*\)\s*\?$', st1, re.S)
        if m and reg is None and not lets:
            precheck = m.group(1)
            continue
        m = re.match(r'^low_level\s*::\s*register\s*\((.*)\)$', st1, re.S)
        if m and reg is None:
            reg = split_top(m.group(1))
            continue
        raise TranslateError('%s: statement not recognised: %r' % (name, st))
    if reg is None or len(reg) != 2:
        raise TranslateError('%s: low_level::register(signal, action) not found' % name)
    sigparam = reg[0].strip()
    if sigparam not in [p for p, _ in params]:
        raise TranslateError('%s: registered signal %r is not a parameter' % (name, sigparam))
    if precheck and precheck != sigparam:
        raise TranslateError('%s: signal_name pre-check on %r, registration on %r' % (name, precheck, sigparam))
    act = reg[1].strip()
    if re.match(r'^\w+$', act):
        if act not in lets:
            raise TranslateError('%s: action %r is not a local closure' % (name, act))
        act = lets.pop(act)
    if lets:
        raise TranslateError('%s: unused let bindings %r' % (name, sorted(lets)))
    body_desc = parse_closure(act, params)
    return {'name': name, 'params': params, 'sigparam': sigparam, 'precheck': bool(precheck), 'body': body_desc}


LIBC_EXIT = {'_exit': 'Libc_underscore_exit', '_Exit': 'Libc_underscore_Exit', 'exit': 'Libc_exit'}


def single_libc_call(s, fn):
    sig_text, body, _ = find_fn(s, fn)
    calls = re.findall(r'\blibc\s*::\s*(\w+)\s*\(([^()]*)\)', body)
    other = re.findall(r'\b(?!libc\b)(\w+)\s*(?:::\s*\w+\s*)*\(', re.sub(r'\blibc\s*::\s*\w+\s*\(', '(', body))
    other = [o for o in other if o not in ('Err', 'Ok', 'Error', 'last_os_error', 'unsafe')]
    if len(calls) != 1:
        raise TranslateError('low_level::%s: expected exactly one libc call, found %r' % (fn, calls))
    return calls[0][0], calls[0][1].strip(), [p for p, _ in params_of(sig_text)], other


def translate(repo, consts):
    # ---------------------------------------------------------------- flag.rs
    s = strip(open(repo + '/src/flag.rs').read())
    fns = [parse_flag_fn(s, n) for n in FUNCS]

    # ---------------------------------------------------------------- low_level/mod.rs
    ll = strip(open(repo + '/src/low_level/mod.rs').read())
    if not re.search(r'pub\s+use\s+signal_hook_registry\s*::\s*\{[^}]*\bregister\b[^}]*\}', ll) or \
       not re.search(r'pub\s+use\s+signal_hook_registry\s*::\s*\{[^}]*\bunregister\b[^}]*\}', ll):
        raise TranslateError('low_level::{register, unregister} are not re-exports of signal_hook_registry')
    if not re.search(r'pub\s+use\s+self\s*::\s*signal_details\s*::\s*\{[^}]*\bemulate_default_handler\b[^}]*\}', ll):
        raise TranslateError('low_level::emulate_default_handler is not signal_details::emulate_default_handler')
    ex_fn, ex_arg, ex_params, ex_other = single_libc_call(ll, 'exit')
    if ex_fn not in LIBC_EXIT:
        raise TranslateError('low_level::exit calls libc::%s' % ex_fn)
    if ex_params != [ex_arg] or ex_other:
        raise TranslateError('low_level::exit: argument %r of libc::%s is not the status parameter %r (or extra calls %r)' % (ex_arg, ex_fn, ex_params, ex_other))
    ra_fn, ra_arg, ra_params, _ = single_libc_call(ll, 'raise')
    if ra_params != [ra_arg]:
        raise TranslateError('low_level::raise does not pass its parameter on')
    ab_fn, ab_arg, _, _ = single_libc_call(ll, 'abort')

    # ---------------------------------------------------------------- registry lib.rs
    rg = strip(open(repo + '/signal-hook-registry/src/lib.rs').read())
    # call chain
    _, b, _ = find_fn(rg, 'register')
    if not re.match(r'^\s*register_sigaction_impl\s*\(\s*signal\s*,\s*move\s*\|\s*_\s*:\s*&_\s*\|\s*action\s*\(\s*\)\s*\)\s*$', b):
        raise TranslateError('registry::register body not recognised: %r' % b.strip())
    _, b, _ = find_fn(rg, 'register_sigaction_impl')
    st = top_statements(b)
    if len(st) != 2 or not st[0].startswith('assert!') or not re.match(r'^register_unchecked_impl\s*\(\s*signal\s*,\s*action\s*\)$', st[1]):
        raise TranslateError('registry::register_sigaction_impl body not recognised')
    # key type and container
    m = re.search(r'#\s*\[\s*derive\s*\(([^)]*)\)\s*\]\s*struct\s+ActionId\s*\(\s*(\w+)\s*\)\s*;', rg)
    if not m:
        raise TranslateError('struct ActionId not found')
    derives = [d.strip() for d in m.group(1).split(',')]
    if 'Ord' not in derives or 'PartialOrd' not in derives or not re.match(r'^[ui](8|16|32|64|128|size)$', m.group(2)):
        raise TranslateError('ActionId is not a derive(Ord) integer newtype')
    key_ty = m.group(2)
    m = re.search(r'struct\s+Slot\s*\{', rg)
    if not m:
        raise TranslateError('struct Slot not found')
    slot_body = rg[m.end():match_brace(rg, m.end() - 1)]
    m = re.search(r'\bactions\s*:\s*(\w+)\s*<\s*ActionId\s*,', slot_body)
    if not m:
        raise TranslateError('Slot::actions not keyed by ActionId')
    container = m.group(1)
    if container != 'BTreeMap':
        raise TranslateError('Slot::actions is a %s: iteration order is not determined by the ids' % container)
    # id assignment
    _, b, _ = find_fn(rg, 'register_unchecked_impl')
    m_id = re.search(r'let\s+id\s*=\s*ActionId\s*\(\s*sigdata\s*\.\s*next_id\s*\)\s*;', b)
    m_inc = re.search(r'sigdata\s*\.\s*next_id\s*(\+=|-=)\s*(\d+)\s*;', b)
    if not m_id or not m_inc:
        raise TranslateError('register_unchecked_impl: id assignment not recognised')
    if len(re.findall(r'next_id', b)) != 2:
        raise TranslateError('register_unchecked_impl: next_id used in an unrecognised way')
    id_before_inc = m_id.start() < m_inc.start()
    id_step = int(m_inc.group(2)) * (1 if m_inc.group(1) == '+=' else -1)
    inserts = re.findall(r'actions\s*\.\s*insert\s*\(\s*(\w+)\s*,\s*(\w+)\s*\)', b)
    if len(inserts) != 2 or any(i != ('id', 'action') for i in inserts):
        raise TranslateError('register_unchecked_impl: actions.insert(id, action) in both arms expected, found %r' % inserts)
    m_store = re.search(r'lock\s*\.\s*store\s*\(\s*sigdata\s*\)', b)
    m_ret = re.search(r'Ok\s*\(\s*SigId\s*\{\s*signal\s*,\s*action\s*:\s*id\s*\}\s*\)', b)
    if not m_store or not m_ret or not (m_inc.start() < m_store.start() < m_ret.start()):
        raise TranslateError('register_unchecked_impl: publish / result not recognised')
    _, b, _ = find_fn(rg, 'ensure')
    m = re.search(r'\bnext_id\s*:\s*(\d+)', b)
    if not m:
        raise TranslateError('initial next_id not found')
    id_init = int(m.group(1))
    # dispatcher
    _, b, _ = find_fn(rg, 'handler')
    m_slot = re.search(r'if\s+let\s+Some\s*\(\s*(?:ref\s+)?slot\s*\)\s*=\s*sigdata\s*\.\s*signals\s*\.\s*get\s*\(\s*&\s*sig\s*\)', b)
    m_prev = re.search(r'slot\s*\.\s*prev\s*\.\s*execute\s*\(', b)
    m_loop = re.search(r'for\s+action\s+in\s+slot\s*\.\s*actions\s*\.\s*values\s*\(\s*\)\s*((?:\.\s*rev\s*\(\s*\)\s*)?)\{', b)
    if not m_slot or not m_prev or not m_loop:
        raise TranslateError('handler: slot lookup / prev.execute / loop over slot.actions.values() not recognised')
    if len(re.findall(r'\bfor\b', b)) != 1:
        raise TranslateError('handler: more than one loop')
    loop_body = b[m_loop.end():match_brace(b, m_loop.end() - 1)].strip()
    if not re.match(r'^action\s*\(\s*\w+\s*\)\s*;$', loop_body):
        raise TranslateError('handler: loop body not recognised: %r' % loop_body)
    if not (m_slot.start() < m_prev.start() < m_loop.start()):
        raise TranslateError('handler: prev.execute is not before the action loop')
    order = 'Descending' if m_loop.group(1).strip() else 'Ascending'
    # unregister
    _, b, _ = find_fn(rg, 'unregister')
    if not re.search(r'signals\s*\.\s*get_mut\s*\(\s*&\s*id\s*\.\s*signal\s*\)', b) or \
       not re.search(r'replace\s*=\s*slot\s*\.\s*actions\s*\.\s*remove\s*\(\s*&\s*id\s*\.\s*action\s*\)\s*\.\s*is_some\s*\(\s*\)', b) or \
       not re.search(r'if\s+replace\s*\{\s*lock\s*\.\s*store\s*\(\s*sigdata\s*\)\s*;\s*\}', b):
        raise TranslateError('unregister body not recognised')

    # ---------------------------------------------------------------- output
    o = []
    o.append('(* GENERATED by translator/flag.py from src/flag.rs, src/low_level/mod.rs and')
    o.append('   signal-hook-registry/src/lib.rs -- do not edit *)')
    o.append('From Coq Require Import ZArith List String.')
    o.append('Import ListNotations. Open Scope Z_scope. Open Scope string_scope.')
    o.append('Inductive ordering := Relaxed | Acquire | Release | AcqRel | SeqCst.')
    o.append('Inductive operand := OTrue | OFalse | OLit (z : Z) | OParam (name : string).')
    o.append('Inductive call := CExit (arg : operand) | CEmulateDefault (arg : operand).')
    o.append('Inductive stmt :=')
    o.append('| SStore (var : string) (val : operand) (ord : ordering)')
    o.append('| SIfLoad (var : string) (ord : ordering) (negated : bool) (body : list call).')
    o.append('Record fn_desc := { fd_params : list string; fd_signal : string; fd_precheck_signal_name : bool; fd_body : list stmt }.')
    for f in fns:
        o.append('(* params of flag::%s : %s *)' % (f['name'], ', '.join('%s: %s' % p for p in f['params'])))
        o.append('Definition fn_%s : fn_desc :=' % f['name'])
        o.append('  {| fd_params := %s; fd_signal := %s; fd_precheck_signal_name := %s;' % (
            coq_list([coq_string(p) for p, _ in f['params']]), coq_string(f['sigparam']), 'true' if f['precheck'] else 'false'))
        o.append('     fd_body := %s |}.' % coq_list(f['body']))
    o.append('Inductive libc_exit_fn := Libc_underscore_exit | Libc_underscore_Exit | Libc_exit.')
    o.append('Definition exit_libc_fn : libc_exit_fn := %s.   (* low_level::exit(status) = libc::%s(status) *)' % (LIBC_EXIT[ex_fn], ex_fn))
    o.append('Definition raise_libc_fn : string := %s.' % coq_string(ra_fn))
    o.append('Definition abort_libc_fn : string := %s.' % coq_string(ab_fn))
    o.append('Definition register_chain : list string := ["low_level::register"; "signal_hook_registry::register"; "register_sigaction_impl"; "register_unchecked_impl"].')
    o.append('Inductive iter_order := Ascending | Descending.')
    o.append('Inductive dispatch_step := DLookupSlot | DPrevExecute | DForEachAction (o : iter_order).')
    o.append('Definition dispatch_skeleton : list dispatch_step := [DLookupSlot; DPrevExecute; DForEachAction %s].' % order)
    o.append('Definition actions_container : string := %s.   (* Slot::actions : %s<ActionId(%s), _>, key order derived *)' % (coq_string(container), container, key_ty))
    o.append('Definition id_init : Z := %s.' % coq_z(id_init))
    o.append('Definition id_step : Z := %s.' % coq_z(id_step))
    o.append('Definition id_taken_before_step : bool := %s.' % ('true' if id_before_inc else 'false'))
    return '\n'.join(o) + '\n'
