"""src/low_level/siginfo.rs + src/low_level/extract.c (+ exfiltrator/origin.rs, raw.rs)
-> coq/gen/Extracted_siginfo.v

Extracted (data only):
  C side   * `struct Const` field order/types, the rows of `consts[]` with the #ifdef/#ifndef
             around them resolved by gcc against the system headers, every macro's numeric VALUE
             measured by compiling a small C program at check time, cross-checked against a dump
             of the table of the real extract.c (compiled by #include-ing it);
           * the shape of `sighook_signal_cause` (for i = 0 .. len: first row with
             native == si_code && (signal == WILDCARD || signal == si_signo) returns its
             translated; afterwards return DEFAULT): wildcard, default and the two siginfo
             members are emitted; any other shape is a TranslateError;
           * the siginfo member each accessor (`sighook_signal_pid/uid`) returns.
  Rust side * `enum ICause` (repr, discriminants), `has_process` (cfg(not(macos)) variant) per
             variant, `From<ICause> for Cause` arms + wildcard arm, the enums Cause/Sent/Chld
             (generated as Inductives), which accessor feeds `pid` / `uid` in `Process::extract`,
             the skeleton of `Origin::extract`, the extern "C" signatures;
           * `WithOrigin::{store,load}` and `WithRawSiginfo::{store,load}` skeletons.
"""
import os, re, shutil, subprocess, tempfile
from rustsrc import *

BUILD = os.path.join(os.path.dirname(os.path.dirname(os.path.abspath(__file__))), 'build')


def nows(t):
    return re.sub(r'\s+', '', t)


# ------------------------------------------------------------------------------------------ C
def c_function(s, name):
    m = re.search(r'\b(\w+)\s+' + name + r'\s*\(\s*const\s+siginfo_t\s*\*\s*info\s*\)\s*\{', s)
    if not m:
        raise TranslateError('extract.c: function %s(const siginfo_t *info) not found' % name)
    ob = m.end() - 1
    return m.group(1), s[ob + 1:match_brace(s, ob)]


def parse_c(path):
    src = open(path).read()
    s = strip(src)
    includes = re.findall(r'(?m)^\s*#\s*include\s*(<[^>]+>)', s)
    # struct Const
    m = re.search(r'\bstruct\s+Const\s*\{', s)
    if not m:
        raise TranslateError('extract.c: struct Const not found')
    body = s[m.end():match_brace(s, m.end() - 1)]
    fields = [tuple(x.split()) for x in body.split(';') if x.strip()]
    if [f[-1] for f in fields] != ['native', 'signal', 'translated'] or any(len(f) != 2 for f in fields):
        raise TranslateError('extract.c: struct Const fields are %r' % (fields,))
    ftypes = [f[0] for f in fields]
    if ftypes[:2] != ['int', 'int'] or ftypes[2] not in ('uint8_t', 'unsigned char'):
        raise TranslateError('extract.c: struct Const field types are %r' % (ftypes,))
    # consts[]
    m = re.search(r'\bstruct\s+Const\s+consts\s*\[\s*\]\s*=\s*\{', s)
    if not m:
        raise TranslateError('extract.c: consts[] not found')
    tbl = s[m.end():match_brace(s, m.end() - 1)]
    rows = []          # (native token, signal token, translated token, [conditions])
    cond = []          # stack of (macro, wanted_defined)
    for line in tbl.split('\n'):
        line = line.strip()
        if not line:
            continue
        mm = re.match(r'^#\s*(ifdef|ifndef)\s+(\w+)\s*$', line)
        if mm:
            cond.append((mm.group(2), mm.group(1) == 'ifdef'))
            continue
        mm = re.match(r'^#\s*if\s+(!?)\s*defined\s*\(?\s*(\w+)\s*\)?\s*$', line)
        if mm:
            cond.append((mm.group(2), mm.group(1) == ''))
            continue
        if re.match(r'^#\s*else\s*$', line):
            if not cond:
                raise TranslateError('extract.c: #else without #if in consts[]')
            cond[-1] = (cond[-1][0], not cond[-1][1])
            continue
        if re.match(r'^#\s*endif\s*$', line):
            if not cond:
                raise TranslateError('extract.c: #endif without #if in consts[]')
            cond.pop()
            continue
        if line.startswith('#'):
            raise TranslateError('extract.c: unsupported preprocessor line in consts[]: %r' % line)
        found = False
        for mm in re.finditer(r'\{\s*([\w-]+)\s*,\s*([\w-]+)\s*,\s*([\w-]+)\s*,?\s*\}\s*,?', line):
            rows.append((mm.group(1), mm.group(2), mm.group(3), list(cond)))
            found = True
        if not found or re.sub(r'\{[^}]*\}\s*,?', '', line).strip():
            raise TranslateError('extract.c: unrecognised consts[] line %r' % line)
    if cond:
        raise TranslateError('extract.c: unbalanced #if in consts[]')
    if not rows:
        raise TranslateError('extract.c: consts[] is empty')
    # sighook_signal_cause
    rty, body = c_function(s, 'sighook_signal_cause')
    if rty not in ('uint8_t',):
        raise TranslateError('extract.c: sighook_signal_cause returns %s' % rty)
    b = nows(body)
    shape = (r'^constsize_tconst_len=sizeofconsts/sizeof\*consts;size_ti;'
             r'for\(i=0;i<const_len;i\+\+\)\{'
             r'if\(consts\[i\]\.native==info->(\w+)&&\(consts\[i\]\.signal==(-?\d+)\|\|consts\[i\]\.signal==info->(\w+)\)\)'
             r'\{returnconsts\[i\]\.translated;\}\}'
             r'return(-?\d+);$')
    mm = re.match(shape, b)
    if not mm:
        raise TranslateError('extract.c: sighook_signal_cause does not have the expected first-match loop shape: %s' % b)
    code_field, wildcard, signo_field, default = mm.group(1), int(mm.group(2)), mm.group(3), int(mm.group(4))
    acc = {}
    for fn, ty in (('sighook_signal_pid', 'pid_t'), ('sighook_signal_uid', 'uid_t')):
        rty, body = c_function(s, fn)
        if rty != ty:
            raise TranslateError('extract.c: %s returns %s' % (fn, rty))
        mm = re.match(r'^returninfo->(\w+);$', nows(body))
        if not mm:
            raise TranslateError('extract.c: %s is not a plain member read: %s' % (fn, nows(body)))
        acc[fn] = mm.group(1)
    return dict(includes=includes, rows=rows, translated_type=ftypes[2], code_field=code_field, wildcard=wildcard,
                signo_field=signo_field, default=default, accessors=acc)


def measure_c(path, info):
    """Compile against the system headers: (1) every macro named in consts[] or in an #ifdef:
    defined? value?; (2) the real file's compiled table."""
    macros = []
    for nat, sig, tr, cond in info['rows']:
        for t in (nat, sig, tr):
            if re.match(r'^[A-Za-z_]\w*$', t) and t not in macros:
                macros.append(t)
        for mname, _ in cond:
            if mname not in macros:
                macros.append(mname)
    os.makedirs(BUILD, exist_ok=True)
    d = tempfile.mkdtemp(prefix='siginfo_', dir=BUILD)
    try:
        c1 = os.path.join(d, 'macros.c')
        with open(c1, 'w') as f:
            for inc in info['includes']:
                f.write('#include %s\n' % inc)
            f.write('#include <stdio.h>\nint main(void){\n')
            for mname in macros:
                f.write('#ifdef %s\n printf("%s 1 %%lld\\n", (long long)(%s));\n#else\n printf("%s 0 0\\n");\n#endif\n' % (mname, mname, mname, mname))
            f.write('return 0;}\n')
        subprocess.check_output(['gcc', '-o', os.path.join(d, 'macros'), c1], stderr=subprocess.STDOUT)
        out = subprocess.check_output([os.path.join(d, 'macros')]).decode()
        vals = {}
        for l in out.strip().split('\n'):
            n, dfn, v = l.split()
            vals[n] = (dfn == '1', int(v))
        c2 = os.path.join(d, 'table.c')
        with open(c2, 'w') as f:
            f.write('#include "%s"\n#include <stdio.h>\n' % os.path.abspath(path))
            f.write('int main(void){ size_t i; for (i = 0; i < sizeof consts / sizeof *consts; i++)\n'
                    ' printf("%d %d %d\\n", consts[i].native, consts[i].signal, (int)consts[i].translated);\n'
                    ' printf("sizes %d %d\\n", (int)sizeof(consts[0].translated), (int)sizeof(int)); return 0;}\n')
        subprocess.check_output(['gcc', '-o', os.path.join(d, 'table'), c2], stderr=subprocess.STDOUT)
        out = subprocess.check_output([os.path.join(d, 'table')]).decode().strip().split('\n')
        table = [tuple(int(x) for x in l.split()) for l in out[:-1]]
        sizes = [int(x) for x in out[-1].split()[1:]]
    except subprocess.CalledProcessError as ex:
        raise TranslateError('gcc failed on extract.c measurement: %s' % (ex.output or b'').decode('utf-8', 'replace')[-800:])
    finally:
        shutil.rmtree(d, ignore_errors=True)
    return vals, table, sizes


def tok_value(t, vals):
    if re.match(r'^-?\d+$', t):
        return int(t)
    if t not in vals or not vals[t][0]:
        raise TranslateError('extract.c: macro %s used in an enabled consts[] row is not defined by the headers' % t)
    return vals[t][1]


# --------------------------------------------------------------------------------------- Rust
def parse_enum(s, name):
    m = re.search(r'\benum\s+' + name + r'\s*\{', s)
    if not m:
        raise TranslateError('siginfo.rs: enum %s not found' % name)
    body = s[m.end():match_brace(s, m.end() - 1)]
    # attributes directly above
    head = s[:m.start()]
    attrs = []
    while True:
        head = head.rstrip()
        head = re.sub(r'(pub(\s*\([^)]*\))?)$', '', head).rstrip()
        if head.endswith(']'):
            k = head.rfind('#[')
            attrs.append(nows(head[k:]))
            head = head[:k]
        else:
            break
    variants = []
    for part in split_top(body):
        part = part.strip()
        if not part:
            continue
        mm = re.match(r'^(\w+)\s*(?:\(\s*(\w+)\s*\))?\s*(?:=\s*(-?\d+))?$', part)
        if not mm:
            raise TranslateError('siginfo.rs: enum %s: unrecognised variant %r' % (name, part))
        variants.append((mm.group(1), mm.group(2), None if mm.group(3) is None else int(mm.group(3))))
    return variants, attrs


def match_arms(body, scrutinee):
    m = re.search(r'\bmatch\s+' + scrutinee + r'\s*\{', body)
    if not m:
        raise TranslateError('siginfo.rs: `match %s` not found' % scrutinee)
    inner = body[m.end():match_brace(body, m.end() - 1)]
    arms = []
    for part in split_top(inner):
        part = part.strip()
        if not part:
            continue
        if '=>' not in part:
            raise TranslateError('siginfo.rs: match arm without => : %r' % part)
        pat, rhs = part.split('=>', 1)
        arms.append(([p.strip() for p in pat.split('|')], rhs.strip()))
    return arms


def parse_rust(repo):
    s = strip(open(repo + '/src/low_level/siginfo.rs').read())
    r = {}
    ic, attrs = parse_enum(s, 'ICause')
    if '#[repr(u8)]' not in attrs:
        raise TranslateError('siginfo.rs: enum ICause is not #[repr(u8)]: %r' % attrs)
    if any(p is not None or d is None for _, p, d in ic):
        raise TranslateError('siginfo.rs: ICause variants must be fieldless with explicit discriminants')
    r['icause'] = [(n, d) for n, _, d in ic]
    names = [n for n, _ in r['icause']]
    r['sent'] = [n for n, p, d in parse_enum(s, 'Sent')[0]]
    r['chld'] = [n for n, p, d in parse_enum(s, 'Chld')[0]]
    r['cause'] = [(n, p) for n, p, d in parse_enum(s, 'Cause')[0]]
    for n, p in r['cause']:
        if p not in (None, 'Sent', 'Chld'):
            raise TranslateError('siginfo.rs: Cause::%s carries %s' % (n, p))
    # has_process (the variant enabled for this target)
    _, body, _ = find_fn(s, 'has_process', owner=r'impl\s+ICause')
    hp = {}
    wild = None
    if re.match(r'^(true|false)$', body.strip()):
        wild = body.strip() == 'true'
    else:
        for pats, rhs in match_arms(body, 'self'):
            if rhs not in ('true', 'false'):
                raise TranslateError('siginfo.rs: has_process arm value %r' % rhs)
            for p in pats:
                p = re.sub(r'^ICause::', '', p)
                if p == '_':
                    if wild is None:
                        wild = rhs == 'true'
                elif p in names:
                    hp.setdefault(p, rhs == 'true')
                else:
                    raise TranslateError('siginfo.rs: has_process pattern %r' % p)
    for n in names:
        if n not in hp:
            if wild is None:
                raise TranslateError('siginfo.rs: has_process does not cover %s' % n)
            hp[n] = wild
    r['has_process'] = [(n, hp[n]) for n in names]
    # From<ICause> for Cause
    _, body, _ = find_fn(s, 'from', owner=r'impl\s+From\s*<\s*ICause\s*>\s+for\s+Cause')
    arms, default = [], None

    def cause_term(t):
        mm = re.match(r'^Cause::(\w+)(?:\(\s*(\w+)::(\w+)\s*\))?$', t)
        if not mm:
            raise TranslateError('siginfo.rs: From<ICause>: value %r' % t)
        v, pt, pv = mm.groups()
        decl = dict(r['cause'])
        if v not in decl or decl[v] != pt or (pt == 'Sent' and pv not in r['sent']) or (pt == 'Chld' and pv not in r['chld']):
            raise TranslateError('siginfo.rs: From<ICause>: value %r does not fit the enums' % t)
        return 'C_%s' % v if pt is None else '(C_%s %s_%s)' % (v, {'Sent': 'S', 'Chld': 'H'}[pt], pv)

    seen = set()
    for pats, rhs in match_arms(body, 'c'):
        for p in pats:
            if p == '_':
                if default is None:
                    default = cause_term(rhs)
                continue
            mm = re.match(r'^ICause::(\w+)$', p)
            if not mm or mm.group(1) not in names:
                raise TranslateError('siginfo.rs: From<ICause>: pattern %r' % p)
            if default is None and mm.group(1) not in seen:
                seen.add(mm.group(1))
                arms.append((mm.group(1), cause_term(rhs)))
    if default is None:
        missing = [n for n in names if n not in seen]
        if missing:
            raise TranslateError('siginfo.rs: From<ICause> does not cover %r' % missing)
        default = 'C_Unknown'
    r['from_arms'], r['from_default'] = arms, default
    # extern "C"
    ext = {}
    for mm in re.finditer(r'\bfn\s+(sighook_\w+)\s*\(\s*info\s*:\s*&\s*siginfo_t\s*\)\s*->\s*(\w+)\s*;', s):
        ext[mm.group(1)] = mm.group(2)
    r['extern'] = ext
    # Process::extract
    _, body, _ = find_fn(s, 'extract', owner=r'impl\s+Process')
    mm = re.match(r'^Self\{pid:(\w+)\(info\),uid:(\w+)\(info\),?\}$', nows(body))
    if not mm:
        raise TranslateError('siginfo.rs: Process::extract not recognised: %s' % nows(body))
    r['pid_fn'], r['uid_fn'] = mm.group(1), mm.group(2)
    # Origin::extract
    _, body, _ = find_fn(s, 'extract', owner=r'impl\s+Origin')
    b = nows(body)
    shape = (r'^letcause=(\w+)\(info\);'
             r'letprocess=ifcause\.(\w+)\(\)\{'
             r'letprocess=Process::extract\(info\);'
             r'ifcfg!\(target_os=""\)&&process\.pid==0&&process\.uid==0\{None\}else\{Some\(process\)\}'
             r'\}else\{None\};'
             r'letsignal=info\.(\w+);'
             r'Origin\{cause:cause\.into\(\),signal,process,?\}$')
    mm = re.match(shape, b)
    if not mm:
        raise TranslateError('siginfo.rs: Origin::extract does not have the expected shape: %s' % b)
    r['cause_fn'], r['guard'], r['signal_field'] = mm.groups()
    # the cfg! string was blanked by strip(); read it from the string-preserving text
    sk = strip(open(repo + '/src/low_level/siginfo.rs').read(), keep_strings=True)
    _, bodyk, _ = find_fn(sk, 'extract', owner=r'impl\s+Origin')
    mm = re.search(r'cfg!\(\s*target_os\s*=\s*"([^"]*)"\s*\)', bodyk)
    if not mm or cfg_eval('target_os = "%s"' % mm.group(1), LINUX_X86_64):
        raise TranslateError('siginfo.rs: Origin::extract: the pid==0&&uid==0 wipe is not restricted to another OS')
    if ext.get(r['cause_fn']) != 'ICause' or ext.get(r['pid_fn']) != 'pid_t' or ext.get(r['uid_fn']) != 'uid_t':
        raise TranslateError('siginfo.rs: extern "C" signatures: %r' % ext)
    return r


def parse_exfil(repo):
    o = strip(open(repo + '/src/iterator/exfiltrator/origin.rs').read())
    w = strip(open(repo + '/src/iterator/exfiltrator/raw.rs').read())
    _, st, _ = find_fn(o, 'store', owner=r'impl\s+Exfiltrator\s+for\s+WithOrigin')
    _, ld, _ = find_fn(o, 'load', owner=r'impl\s+Exfiltrator\s+for\s+WithOrigin')
    if nows(st) != 'self.0.store(slot,signal,info)':
        raise TranslateError('origin.rs: WithOrigin::store not recognised: %s' % nows(st))
    if nows(ld) != 'self.0.load(slot,signal).map(|info|unsafe{Origin::extract(&info)})':
        raise TranslateError('origin.rs: WithOrigin::load not recognised: %s' % nows(ld))
    if not re.search(r'struct\s+WithOrigin\s*\(\s*WithRawSiginfo\s*\)', o):
        raise TranslateError('origin.rs: WithOrigin does not wrap WithRawSiginfo')
    _, st, _ = find_fn(w, 'store', owner=r'impl\s+Exfiltrator\s+for\s+WithRawSiginfo')
    _, ld, _ = find_fn(w, 'load', owner=r'impl\s+Exfiltrator\s+for\s+WithRawSiginfo')
    if not re.match(r'^letinfo=\*info;ifletSome\(slot\)=unsafe\{slot\.0\.load\(Ordering::\w+\)\.as_ref\(\)\}\{slot\.send\(info\);\}$', nows(st)):
        raise TranslateError('raw.rs: WithRawSiginfo::store not recognised: %s' % nows(st))
    if not re.match(r'^letslot=unsafe\{slot\.0\.load\(Ordering::\w+\)\.as_ref\(\)\};slot\.and_then\(\|s\|s\.recv\(\)\)$', nows(ld)):
        raise TranslateError('raw.rs: WithRawSiginfo::load not recognised: %s' % nows(ld))
    return ['copy_info', 'send_copy'], ['recv', 'map_origin_extract']


# ------------------------------------------------------------------------------------ output
def translate(repo, consts):
    cpath = repo + '/src/low_level/extract.c'
    ci = parse_c(cpath)
    vals, table, sizes = measure_c(cpath, ci)
    rows = []
    for nat, sig, tr, cond in ci['rows']:
        enabled = all((c in vals and vals[c][0]) == want for c, want in cond)
        if not enabled:
            continue
        rows.append((nat, tok_value(nat, vals), tok_value(sig, vals), tok_value(tr, vals)))
    bits = 8 * sizes[0]
    if [(v, s, t % (1 << bits)) for _, v, s, t in rows] != [tuple(x) for x in table]:
        raise TranslateError('extract.c: parsed consts[] %r differs from the compiled table %r' % (rows, table))
    rs = parse_rust(repo)
    st_skel, ld_skel = parse_exfil(repo)
    if 'SIGCHLD' not in consts:
        raise TranslateError('no libc value measured for SIGCHLD')

    o = []
    o.append('(* GENERATED by translator/siginfo.py from src/low_level/{siginfo.rs,extract.c} and src/iterator/exfiltrator/{origin,raw}.rs -- do not edit *)')
    o.append('From Coq Require Import ZArith List String.')
    o.append('Import ListNotations. Open Scope Z_scope. Open Scope string_scope.')
    o.append('(* the public enums of siginfo.rs *)')
    o.append('Inductive sent := ' + ' | '.join('S_' + n for n in rs['sent']) + '.')
    o.append('Inductive chld := ' + ' | '.join('H_' + n for n in rs['chld']) + '.')
    o.append('Inductive cause := ' + ' | '.join('C_%s' % n if p is None else 'C_%s (x : %s)' % (n, p.lower()) for n, p in rs['cause']) + '.')
    o.append('(* extract.c: rows of consts[] enabled by the system headers: (macro, native value, signal or wildcard, translated) *)')
    o.append('Definition c_consts : list (string * Z * Z * Z) :=')
    o.append('  ' + coq_list(['(%s, %s, %s, %s)' % (coq_string(n), coq_z(v), coq_z(s), coq_z(t)) for n, v, s, t in rows]) + '.')
    o.append('Definition c_disabled_rows : list string := ' + coq_list([coq_string(nat) for nat, sig, tr, cond in ci['rows']
                                                                       if not all((c in vals and vals[c][0]) == want for c, want in cond)]) + '.')
    o.append('Definition c_wildcard : Z := %s.' % coq_z(ci['wildcard']))
    o.append('Definition c_default : Z := %s.' % coq_z(ci['default']))
    o.append('Definition c_translated_bits : Z := %d.' % bits)
    o.append('Definition c_code_member : string := %s.' % coq_string(ci['code_field']))
    o.append('Definition c_signo_member : string := %s.' % coq_string(ci['signo_field']))
    o.append('Definition c_accessors : list (string * string) := ' + coq_list(['(%s, %s)' % (coq_string(k), coq_string(v)) for k, v in sorted(ci['accessors'].items())]) + '.')
    o.append('(* siginfo.rs *)')
    o.append('Definition icause_repr_bits : Z := 8.')
    o.append('Definition icause_discriminants : list (string * Z) := ' + coq_list(['(%s, %s)' % (coq_string(n), coq_z(d)) for n, d in rs['icause']]) + '.')
    o.append('Definition icause_has_process : list (string * bool) := ' + coq_list(['(%s, %s)' % (coq_string(n), 'true' if b else 'false') for n, b in rs['has_process']]) + '.')
    o.append('Definition cause_arms : list (string * cause) := ' + coq_list(['(%s, %s)' % (coq_string(n), t) for n, t in rs['from_arms']]) + '.')
    o.append('Definition cause_default : cause := %s.' % rs['from_default'])
    o.append('Definition ex_cause_fn : string := %s.' % coq_string(rs['cause_fn']))
    o.append('Definition ex_guard : string := %s.' % coq_string(rs['guard']))
    o.append('Definition ex_signal_member : string := %s.' % coq_string(rs['signal_field']))
    o.append('Definition ex_pid_fn : string := %s.' % coq_string(rs['pid_fn']))
    o.append('Definition ex_uid_fn : string := %s.' % coq_string(rs['uid_fn']))
    o.append('(* order of operations of Origin::extract on this target *)')
    o.append('Definition ex_skeleton : list string := ' + coq_list([coq_string(x) for x in
             ['call ' + rs['cause_fn'], 'if ' + rs['guard'], 'then Some(Process::extract)', 'else None', 'signal = ' + rs['signal_field'], 'cause.into()']]) + '.')
    o.append('Definition exfil_store_skeleton : list string := ' + coq_list([coq_string(x) for x in st_skel]) + '.')
    o.append('Definition exfil_load_skeleton : list string := ' + coq_list([coq_string(x) for x in ld_skel]) + '.')
    o.append('Definition rust_SIGCHLD : Z := %s.' % coq_z(consts['SIGCHLD']))
    return '\n'.join(o) + '\n'
