"""Registration entry points -> coq/gen/Extracted_entry.v        (DESIGN 4.1, 5.14; property C14)

Sources: signal-hook-registry/src/lib.rs, src/flag.rs, src/low_level/{mod,pipe}.rs,
src/iterator/{mod,backend}.rs, src/iterator/exfiltrator/mod.rs, src/lib.rs.

Generated data
  * `forbidden`           FORBIDDEN_IMPL for this target, numeric (libc values measured by the harness)
  * `initial_next_id`, `MAX_SIGNUM`, `EINVAL`, the five signal constants named by the property
  * `body : fn_id -> list op`   the ordered skeleton of every function on the way from a public
    registration entry point down to `register_unchecked_impl`: every statement of those functions
    is matched against a fixed set of shapes and becomes one or more operations (in EVALUATION
    order - e.g. `race_fallback.write().store(Some(Prev::detect(signal)?))` is lock, detect?, store);
    `?` placement is part of the operation.  A statement of an unknown shape raises TranslateError.
  * `params : fn_id -> list (res * bool)`  resources a public entry point receives (the action
    closure `action: F` of the registry's own entry points, flag Arc, descriptor; bool = owned by a
    Rust value with a destructor, false = raw number)
  * facts checked while parsing (emitted as booleans the proofs consume): WakeFd's Drop closes the
    descriptor, `unregister`/`unregister_signal` publish only `if replace`, the id table of an iterator
    instance has MAX_SIGNUM entries, `low_level::register` is the registry's `register`,
    `consts::FORBIDDEN` is the registry's, the default exfiltrator supports every signal and its
    `init` is empty.
"""
import re
from rustsrc import *


def norm(s):
    """collapse white space; no space next to punctuation."""
    s = re.sub(r'\s+', ' ', s).strip()
    s = re.sub(r'\s*([^\w\s])\s*', r'\1', s)
    return s


def stmts(block):
    """Split a block body into top-level statements.  A statement ends at `;` at depth 0, or at the
    closing brace of a block whose head starts with match/for/if/while/loop/unsafe (unless the
    expression continues).  Returns raw (un-normalised) texts; the tail expression is last."""
    out, i, n, start, depth = [], 0, len(block), 0, 0
    while i < n:
        ch = block[i]
        if ch in '([':
            depth += 1
        elif ch in ')]':
            depth -= 1
        elif ch == '{' and depth == 0:
            j = match_brace(block, i)
            head = block[start:i].strip()
            k = j + 1
            while k < n and block[k] in ' \t\r\n':
                k += 1
            if re.match(r'^(match\b|for\b|if\b|while\b|loop\b|unsafe$)', head) and not (k < n and block[k] in ';.?)'):
                if block.startswith('else', k):
                    raise TranslateError('else branch not recognised: %r' % norm(block[start:k + 4]))
                out.append(block[start:j + 1])
                start = j + 1
            i = j
        elif ch == ';' and depth == 0:
            out.append(block[start:i])
            start = i + 1
        i += 1
    if block[start:].strip():
        out.append(block[start:])
    return [s.strip() for s in out if s.strip()]


def unwrap_unsafe(s):
    """`unsafe{X}` -> `X` (normalised text)"""
    m = re.match(r'^unsafe\{(.*)\}$', s, re.S)
    return m.group(1) if m else s


def arc_params(sig_text):
    lp = sig_text.index('(')
    rp = match_brace(sig_text, lp, '(', ')')
    ps = []
    for p in split_top(sig_text[lp + 1:rp]):
        m = re.match(r'^\s*(?:mut\s+)?(\w+)\s*:\s*(.+?)\s*$', p, re.S)
        if m:
            ps.append((m.group(1), re.sub(r'\s+', '', m.group(2))))
    return ps


class Src:
    def __init__(self, repo, rel):
        self.rel = rel
        self.raw = open(repo + '/' + rel).read()
        self.s = strip(self.raw)

    def fn(self, name, owner=None):
        sig, body, _ = find_fn(self.s, name, owner=owner)
        return sig, body

    def err(self, fn, what, text=''):
        raise TranslateError('%s: %s: %s %s' % (self.rel, fn, what, ('%r' % text[:160]) if text else ''))


def expect(src, fn, got, shapes):
    """got: list of normalised statements; shapes: list of (regex, ops or callable(match)->ops).
    Every statement must match one of the function's shapes (ANY order, any count): the skeleton
    follows the source's order, so a reordered / dropped / duplicated statement changes the
    generated data (and breaks a proof) instead of stopping the translator."""
    ops = []
    for g in got:
        for rx, o in shapes:
            m = re.match('^(?:' + rx + ')$', g, re.S)
            if m:
                ops += o(m) if callable(o) else o
                break
        else:
            src.err(fn, 'statement shape not recognised', g)
    return ops


# ----------------------------------------------------------------------------------------------
def registry(repo, consts):
    src = Src(repo, 'signal-hook-registry/src/lib.rs')
    s = src.s
    D = {}
    # FORBIDDEN
    init, _ = find_const_item(s, 'FORBIDDEN')
    if norm(init) != 'FORBIDDEN_IMPL':
        src.err('FORBIDDEN', 'is not FORBIDDEN_IMPL', init)
    init, _ = find_const_item(s, 'FORBIDDEN_IMPL')
    m = re.match(r'^&\[(.*)\]$', norm(init))
    if not m:
        src.err('FORBIDDEN_IMPL', 'initialiser not a slice literal', init)
    forb = []
    for nm in [x for x in m.group(1).split(',') if x]:
        if nm not in consts:
            src.err('FORBIDDEN_IMPL', 'no measured libc value for', nm)
        forb.append(consts[nm])
    D['forbidden'] = forb
    # the names must be libc's (use libc::{..}) and not shadowed by a local const
    for nm in ('SIGKILL', 'SIGSTOP', 'SIGILL', 'SIGFPE', 'SIGSEGV'):
        if re.search(r'\bconst\s+' + nm + r'\b', s):
            src.err('FORBIDDEN_IMPL', 'constant shadowed locally', nm)

    # initial next_id
    _, b = src.fn('ensure', owner=r'impl\s+GlobalData')
    m = re.search(r'SignalData\{signals:HashMap::new\(\),next_id:(\d+),?\}', norm(b))
    if not m:
        src.err('GlobalData::ensure', 'initial SignalData not recognised')
    D['initial_next_id'] = int(m.group(1))
    if not re.search(r'race_fallback:HalfLock::new\(None\)', norm(b)):
        src.err('GlobalData::ensure', 'initial race_fallback not None')

    # Prev::detect = query only; Slot::new = set, both return Err(last_os_error) on != 0
    _, b = src.fn('detect', owner=r'impl\s+Prev')
    nb = norm(b)
    if not re.search(r'if unsafe\{libc::sigaction\(signal,ptr::null\(\),&mut old\)\}!=0\{return Err\(Error::last_os_error\(\)\);\}', nb) \
            or len(re.findall(r'sigaction\(', nb)) != 1:
        src.err('Prev::detect', 'not a pure query sigaction(signal, NULL, &old) with error return')
    _, b = src.fn('new', owner=r'impl\s+Slot')
    nb = norm(b)
    if not re.search(r'if unsafe\{libc::sigaction\(signal,&new,&mut old\)\}!=0\{return Err\(Error::last_os_error\(\)\);\}', nb) \
            or len(re.findall(r'sigaction\(', nb)) != 1:
        src.err('Slot::new', 'not a single sigaction(signal, &new, &old) with error return')
    if not re.search(r'Ok\(Slot\{prev:Prev\{signal,info:old\},actions:BTreeMap::new\(\),?\}\)$', nb):
        src.err('Slot::new', 'result not an empty slot')

    bodies = {}
    FID = {'register_sigaction_impl': 'FRegisterSigactionImpl', 'register_unchecked_impl': 'FRegisterUncheckedImpl'}
    callrx = r'(register_sigaction_impl|register_unchecked_impl)\(signal,(?:action|move\|_:&_\|action\(\))\)'
    wrapper_shapes = [
        (callrx, lambda m: ['OCall ' + FID[m.group(1)]]),
        (r'let r=' + callrx, lambda m: ['OCallBind ' + FID[m.group(1)]]),
        (r'r', ['OReturnBound']),
        (r'assert!\(!FORBIDDEN\.contains\(&signal\),.*\)', ['OAssertNotForbidden']),
    ]
    for fn in ('register', 'register_sigaction', 'register_signal_unchecked', 'register_unchecked', 'register_sigaction_impl'):
        sig, b = src.fn(fn)
        if not re.search(r'\(\s*signal\s*:\s*c_int\s*,\s*action\s*:\s*F\s*\)', sig):
            src.err(fn, 'signature not (signal: c_int, action: F)', sig)
        bodies[fn] = expect(src, fn, [norm(x) for x in stmts(b)], wrapper_shapes)

    _, b = src.fn('register_unchecked_impl')
    st = stmts(b)
    ns = [norm(x) for x in st]
    # the match statement is parsed separately
    mi = [i for i, x in enumerate(ns) if x.startswith('match ')]
    if len(mi) != 1:
        src.err('register_unchecked_impl', 'expected exactly one match statement')
    mi = mi[0]
    mraw = st[mi]
    if not re.match(r'^match\s+sigdata\s*\.\s*signals\s*\.\s*entry\s*\(\s*signal\s*\)\s*\{', mraw):
        src.err('register_unchecked_impl', 'match scrutinee is not sigdata.signals.entry(signal)', norm(mraw)[:80])
    lb = mraw.index('{')
    inner = mraw[lb + 1:match_brace(mraw, lb)]
    arms = {}
    pos = 0
    while True:
        m = re.compile(r'\s*Entry::(Occupied|Vacant)\s*\(\s*(?:mut\s+)?(\w+)\s*\)\s*=>\s*\{').match(inner, pos)
        if not m:
            break
        ob = m.end() - 1
        cb = match_brace(inner, ob)
        arms[m.group(1)] = (m.group(2), inner[ob + 1:cb])
        pos = cb + 1
        while pos < len(inner) and inner[pos] in ' \t\r\n,':
            pos += 1
    if inner[pos:].strip() or sorted(arms) != ['Occupied', 'Vacant']:
        src.err('register_unchecked_impl', 'match arms not {Occupied, Vacant}', norm(inner[pos:]))
    q = lambda m, i=1: 'true' if m.group(i) else 'false'
    arm_shapes = [
        (r'assert!\(\w+\.get_mut\(\)\.actions\.insert\(id,action\)\.is_none\(\)\)', ['OAssertInsertFresh']),
        (r'globals\.race_fallback\.write\(\)\.store\(Some\(Prev::detect\(signal\)(\?)?\)\)',
         lambda m: ['OFallbackLock', 'ODetect ' + q(m), 'OFallbackStore']),
        (r'let mut slot=Slot::new\(signal\)(\?)?', lambda m: ['OSlotNew ' + q(m)]),
        (r'slot\.actions\.insert\(id,action\)', ['OSlotInsertAction']),
        (r'\w+\.insert\(slot\)', ['OPlaceInsert']),
    ]
    body_shapes = [
        (r'let globals=GlobalData::ensure\(\)', ['OEnsureGlobals']),
        (r'let action=Arc::from\(action\)', ['OArcFromAction']),
        (r'let mut lock=globals\.data\.write\(\)', ['OLockData']),
        (r'let mut sigdata=SignalData::clone\(&lock\)', ['OCloneData']),
        (r'let id=ActionId\(sigdata\.next_id\)', ['OReadNextId']),
        (r'sigdata\.next_id\+=1', ['OIncrNextId']),
        (r'lock\.store\(sigdata(?:\.clone\(\))?\)', ['OPublish']),
        (r'Ok\(SigId\{signal,action:id\}\)', ['OReturnOkId']),
    ]
    occ = expect(src, 'register_unchecked_impl/Occupied', [norm(x) for x in stmts(arms['Occupied'][1])], arm_shapes)
    vac = expect(src, 'register_unchecked_impl/Vacant', [norm(x) for x in stmts(arms['Vacant'][1])], arm_shapes)
    pre = expect(src, 'register_unchecked_impl', ns[:mi], body_shapes)
    post = expect(src, 'register_unchecked_impl', ns[mi + 1:], body_shapes)
    D['unchecked_impl'] = (pre, occ, vac, post)

    # unregister / unregister_signal publish only `if replace`
    guarded = True
    for fn in ('unregister', 'unregister_signal'):
        _, b = src.fn(fn)
        nb = norm(b)
        stores = re.findall(r'lock\.store\(', nb)
        if len(stores) != 1 or not re.search(r'if replace\{lock\.store\(sigdata\);\}', nb):
            guarded = False
    D['unregister_publish_guarded'] = guarded
    D['bodies'] = bodies
    return D


def flag(repo, consts):
    src = Src(repo, 'src/flag.rs')
    out, params = {}, {}
    callee = r'(?:low_level|crate::low_level)::register'
    for fn in ('register', 'register_usize', 'register_conditional_shutdown', 'register_conditional_default'):
        sig, b = src.fn(fn)
        ps = arc_params(sig)
        if not ps or ps[0] != ('signal', 'c_int'):
            src.err(fn, 'first parameter is not signal: c_int', sig)
        arcs = [n for n, t in ps if t.startswith('Arc<')]
        if len(arcs) != 1:
            src.err(fn, 'expected exactly one Arc parameter', sig)
        a = arcs[0]
        ns = [unwrap_unsafe(norm(x)) for x in stmts(b)]
        clos = r'move\|\|(?:\{.*\b%s\..*\}|%s\..*)' % (a, a)
        inline = (r'%s\(signal,%s\)' % (callee, clos), ['OCapture RFlag', 'OCall FRegister'])
        let_action = (r'let action=%s' % clos, ['OCapture RFlag'])
        call_action = (r'%s\(signal,action\)' % callee, ['OCall FRegister'])
        precheck = (r'low_level::signal_name\(signal\)\.ok_or_else\(\|\|Error::from_raw_os_error\(EINVAL\)\)\?', ['OPrecheckSignalName'])
        out[fn] = expect(src, fn, ns, [inline, let_action, call_action, precheck])
        params[fn] = a
    if not re.search(r'\buse\s+libc::\{[^}]*\bEINVAL\b', src.s):
        src.err('flag.rs', 'EINVAL is not libc::EINVAL')
    return out


def low_level_mod(repo):
    src = Src(repo, 'src/low_level/mod.rs')
    if not re.search(r'pub\s+use\s+signal_hook_registry::\{[^}]*\bregister\b[^}]*\}', src.s) or re.search(r'\bfn\s+register\b', src.s):
        src.err('low_level', '`register` is not the re-exported signal_hook_registry::register')
    if not re.search(r'pub\s+use\s+self::signal_details::\{[^}]*\bsignal_name\b', src.s):
        src.err('low_level', '`signal_name` is not signal_details::signal_name')
    top = Src(repo, 'src/lib.rs')
    if not re.search(r'pub\s+use\s+signal_hook_registry::FORBIDDEN\s*;', top.s):
        top.err('consts', 'FORBIDDEN is not re-exported from the registry')
    if not re.search(r'pub\s+use\s+signal_hook_registry::SigId\s*;', top.s):
        top.err('lib', 'SigId is not re-exported from the registry')


def pipe(repo, consts):
    src = Src(repo, 'src/low_level/pipe.rs')
    out = {}
    sig, b = src.fn('register_raw')
    if not re.search(r'\(\s*signal\s*:\s*c_int\s*,\s*pipe\s*:\s*RawFd\s*\)', sig):
        src.err('register_raw', 'signature', sig)
    st = stmts(b)
    ns = [norm(x) for x in st]
    # two probe shapes are recognised (both are "OSendProbe" = look at the descriptor, change nothing in
    # the registry/dispositions): the zero-length send (before fix 96b2274) and getsockopt(SO_TYPE)
    if len(ns) == 6 and re.match(r'^let mut sock_type:c_int=0$', ns[0]) and re.match(r'^let mut len=std::mem::size_of::<c_int>\(\)as libc::socklen_t$', ns[1]):
        probe_stmt, match_stmt, tail = ns[2], ns[3], ns[4:]
        probe_rx = r'let res=unsafe\{libc::getsockopt\(pipe,libc::SOL_SOCKET,libc::SO_TYPE,&mut sock_type as\*mut c_int as\*mut libc::c_void,&mut len,?\)\}'
        match_rx = r'^let fd=match res\{0=>WakeFd\{fd:pipe,method:WakeMethod::Send,?\},_=>\{(.*)\}\}$'
    elif len(ns) == 4:
        probe_stmt, match_stmt, tail = ns[0], ns[1], ns[2:]
        probe_rx = r'let res=unsafe\{libc::send\(pipe,&\[\]as\*const _,0,MSG_NOWAIT\)\}'
        match_rx = r'^let fd=match\(res,Error::last_os_error\(\)\.kind\(\)\)\{\(0,_\)\|\(-1,ErrorKind::WouldBlock\)=>WakeFd\{fd:pipe,method:WakeMethod::Send,?\},_=>\{(.*)\}\}$'
    else:
        src.err('register_raw', 'expected 4 or 6 statements', ' ;; '.join(ns))
    # the match on the probe result
    m = re.match(match_rx, match_stmt, re.S)
    if not m:
        src.err('register_raw', 'probe match not recognised', match_stmt)
    arm2 = [x for x in m.group(1).split(';')]
    wr = expect(src, 'register_raw/_', arm2, [
        (r'let fd=WakeFd\{fd:pipe,method:WakeMethod::Write,?\}', ['OWakeFdNew']),
        (r'fd\.set_flags\(\)(\?)?', lambda m: ['OSetFlags ' + ('true' if m.group(1) else 'false')]),
        (r'fd', [])])
    rest = expect(src, 'register_raw', [unwrap_unsafe(probe_stmt), unwrap_unsafe(tail[0]), unwrap_unsafe(tail[1])], [
        (probe_rx, ['OSendProbe']),
        (r'let action=move\|\|fd\.wake\(\)', ['OCapture RFd']),
        (r'super::register\(signal,action\)', ['OCall FRegister'])])
    out['register_raw'] = (rest[0], ['OWakeFdNew'], wr, rest[1:])
    sig, b = src.fn('register', owner=None)
    if not re.search(r'P\s*:\s*IntoRawFd', sig):
        src.err('register', 'P: IntoRawFd', sig)
    out['register'] = expect(src, 'register', [norm(x) for x in stmts(b)], [
        (r'register_raw\(signal,pipe\.into_raw_fd\(\)\)', ['OIntoRawFd', 'OCall FPipeRegisterRaw'])])
    # Drop for WakeFd closes the descriptor; WakeFd is not Clone/Copy
    closes = False
    try:
        _, db, _ = find_fn(src.s, 'drop', owner=r'impl\s+Drop\s+for\s+WakeFd')
        closes = bool(re.search(r'libc::close\(self\.fd\)', norm(db)))
    except TranslateError:
        closes = False
    m = re.search(r'((?:#\[[^\]]*\]\s*)*)struct\s+WakeFd\b', src.s)
    if not m:
        src.err('WakeFd', 'struct not found')
    if re.search(r'derive\([^)]*\b(Clone|Copy)\b', m.group(1)):
        src.err('WakeFd', 'is Clone/Copy: descriptor ownership not unique')
    _, fb, _ = find_fn(src.s, 'set_flags', owner=r'impl\s+WakeFd')
    if len(re.findall(r'return Err\(Error::last_os_error\(\)\)', norm(fb))) != 2 or 'fcntl' not in fb:
        src.err('WakeFd::set_flags', 'not two fcntl calls with error returns')
    out['wakefd_drop_closes'] = closes
    return out


def iterator(repo, consts):
    be = Src(repo, 'src/iterator/backend.rs')
    out = {}
    init, _ = find_const_item(be.s, 'MAX_SIGNUM')
    if not re.match(r'^\s*\d+\s*$', init):
        be.err('MAX_SIGNUM', 'not a literal', init)
    out['MAX_SIGNUM'] = int(init)
    _, b = be.fn('new', owner=r'impl\s+DeliveryState')
    out['ids_table_len_is_max'] = bool(re.search(r'let ids=\(0\.\.MAX_SIGNUM\)\.map\(\|_\|None\)\.collect\(\)', norm(b))
                                       and re.search(r'registered_signal_ids:Mutex::new\(ids\)', norm(b)))
    if not re.search(r'slots\s*:\s*\[\s*E::Storage\s*;\s*MAX_SIGNUM\s*\]', be.s):
        be.err('PendingSignals', 'slots is not [E::Storage; MAX_SIGNUM]')

    _, b = be.fn('add_signal', owner=r'impl\s*<[^>]*>\s*AddSignal\s+for\s+PendingSignals')
    ns = [norm(x) for x in stmts(b)]
    out['pending_add_signal'] = expect(be, 'PendingSignals::add_signal', ns, [
        (r'assert!\(signal>=0\)', ['OAssertNonneg']),
        (r'assert!\(\(signal as usize\)<MAX_SIGNUM,.*\)', ['OAssertLtMax']),
        (r'assert!\(self\.exfiltrator\.supports_signal\(signal\),.*\)', ['OAssertSupports']),
        (r'self\.exfiltrator\.init\(&self\.slots\[signal as usize\],signal\)', ['OExfilInit']),
        (r'let action=move\|act:&_\|\{.*\bself\.slots\[signal as usize\].*\bwrite\.wake_readers\(\);?\}', ['OCapture RArcPending', 'OCapture RArcWrite']),
        (r'let id=unsafe\{signal_hook_registry::register_sigaction\(signal,action\)\}(\?)?',
         lambda m: ['OCallQ FRegisterSigaction' if m.group(1) else 'OCall FRegisterSigaction']),
        (r'Ok\(id\)', ['OReturnOkId'])])

    _, b = be.fn('add_signal', owner=r'impl\s+Handle')
    ns = [norm(x) for x in stmts(b)]
    lockrx = r'let mut lock=self\.delivery_state\.registered_signal_ids\.lock\(\)\.(unwrap\(\)|unwrap_or_else\(PoisonError::into_inner\))'
    out['handle_add_signal'] = expect(be, 'Handle::add_signal', ns, [
        (lockrx, ['OMutexLock']),
        (r'if lock\[signal as usize\]\.is_some\(\)\{return Ok\(\(\)\);\}', ['OIndexIsSomeReturn']),
        (r'let id=Arc::clone\(&self\.pending\)\.add_signal\(Arc::clone\(&self\.write\),signal\)(\?)?',
         lambda m: ['OCloneArc RArcPending', 'OCloneArc RArcWrite', 'OCallQ FPendingAddSignal' if m.group(1) else 'OCall FPendingAddSignal']),
        (r'lock\[signal as usize\]=Some\(id\)', ['OIndexAssign']),
        (r'Ok\(\(\)\)', ['OReturnOkUnit'])])
    out['lock_poison_ignored'] = 'unwrap_or_else' in re.match(lockrx, ns[0]).group(1)
    # the only implementor of AddSignal is PendingSignals, Handle.pending: Arc<dyn AddSignal>
    if len(re.findall(r'\bAddSignal\s+for\b', be.s)) != 1:
        be.err('AddSignal', 'more than one implementor')

    _, b = be.fn('with_pipe')
    st = stmts(b)
    ns = [norm(x) for x in st]
    if len(ns) != 6:
        be.err('with_pipe', 'expected 6 statements', ' ;; '.join(ns))
    build = expect(be, 'with_pipe', ns[:4], [
        (r'let pending=Arc::new\(PendingSignals::new\(exfiltrator\)\)', []),
        (r'let pending_add_signal=Arc::clone\(&pending\)', []),
        (r'let handle=Handle::new\(write,pending_add_signal\)', []),
        (r'let me=Self\{read,handle,pending,?\}', ['OBuildInstance'])])
    m = re.match(r'^for sig in signals\{me\.handle\.add_signal\(\*sig\.borrow\(\)\)(\?)?;\}$', ns[4])
    if not m:
        be.err('with_pipe', 'loop not recognised', ns[4])
    loop = ['OCallQ FHandleAddSignal' if m.group(1) else 'OCall FHandleAddSignal']
    tail = expect(be, 'with_pipe', ns[5:], [(r'Ok\(me\)', ['OReturnOkInstance'])])
    out['with_pipe'] = (build, loop, tail)
    _, b = be.fn('handle', owner=r'impl\s*<[^>]*>\s*SignalDelivery')
    if norm(b) != 'self.handle.clone()':
        be.err('SignalDelivery::handle', 'not self.handle.clone()', norm(b))

    mo = Src(repo, 'src/iterator/mod.rs')
    own = r'impl\s*<[^>]*>\s*SignalsInfo\s*<'
    _, b = mo.fn('new', owner=own)
    out['signals_new'] = expect(mo, 'SignalsInfo::new', [norm(x) for x in stmts(b)], [
        (r'Self::with_exfiltrator\(signals,E::default\(\)\)', ['OCall FWithExfiltrator'])])
    _, b = mo.fn('with_exfiltrator', owner=own)
    out['with_exfiltrator'] = expect(mo, 'SignalsInfo::with_exfiltrator', [norm(x) for x in stmts(b)], [
        (r'let\(read,write\)=UnixStream::pair\(\)(\?)?', lambda m: ['OSocketPair ' + ('true' if m.group(1) else 'false')]),
        (r'Ok\(SignalsInfo\(SignalDelivery::with_pipe\(read,write,exfiltrator,signals,?\)(\?)?\)\)',
         lambda m: ['OCallQ FWithPipe' if m.group(1) else 'OCall FWithPipe', 'OReturnOkUnit'])])
    _, b = mo.fn('add_signal', owner=own)
    out['signals_add_signal'] = expect(mo, 'SignalsInfo::add_signal', [norm(x) for x in stmts(b)], [
        (r'self\.handle\(\)\.add_signal\(signal\)', ['OCall FHandleAddSignal'])])
    _, b = mo.fn('handle', owner=own)
    if norm(b) != 'self.0.handle()':
        mo.err('SignalsInfo::handle', 'not self.0.handle()', norm(b))
    if not re.search(r'pub\s+type\s+Signals\s*=\s*SignalsInfo\s*<\s*SignalOnly\s*>\s*;', mo.s):
        mo.err('Signals', 'is not SignalsInfo<SignalOnly>')

    ex = Src(repo, 'src/iterator/exfiltrator/mod.rs')
    _, b, _ = find_fn(ex.s, 'supports_signal', owner=r'impl\s+sealed::Exfiltrator\s+for\s+SignalOnly')
    out['signalonly_supports_all'] = norm(b) == 'true'
    # SignalOnly does not override init; the default init is empty
    i0 = re.search(r'impl\s+sealed::Exfiltrator\s+for\s+SignalOnly\s*\{', ex.s)
    blk = ex.s[i0.end():match_brace(ex.s, i0.end() - 1)]
    _, b, _ = find_fn(ex.s, 'init', owner=r'trait\s+Exfiltrator')
    out['signalonly_init_empty'] = (not re.search(r'\bfn\s+init\b', blk)) and norm(b) == 'let _=slot;let _=signal;'
    return out


FN_IDS = ['FRegister', 'FRegisterSigaction', 'FRegisterSigactionImpl', 'FRegisterSignalUnchecked', 'FRegisterUnchecked',
          'FRegisterUncheckedImpl', 'FFlagRegister', 'FFlagRegisterUsize', 'FFlagCondShutdown', 'FFlagCondDefault',
          'FPipeRegisterRaw', 'FPipeRegister', 'FPendingAddSignal', 'FHandleAddSignal', 'FSignalsAddSignal', 'FWithPipe',
          'FWithExfiltrator', 'FSignalsNew']


def simple(ops):
    return ['Simple %s' % o if ' ' not in o else 'Simple (%s)' % o for o in ops]


def translate(repo, consts):
    R = registry(repo, consts)
    F = flag(repo, consts)
    low_level_mod(repo)
    P = pipe(repo, consts)
    I = iterator(repo, consts)
    b = lambda v: 'true' if v else 'false'
    pre, occ, vac, post = R['unchecked_impl']
    sops = lambda l: coq_list(['%s' % o if ' ' not in o else '(%s)' % o for o in l])
    bodies = {
        'FRegister': simple(R['bodies']['register']),
        'FRegisterSigaction': simple(R['bodies']['register_sigaction']),
        'FRegisterSigactionImpl': simple(R['bodies']['register_sigaction_impl']),
        'FRegisterSignalUnchecked': simple(R['bodies']['register_signal_unchecked']),
        'FRegisterUnchecked': simple(R['bodies']['register_unchecked']),
        'FRegisterUncheckedImpl': simple(pre) + ['MatchEntry %s %s' % (sops(occ), sops(vac))] + simple(post),
        'FFlagRegister': simple(F['register']),
        'FFlagRegisterUsize': simple(F['register_usize']),
        'FFlagCondShutdown': simple(F['register_conditional_shutdown']),
        'FFlagCondDefault': simple(F['register_conditional_default']),
        'FPipeRegisterRaw': simple([P['register_raw'][0]]) + ['MatchProbe %s %s' % (sops(P['register_raw'][1]), sops(P['register_raw'][2]))] + simple(P['register_raw'][3]),
        'FPipeRegister': simple(P['register']),
        'FPendingAddSignal': simple(I['pending_add_signal']),
        'FHandleAddSignal': simple(I['handle_add_signal']),
        'FSignalsAddSignal': simple(I['signals_add_signal']),
        'FWithPipe': simple(I['with_pipe'][0]) + ['ForSignals %s' % sops(I['with_pipe'][1])] + simple(I['with_pipe'][2]),
        'FWithExfiltrator': simple(I['with_exfiltrator']),
        'FSignalsNew': simple(I['signals_new']),
    }
    o = []
    o.append('(* GENERATED by translator/entry.py from signal-hook-registry/src/lib.rs, src/flag.rs, src/low_level/{mod,pipe}.rs,')
    o.append('   src/iterator/{mod,backend}.rs, src/iterator/exfiltrator/mod.rs, src/lib.rs -- do not edit *)')
    o.append('From Coq Require Import ZArith NArith List.')
    o.append('Import ListNotations. Open Scope Z_scope.')
    o.append('Inductive fn_id := ' + ' | '.join(FN_IDS) + '.')
    o.append('Inductive res := RAction | RFlag | RFd | RArcPending | RArcWrite | RInstance.')
    o.append('(* one operation per recognised statement part, in evaluation order; bool = followed by `?` *)')
    o.append('Inductive sop :=')
    o.append('  | OAssertNotForbidden | OCall (f : fn_id) | OCallQ (f : fn_id) | OCallBind (f : fn_id) | OReturnBound')
    o.append('  | OEnsureGlobals | OArcFromAction | OLockData | OCloneData | OReadNextId | OIncrNextId')
    o.append('  | OAssertInsertFresh | OFallbackLock | ODetect (q : bool) | OFallbackStore | OSlotNew (q : bool)')
    o.append('  | OSlotInsertAction | OPlaceInsert | OPublish | OReturnOkId | OReturnOkUnit | OReturnOkInstance')
    o.append('  | OCapture (r : res) | OCloneArc (r : res) | OPrecheckSignalName')
    o.append('  | OSendProbe | OWakeFdNew | OSetFlags (q : bool) | OIntoRawFd')
    o.append('  | OAssertNonneg | OAssertLtMax | OAssertSupports | OExfilInit')
    o.append('  | OMutexLock | OIndexIsSomeReturn | OIndexAssign | OSocketPair (q : bool) | OBuildInstance.')
    o.append('Inductive op := Simple (s : sop) | MatchEntry (occupied vacant : list sop) | MatchProbe (send_arm write_arm : list sop) | ForSignals (body : list sop).')
    o.append('Definition forbidden : list Z := ' + coq_list([coq_z(v) for v in R['forbidden']]) + '.')
    for nm in ('SIGKILL', 'SIGSTOP', 'SIGILL', 'SIGFPE', 'SIGSEGV', 'EINVAL'):
        o.append('Definition %s : Z := %s.' % (nm, coq_z(consts[nm])))
    o.append('Definition initial_next_id : N := %d%%N.' % R['initial_next_id'])
    o.append('Definition MAX_SIGNUM : Z := %d.' % I['MAX_SIGNUM'])
    o.append('Definition body (f : fn_id) : list op :=')
    o.append('  match f with')
    for f in FN_IDS:
        o.append('  | %s => %s' % (f, coq_list(bodies[f])))
    o.append('  end.')
    o.append('(* resources handed to a public entry point: (resource, owned by a value with a destructor) *)')
    o.append('Definition params (f : fn_id) : list (res * bool) :=')
    o.append('  match f with')
    o.append('  | FFlagRegister | FFlagRegisterUsize | FFlagCondShutdown | FFlagCondDefault => [(RFlag, true)]')
    o.append('  | FPipeRegister => [(RFd, true)]')
    o.append('  | FPipeRegisterRaw => [(RFd, false)]')
    o.append('  | FRegister | FRegisterSigaction | FRegisterSignalUnchecked | FRegisterUnchecked => [(RAction, true)]')
    o.append('  | _ => []')
    o.append('  end.')
    o.append('Definition wakefd_drop_closes : bool := %s.' % b(P['wakefd_drop_closes']))
    o.append('Definition unregister_publish_guarded : bool := %s.' % b(R['unregister_publish_guarded']))
    o.append('Definition ids_table_len_is_max : bool := %s.' % b(I['ids_table_len_is_max']))
    o.append('Definition lock_poison_ignored : bool := %s.' % b(I['lock_poison_ignored']))
    o.append('Definition signalonly_supports_all : bool := %s.' % b(I['signalonly_supports_all']))
    o.append('Definition signalonly_init_empty : bool := %s.' % b(I['signalonly_init_empty']))
    return '\n'.join(o) + '\n'
