"""signal-hook-registry/src/lib.rs -> coq/gen/Extracted_seqreg.v   (property C05, DESIGN 5.5)

What is extracted (every run, from the working tree):
  * initial `next_id` (GlobalData::ensure), width of the id counter (`next_id: u128`, `ActionId(u128)`),
    the container kinds (`signals: HashMap<c_int, Slot>`, `actions: BTreeMap<ActionId, ..>`, ActionId
    derives Ord);
  * the flags or-ed into `sa_flags` in `Slot::new` for this target (cfg resolved, tiny symbolic
    evaluation of the `let flags = ..; siginfo = ..; flags | siginfo` dance), numeric via consts;
  * FORBIDDEN_IMPL (unix) and the shape of the checked entry points (assert, then the unchecked impl);
  * the *statement skeletons* of register_unchecked_impl (prefix / Occupied arm / Vacant arm / suffix),
    unregister, unregister_signal and the unix dispatcher `handler` (prefix / slot branch / no-slot
    branch) as lists of instructions which coq/seqreg/Model.v INTERPRETS.  Every top-level statement
    of these functions must be one of the recognised shapes, otherwise TranslateError;
  * which methods are ever called on `.signals` / `.actions` and in which functions `sigaction` is
    called (no code path removes a Slot or restores a disposition).
"""
import re
from rustsrc import *

ENV = {'flags': set(LINUX_X86_64['flags']) | {'sighook_verif'}, 'kv': LINUX_X86_64['kv']}
SRC = '/signal-hook-registry/src/lib.rs'


# ------------------------------------------------------------------------------------------
# statement splitting
def split_stmts(body):
    """Top-level statements of a block body (text between its braces, comments blanked).
    Returns list of (attrs, text): attrs = list of attribute contents directly in front."""
    out = []
    i, n = 0, len(body)
    while i < n:
        while i < n and body[i].isspace():
            i += 1
        if i >= n:
            break
        attrs = []
        while body.startswith('#', i):
            lb = body.index('[', i)
            rb = match_brace(body, lb, '[', ']')
            attrs.append(body[lb + 1:rb].strip())
            i = rb + 1
            while i < n and body[i].isspace():
                i += 1
        start = i
        depth = 0
        blocky = re.match(r'(if|match|for|while|loop|unsafe\s*\{|\{)', body[i:]) is not None
        while i < n:
            ch = body[i]
            if ch in '([{':
                depth += 1
            elif ch in ')]}':
                depth -= 1
                if depth < 0:
                    raise TranslateError('unbalanced block')
                if ch == '}' and depth == 0 and blocky:
                    j = i + 1
                    while j < n and body[j].isspace():
                        j += 1
                    if body.startswith('else', j):
                        i = j + 4
                        continue
                    if re.match(r'(!=|==|&&|\|\||<|>|as\b)', body[j:j + 3]):
                        # the block was part of a condition (`if unsafe { .. } != 0 { .. }`)
                        i += 1
                        continue
                    if j < n and body[j] in '.?;':
                        # expression continues (method call on the block) or explicit `;`
                        if body[j] == ';':
                            i = j
                            break
                        blocky = False
                        i += 1
                        continue
                    i += 1
                    break
            elif ch == ';' and depth == 0:
                break
            i += 1
        text = body[start:i].strip()
        if i < n and body[i] == ';':
            i += 1
        if text:
            out.append((attrs, text))
    return out


def enabled(attrs, what):
    ok = True
    for a in attrs:
        m = re.match(r'^cfg\s*\((.*)\)$', a, re.S)
        if m:
            if not cfg_eval(m.group(1), ENV):
                ok = False
        elif not re.match(r'^(allow|inline|doc|deprecated|cold|must_use)\b', a):
            raise TranslateError('%s: unexpected attribute #[%s]' % (what, a))
    return ok


def stmts(body, what):
    """enabled statements with normalised white space; instrumentation points dropped"""
    res = []
    for attrs, text in split_stmts(body):
        if not enabled(attrs, what):
            continue
        t = re.sub(r'\s+', ' ', text).strip()
        if re.match(r'^verif::point\s*\(.*\)$', t):
            continue
        res.append(t)
    return res


def block_of(text, what):
    """body of the first { } block in text"""
    lb = text.find('{')
    if lb < 0:
        raise TranslateError('%s: no block' % what)
    return text[lb + 1:match_brace(text, lb)], text[:lb], text[match_brace(text, lb) + 1:]


def fields_of(text):
    """`name: Type` fields of a struct body (commas inside <> do not split; attributes dropped)"""
    parts, depth, cur = [], 0, []
    for ch in text:
        if ch in '<([':
            depth += 1
        elif ch in '>)]':
            depth -= 1
        if ch == ',' and depth == 0:
            parts.append(''.join(cur)); cur = []
        else:
            cur.append(ch)
    parts.append(''.join(cur))
    res = []
    for f in parts:
        f = re.sub(r'#\s*\[[^\]]*\]', '', f).strip()
        if ':' in f:
            a, b = f.split(':', 1)
            res.append((re.sub(r'^pub\s+', '', a.strip()), re.sub(r'\s', '', b)))
    return res


def rx(p):
    return re.compile('^' + p.replace(' ', r'\s*') + '$', re.S)


def classify(sts, table, what):
    """Each statement must match exactly one (regex, tag); tag None = allowed, contributes nothing."""
    out = []
    for t in sts:
        for r, tag in table:
            if r.match(t):
                if tag is not None:
                    out.append(tag)
                break
        else:
            raise TranslateError('%s: unrecognised statement: %r' % (what, t))
    return out


def expect_order(tags, expected_subseq, what):
    """the (non-instruction) anchor statements must be present"""
    for e in expected_subseq:
        if e not in tags:
            raise TranslateError('%s: expected statement %s not found' % (what, e))


# ------------------------------------------------------------------------------------------
def nontest_functions(s):
    """(name, body, start) for every function enabled for this target, outside `mod tests`
    and outside modules gated by cfg(sighook_verif)."""
    # blank out  #[cfg(test)] mod tests { .. }  and  #[cfg(.. sighook_verif ..)] pub mod x { .. }
    t = s
    for m in list(re.finditer(r'#\s*\[\s*cfg\s*\(([^\]]*)\)\s*\]\s*(?:pub\s+)?mod\s+\w+\s*\{', s)):
        cond = m.group(1)
        if re.search(r'\btest\b', cond) or 'sighook_verif' in cond:
            lb = m.end() - 1
            rb = match_brace(s, lb)
            t = t[:m.start()] + ' ' * (rb + 1 - m.start()) + t[rb + 1:]
    fns = []
    for m in re.finditer(r'\bfn\s+(\w+)\b', t):
        name = m.group(1)
        i = m.end()
        depth = 0
        while i < len(t):
            ch = t[i]
            if ch in '(<[':
                depth += 1
            elif ch in ')>]':
                if not (ch == '>' and t[i - 1] == '-'):
                    depth -= 1
            elif ch == '{' and depth <= 0:
                break
            elif ch == ';' and depth <= 0:
                i = -1
                break
            i += 1
        if i < 0 or i >= len(t):
            continue
        if not attrs_enabled(t, m.start(), ENV):
            continue
        fns.append((name, t[i + 1:match_brace(t, i)], m.start()))
    return t, fns


# ------------------------------------------------------------------------------------------
def slot_new_flags(body, consts):
    """Symbolic evaluation of Slot::new (unix).  Returns (flag names, installs `handler`)."""
    env = {}
    installed = None
    final = None
    saw_sigaction = saw_ok = False
    kept = []
    for attrs, text in split_stmts(body):
        if enabled(attrs, 'Slot::new'):
            kept.append(re.sub(r'\s+', ' ', text).strip())
    def ev(e):
        terms = []
        for part in e.split('|'):
            p = part.strip()
            p = re.sub(r'\s+as\s+[\w:]+$', '', p).strip()
            m = re.match(r'^libc::(\w+)$', p)
            if m:
                terms.append(m.group(1))
            elif p == '0':
                pass
            elif re.match(r'^\w+$', p) and p in env:
                terms += env[p]
            else:
                raise TranslateError('Slot::new: cannot evaluate flag expression %r' % e)
        return terms
    for t in kept:
        if re.match(r'^verif::point\s*\(.*\)$', t):
            continue
        m = re.match(r'^let mut new\s*:\s*libc::sigaction = unsafe \{ mem::zeroed\(\) \}$', t)
        if m:
            continue
        if re.match(r'^let mut old\s*:\s*libc::sigaction = unsafe \{ mem::zeroed\(\) \}$', t):
            continue
        m = re.match(r'^\{ new\.sa_sigaction = (\w+) as usize; \}$', t)
        if m:
            installed = m.group(1)
            continue
        m = re.match(r'^let (?:mut )?(\w+) = ([^;{}]+)$', t)
        if m and m.group(1) in ('flags', 'siginfo'):
            env[m.group(1)] = ev(m.group(2))
            continue
        m = re.match(r'^(\w+) = ([^;{}]+)$', t)
        if m and m.group(1) in ('flags', 'siginfo') and m.group(1) in env:
            env[m.group(1)] = ev(m.group(2))
            continue
        m = re.match(r'^new\.sa_flags = ([^;{}]+)$', t)
        if m:
            final = ev(m.group(1))
            continue
        if re.match(r'^if unsafe \{ libc::sigaction\(signal, &new, &mut old\) \} != 0 \{ return Err\(Error::last_os_error\(\)\); \}$', t):
            if final is None or installed is None:
                raise TranslateError('Slot::new: sigaction called before flags/handler are set')
            saw_sigaction = True
            continue
        if re.match(r'^Ok\(Slot \{ prev: Prev \{ signal, info: old \}, actions: BTreeMap::new\(\),? \}\)$', t):
            if not saw_sigaction:
                raise TranslateError('Slot::new: Ok before sigaction')
            saw_ok = True
            continue
        raise TranslateError('Slot::new: unrecognised statement: %r' % t)
    if not (saw_sigaction and saw_ok and final is not None):
        raise TranslateError('Slot::new: shape not recognised')
    if installed != 'handler':
        raise TranslateError('Slot::new installs %r, not `handler`' % installed)
    seen = []
    for f in final:
        if f not in consts:
            raise TranslateError('Slot::new: no measured value for libc::%s' % f)
        if f not in seen:
            seen.append(f)
    return seen


REG_TABLE = [
    (rx(r'let globals = GlobalData::ensure\(\)'), 'ensure'),
    (rx(r'let action = Arc::from\(action\)'), None),
    (rx(r'let mut lock = globals\.data\.write\(\)'), 'lockwrite'),
    (rx(r'let mut sigdata = SignalData::clone\(&lock\)'), 'IClone'),
    (rx(r'let id = ActionId\(sigdata\.next_id\)'), 'ITakeId'),
    (rx(r'sigdata\.next_id \+= 1'), 'IIncNext'),
    (rx(r'match sigdata\.signals\.entry\(signal\) \{.*\}'), 'MATCH'),
    (rx(r'lock\.store\(sigdata\)'), 'IStore'),
    (rx(r'Ok\(SigId \{ signal, action: id \}\)'), 'IRetOkId'),
]
OCC_TABLE = [
    (rx(r'assert!\(occupied\.get_mut\(\)\.actions\.insert\(id, action\)\.is_none\(\)\)'), 'IInsertOccupied'),
]
VAC_TABLE = [
    (rx(r'globals \.race_fallback \.write\(\) \.store\(Some\(Prev::detect\(signal\)\?\)\)'), 'IFallbackStoreDetectQ'),
    (rx(r'let mut slot = Slot::new\(signal\)\?'), 'ISlotNewQ'),
    (rx(r'slot\.actions\.insert\(id, action\)'), 'ISlotInsert'),
    (rx(r'place\.insert\(slot\)'), 'IPlaceInsert'),
]
UNREG_COMMON = [
    (rx(r'let globals = GlobalData::ensure\(\)'), 'ensure'),
    (rx(r'let mut replace = false'), 'initreplace'),
    (rx(r'let mut lock = globals\.data\.write\(\)'), 'lockwrite'),
    (rx(r'let mut sigdata = SignalData::clone\(&lock\)'), 'IClone'),
    (rx(r'if replace \{ lock\.store\(sigdata\); \}'), 'IStoreIfReplace'),
    (rx(r'lock\.store\(sigdata\)'), 'IStore'),
    (rx(r'replace'), 'IRetReplace'),
]
UNREG_TABLE = UNREG_COMMON + [
    (rx(r'if let Some\(slot\) = sigdata\.signals\.get_mut\(&id\.signal\) \{ replace = slot\.actions\.remove\(&id\.action\)\.is_some\(\); \}'), 'IRemoveInSlot'),
]
UNSIG_TABLE = UNREG_COMMON + [
    (rx(r'if let Some\(slot\) = sigdata\.signals\.get_mut\(&signal\) \{ if !slot\.actions\.is_empty\(\) \{ slot\.actions\.clear\(\); replace = true; \} \}'), 'IClearInSlotIfNonEmpty'),
]
H_TABLE = [
    (rx(r'let globals = GlobalData::get\(\)'), None),
    (rx(r'let fallback = globals\.race_fallback\.read\(\)'), 'HReadFallback'),
    (rx(r'let sigdata = globals\.data\.read\(\)'), 'HReadData'),
    (rx(r'if let Some\(slot\) = sigdata\.signals\.get\(&sig\) \{.*\} else if let Some\(prev\) = fallback\.as_ref\(\) \{.*\}'), 'BRANCH'),
]
HSLOT_TABLE = [
    (rx(r'unsafe \{ slot\.prev\.execute\(sig, info, data\) \}'), 'HPrevExecute'),
    (rx(r'let info = unsafe \{ info\.as_ref\(\) \}'), None),
    (rx(r'let info = info\.unwrap_or_else\(\|\| \{.*libc::abort\(\);.*\}\)'), None),
    (rx(r'for action in slot\.actions\.values\(\) \{ action\(info\); \}'), 'HRunActionsInKeyOrder'),
]
HELSE_TABLE = [
    (rx(r'if (?:prev\.signal == sig|sig == prev\.signal) \{ unsafe \{ prev\.execute\(sig, info, data\) \};? \}'), 'HFallbackPrevIfSameSignal'),
]
INSTR = ['IClone', 'ITakeId', 'IIncNext', 'IInsertOccupied', 'IFallbackStoreDetectQ', 'ISlotNewQ', 'ISlotInsert',
         'IPlaceInsert', 'IStore', 'IStoreIfReplace', 'IRetOkId', 'IRemoveInSlot', 'IClearInSlotIfNonEmpty', 'IRetReplace']
HINSTR = ['HReadFallback', 'HReadData', 'HPrevExecute', 'HRunActionsInKeyOrder', 'HFallbackPrevIfSameSignal']
ANCHORS = ('ensure', 'lockwrite', 'initreplace')


def instrs(tags):
    return [t for t in tags if t not in ANCHORS]


def translate(repo, consts):
    src = open(repo + SRC).read()
    s = strip(src)
    sk = strip(src, keep_strings=True)

    # ---- types -------------------------------------------------------------------------
    m = re.search(r'#\s*\[\s*derive\s*\(([^)]*)\)\s*\]\s*struct\s+ActionId\s*\(\s*(\w+)\s*\)\s*;', s)
    if not m:
        raise TranslateError('struct ActionId(..) not found')
    derives = [d.strip() for d in m.group(1).split(',')]
    idty = m.group(2)
    if 'Ord' not in derives or 'PartialOrd' not in derives or 'Eq' not in derives:
        raise TranslateError('ActionId does not derive Ord/PartialOrd/Eq (BTreeMap order would not be numeric)')
    m = re.search(r'struct\s+SignalData\s*\{([^}]*)\}', s)
    if not m:
        raise TranslateError('struct SignalData not found')
    fields = dict(fields_of(m.group(1)))
    if fields.get('signals') != 'HashMap<c_int,Slot>':
        raise TranslateError('SignalData.signals is not HashMap<c_int, Slot>: %r' % fields.get('signals'))
    if fields.get('next_id') != idty:
        raise TranslateError('next_id type %r differs from ActionId(%s)' % (fields.get('next_id'), idty))
    mm = re.match(r'^u(8|16|32|64|128)$', idty)
    if not mm:
        raise TranslateError('id counter type %s not an unsigned integer' % idty)
    id_bits = int(mm.group(1))
    m = re.search(r'struct\s+Slot\s*\{([^}]*)\}', s)
    if not m:
        raise TranslateError('struct Slot not found')
    sf = dict(fields_of(m.group(1)))
    if sf.get('actions') != 'BTreeMap<ActionId,Arc<Action>>' or sf.get('prev') != 'Prev':
        raise TranslateError('struct Slot fields not recognised: %r' % sf)
    m = re.search(r'pub\s+struct\s+SigId\s*\{([^}]*)\}', s)
    sidf = fields_of(m.group(1)) if m else None
    if sidf != [('signal', 'c_int'), ('action', 'ActionId')]:
        raise TranslateError('struct SigId fields not recognised: %r' % sidf)

    # ---- GlobalData::ensure : initial state -------------------------------------------
    _, eb, _ = find_fn(s, 'ensure', owner=r'impl\s+GlobalData', cfg_env=ENV)
    m = re.search(r'data\s*:\s*HalfLock::new\s*\(\s*SignalData\s*\{\s*signals\s*:\s*HashMap::new\s*\(\s*\)\s*,\s*next_id\s*:\s*(\d+)\s*,?\s*\}\s*\)', eb)
    if not m:
        raise TranslateError('GlobalData::ensure: initial SignalData not recognised')
    initial_next = int(m.group(1))
    if not re.search(r'race_fallback\s*:\s*HalfLock::new\s*\(\s*None\s*\)', eb):
        raise TranslateError('GlobalData::ensure: initial race_fallback not None')

    # ---- Slot::new ----------------------------------------------------------------------
    _, nb, noff = find_fn(s, 'new', owner=r'impl\s+Slot', cfg_env=ENV)
    nb_k = sk[noff:noff + len(nb)]
    flag_names = slot_new_flags(nb_k, consts)

    # ---- Prev::detect / Prev::execute ---------------------------------------------------
    _, db, _ = find_fn(s, 'detect', owner=r'impl\s+Prev', cfg_env=ENV)
    dst = stmts(db, 'Prev::detect')
    dtab = [
        (rx(r'let mut old\s*:\s*libc::sigaction = unsafe \{ mem::zeroed\(\) \}'), None),
        (rx(r'if unsafe \{ libc::sigaction\(signal, ptr::null\(\), &mut old\) \} != 0 \{ return Err\(Error::last_os_error\(\)\); \}'), 'query'),
        (rx(r'Ok\(Prev \{ signal, info: old \}\)'), 'ok'),
    ]
    if classify(dst, dtab, 'Prev::detect') != ['query', 'ok']:
        raise TranslateError('Prev::detect: shape not recognised')
    _, xb, _ = find_fn(s, 'execute', owner=r'impl\s+Prev', cfg_env=ENV)
    m = re.search(r'if\s+fptr\s*!=\s*0\s*&&\s*fptr\s*!=\s*libc::SIG_DFL\s*&&\s*fptr\s*!=\s*libc::SIG_IGN\s*\{', xb)
    if not m or not re.search(r'let\s+fptr\s*=\s*self\.info\.sa_sigaction\s*;', xb):
        raise TranslateError('Prev::execute: guard on SIG_DFL/SIG_IGN/0 not recognised')
    rest = xb[:m.start()]
    if re.search(r'\baction\s*\(', rest):
        raise TranslateError('Prev::execute: a call precedes the guard')
    skips = sorted(set([0, consts['SIG_DFL'], consts['SIG_IGN']]))

    # ---- FORBIDDEN and the checked entry points -------------------------------------------
    init, _ = find_const_item(s, 'FORBIDDEN_IMPL', cfg_env=ENV)
    m = re.match(r'^\s*&\s*\[(.*)\]\s*$', init, re.S)
    if not m:
        raise TranslateError('FORBIDDEN_IMPL initialiser not recognised')
    forb = []
    for nm in [x.strip() for x in m.group(1).split(',') if x.strip()]:
        if nm not in consts:
            raise TranslateError('no measured value for %s' % nm)
        forb.append(consts[nm])
    init, _ = find_const_item(s, 'FORBIDDEN', cfg_env=ENV)
    if init.strip() != 'FORBIDDEN_IMPL':
        raise TranslateError('FORBIDDEN is not FORBIDDEN_IMPL')
    _, rb_, _ = find_fn(s, 'register', cfg_env=ENV)
    if stmts(rb_, 'register') != ['register_sigaction_impl(signal, move |_: &_| action())']:
        raise TranslateError('register: body not recognised')
    _, rs_, _ = find_fn(s, 'register_sigaction', cfg_env=ENV)
    if stmts(rs_, 'register_sigaction') != ['register_sigaction_impl(signal, action)']:
        raise TranslateError('register_sigaction: body not recognised')
    _, ri_, _ = find_fn(s, 'register_sigaction_impl', cfg_env=ENV)
    etab = [
        (rx(r'assert!\( !FORBIDDEN\.contains\(&signal\), [^;]* \)'), 'EAssertNotForbidden'),
        (rx(r'register_unchecked_impl\(signal, action\)'), 'ECallUnchecked'),
    ]
    entry = classify(stmts(ri_, 'register_sigaction_impl'), etab, 'register_sigaction_impl')

    # ---- register_unchecked_impl ----------------------------------------------------------
    _, ub, _ = find_fn(s, 'register_unchecked_impl', cfg_env=ENV)
    ust = stmts(ub, 'register_unchecked_impl')
    tags = classify(ust, REG_TABLE, 'register_unchecked_impl')
    if tags.count('MATCH') != 1:
        raise TranslateError('register_unchecked_impl: exactly one `match sigdata.signals.entry(signal)` expected')
    expect_order(tags, ['ensure', 'lockwrite'], 'register_unchecked_impl')
    if tags.index('lockwrite') > tags.index('IClone') if 'IClone' in tags else True:
        raise TranslateError('register_unchecked_impl: clone is not taken under the write lock')
    k = tags.index('MATCH')
    reg_pre, reg_post = instrs(tags[:k]), instrs(tags[k + 1:])
    mtext = [t for t in ust if REG_TABLE[6][0].match(t)][0]
    mbody, _, _ = block_of(mtext, 'entry match')
    arms = re.split(r'Entry::(Occupied|Vacant)\s*\(([^)]*)\)\s*=>', mbody)
    # arms = ['', kind, binder, text, kind, binder, text]
    if len(arms) != 7 or arms[0].strip():
        raise TranslateError('entry match: arms not recognised')
    arm = {}
    for kind, binder, text in ((arms[1], arms[2], arms[3]), (arms[4], arms[5], arms[6])):
        b, pre_, post_ = block_of(text, 'entry arm')
        if pre_.strip() or post_.strip().strip(','):
            raise TranslateError('entry match arm %s: not a plain block' % kind)
        arm[kind] = (binder.strip(), b)
    if set(arm) != {'Occupied', 'Vacant'} or arm['Occupied'][0] != 'mut occupied' or arm['Vacant'][0] != 'place':
        raise TranslateError('entry match: binders not recognised')
    reg_occ = classify(stmts(arm['Occupied'][1], 'Occupied arm'), OCC_TABLE, 'Occupied arm')
    reg_vac = classify(stmts(arm['Vacant'][1], 'Vacant arm'), VAC_TABLE, 'Vacant arm')

    # ---- unregister / unregister_signal ---------------------------------------------------
    _, b1, _ = find_fn(s, 'unregister', cfg_env=ENV)
    t1 = classify(stmts(b1, 'unregister'), UNREG_TABLE, 'unregister')
    expect_order(t1, ['ensure', 'initreplace', 'lockwrite'], 'unregister')
    _, b2, _ = find_fn(s, 'unregister_signal', cfg_env=ENV)
    t2 = classify(stmts(b2, 'unregister_signal'), UNSIG_TABLE, 'unregister_signal')
    expect_order(t2, ['ensure', 'initreplace', 'lockwrite'], 'unregister_signal')
    for t, w in ((t1, 'unregister'), (t2, 'unregister_signal')):
        if 'IClone' not in t or t.index('lockwrite') > t.index('IClone') or t.index('initreplace') > t.index('IClone'):
            raise TranslateError('%s: clone / replace initialisation order not recognised' % w)

    # ---- handler (unix) --------------------------------------------------------------------
    _, hb, _ = find_fn(s, 'handler', cfg_env=ENV)
    hst = stmts(hb, 'handler')
    ht = classify(hst, H_TABLE, 'handler')
    if ht.count('BRANCH') != 1 or ht[-1] != 'BRANCH':
        raise TranslateError('handler: slot / fallback branch not recognised')
    h_pre = ht[:-1]
    btext = hst[-1]
    b_slot, _, rest = block_of(btext, 'handler slot branch')
    b_else, hdr, tail = block_of(rest, 'handler else branch')
    if tail.strip():
        raise TranslateError('handler: trailing text after the branches')
    h_slot = classify(stmts(b_slot, 'handler slot branch'), HSLOT_TABLE, 'handler slot branch')
    h_else = classify(stmts(b_else, 'handler fallback branch'), HELSE_TABLE, 'handler fallback branch')

    # ---- what is never done ------------------------------------------------------------------
    t, fns = nontest_functions(s)
    sig_methods, act_methods, sigaction_sites, signal_sites = set(), set(), [], []
    for name, body, _ in fns:
        for m in re.finditer(r'\.\s*signals\s*\.\s*(\w+)\s*\(', body):
            sig_methods.add(m.group(1))
        for m in re.finditer(r'\bactions\s*\.\s*(\w+)\s*\(', body):
            act_methods.add(m.group(1))
        for m in re.finditer(r'\blibc::sigaction\s*\(\s*\w+\s*,\s*([^,]+),', body):
            sigaction_sites.append((name, 'query' if re.sub(r'\s', '', m.group(1)) == 'ptr::null()' else 'set'))
        for m in re.finditer(r'\b(?:libc::)?(signal|sigaction|sigprocmask|pthread_sigmask)\s*\(', body):
            if m.group(1) != 'sigaction':
                signal_sites.append((name, m.group(1)))
    # whole-struct replacement of `signals` or of a slot would also be a removal
    for name, body, _ in fns:
        if re.search(r'\.\s*signals\s*=[^=]', body):
            raise TranslateError('%s assigns to .signals' % name)
    hl = strip(open(repo + '/signal-hook-registry/src/half_lock.rs').read())
    if re.search(r'\bsigaction\b|\bSIG_DFL\b', hl):
        raise TranslateError('half_lock.rs touches dispositions')
    set_sites = sorted(n for n, k in sigaction_sites if k == 'set')
    query_sites = sorted(n for n, k in sigaction_sites if k == 'query')
    # SIG_DFL may only be *compared* (Prev::execute); never assigned/installed
    dfl_uses = []
    for name, body, _ in fns:
        for m in re.finditer(r'\bSIG_DFL\b|\bSIG_IGN\b', body):
            before = re.sub(r'libc\s*::\s*$', '', body[:m.start()].rstrip()).rstrip()
            if not before.endswith('!=') and not before.endswith('=='):
                dfl_uses.append(name)

    # ---- output ---------------------------------------------------------------------------
    def L(xs):
        return coq_list(list(xs))
    o = []
    o.append('(* GENERATED by translator/seqreg.py from signal-hook-registry/src/lib.rs -- do not edit *)')
    o.append('From Coq Require Import ZArith NArith List String.')
    o.append('Import ListNotations. Open Scope Z_scope. Open Scope string_scope.')
    o.append('(* one constructor per recognised statement shape; coq/seqreg/Model.v gives each its meaning *)')
    o.append('Inductive instr := ' + ' | '.join(INSTR) + '.')
    o.append('Inductive einstr := EAssertNotForbidden | ECallUnchecked.')
    o.append('Inductive hinstr := ' + ' | '.join(HINSTR) + '.')
    o.append('Definition initial_next_id : N := %d%%N.' % initial_next)
    o.append('Definition id_bits : N := %d%%N.' % id_bits)
    o.append('Definition SA_RESTART : Z := %s.' % coq_z(consts['SA_RESTART']))
    o.append('Definition SA_SIGINFO : Z := %s.' % coq_z(consts['SA_SIGINFO']))
    o.append('Definition slot_new_flag_names : list string := %s.' % L(coq_string(f) for f in flag_names))
    o.append('Definition slot_new_flag_terms : list Z := %s.' % L(coq_z(consts[f]) for f in flag_names))
    o.append('Definition prev_execute_skips : list Z := %s.' % L(coq_z(v) for v in skips))
    o.append('Definition forbidden : list Z := %s.' % L(coq_z(v) for v in forb))
    o.append('Definition entry_checked : list einstr := %s.' % L(entry))
    o.append('Definition reg_pre : list instr := %s.' % L(reg_pre))
    o.append('Definition reg_occupied : list instr := %s.' % L(reg_occ))
    o.append('Definition reg_vacant : list instr := %s.' % L(reg_vac))
    o.append('Definition reg_post : list instr := %s.' % L(reg_post))
    o.append('Definition unreg : list instr := %s.' % L(instrs(t1)))
    o.append('Definition unreg_signal : list instr := %s.' % L(instrs(t2)))
    o.append('Definition handler_pre : list hinstr := %s.' % L(h_pre))
    o.append('Definition handler_slot : list hinstr := %s.' % L(h_slot))
    o.append('Definition handler_noslot : list hinstr := %s.' % L(h_else))
    o.append('(* methods ever called on `.signals` (HashMap) and on `actions` (BTreeMap) outside tests *)')
    o.append('Definition signals_methods : list string := %s.' % L(coq_string(x) for x in sorted(sig_methods)))
    o.append('Definition actions_methods : list string := %s.' % L(coq_string(x) for x in sorted(act_methods)))
    o.append('(* functions that call sigaction with a new disposition / only to query; other disposition calls *)')
    o.append('Definition sigaction_set_sites : list string := %s.' % L(coq_string(x) for x in set_sites))
    o.append('Definition sigaction_query_sites : list string := %s.' % L(coq_string(x) for x in query_sites))
    o.append('Definition other_disposition_calls : list string := %s.' % L(coq_string('%s:%s' % x) for x in sorted(set(signal_sites))))
    o.append('Definition sig_dfl_ign_non_comparison_uses : list string := %s.' % L(coq_string(x) for x in sorted(set(dfl_uses))))
    return '\n'.join(o) + '\n'


if __name__ == '__main__':
    import sys, subprocess
    out = subprocess.check_output(['/verif/harness/target/debug/sh_probe', 'consts']).decode()
    consts = dict((l.split('=')[0], int(l.split('=')[1])) for l in out.split())
    sys.stdout.write(translate(sys.argv[1] if len(sys.argv) > 1 else '/repo', consts))
