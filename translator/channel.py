"""src/low_level/channel.rs (+ the Slot pointer publication of src/iterator/exfiltrator/raw.rs)
-> coq/gen/Extracted_channel.v

Generated:
  * SLOTS, BITS, MASK;
  * `get` and `set` TRANSLATED to Gallina functions on N (every u16 operation wrapped mod 2^16,
    `!x` as 65535 - x), likewise the pure expressions of `dequeue` (`val`, `val == 0`, `modified`)
    and `enqueue` (the `find` range and predicate, `modified`);
  * memory orderings of every atomic access as DATA (codes of signal_hook_registry::verif:
    0 Relaxed, 1 Release, 2 Acquire, 3 AcqRel, 4 SeqCst) -- the memory semantics of
    coq/channel/ModelRA.v reads them; which queue each of `send`/`recv`/`new` dequeues from and
    enqueues to (0 = empty, 1 = full); the range of `new`;
  * synchronisation skeletons (ordered operations + control structure) of enqueue, dequeue, new,
    send, recv, and of Slot::{drop}, WithRawSiginfo::{store, load, init};
  * the bounds of `unsafe impl Send/Sync for Channel<T>` and the struct's fields.
"""
import re
from rustsrc import *

ORD = {'Relaxed': 0, 'Release': 1, 'Acquire': 2, 'AcqRel': 3, 'SeqCst': 4}

# ---------------------------------------------------------------------------------------------
# expression translator (u16 arithmetic)
TOK = re.compile(r'\s*(0b[01_]+|0x[0-9a-fA-F_]+|\d[\d_]*(?:u16|usize|u32)?|[A-Za-z_]\w*|>>|<<|==|!=|&&|\|\||[-+*/&|^!()<>,])')

BIN_PREC = {'*': 10, '/': 10, '+': 9, '-': 9, '<<': 8, '>>': 8, '&': 7, '^': 6, '|': 5, '==': 4, '!=': 4}
BIN_COQ = {'*': 'N.mul', '<<': 'N.shiftl', '>>': 'N.shiftr', '&': 'N.land', '|': 'N.lor', '^': 'N.lxor', '+': 'N.add'}


def tokenize(text):
    toks, i = [], 0
    text = text.strip()
    while i < len(text):
        m = TOK.match(text, i)
        if not m:
            raise TranslateError('cannot tokenize expression: %r at %r' % (text, text[i:i + 10]))
        toks.append(m.group(1))
        i = m.end()
    return toks


class Expr:
    """Pratt parser producing Gallina text.  Every arithmetic node is wrapped in w16; a comparison
    yields a bool."""
    def __init__(self, toks, env, consts, funs):
        self.t, self.i, self.env, self.consts, self.funs = toks, 0, env, consts, funs

    def peek(self):
        return self.t[self.i] if self.i < len(self.t) else None

    def take(self, want=None):
        tok = self.peek()
        if tok is None or (want is not None and tok != want):
            raise TranslateError('expression: expected %r, found %r in %r' % (want, tok, self.t))
        self.i += 1
        return tok

    def parse(self, prec=0):
        lhs = self.unary()
        while True:
            op = self.peek()
            if op == 'as':
                self.take()
                ty = self.take()
                if ty not in ('u16', 'usize'):
                    raise TranslateError('cast to ' + ty)
                if ty == 'u16':
                    lhs = '(w16 %s)' % lhs
                continue
            if op not in BIN_PREC or BIN_PREC[op] <= prec:
                return lhs
            self.take()
            rhs = self.parse(BIN_PREC[op])
            if op == '==':
                lhs = '(N.eqb %s %s)' % (lhs, rhs)
            elif op == '!=':
                lhs = '(negb (N.eqb %s %s))' % (lhs, rhs)
            elif op in BIN_COQ:
                lhs = '(w16 (%s %s %s))' % (BIN_COQ[op], lhs, rhs)
            else:
                raise TranslateError('operator %s not supported' % op)

    def unary(self):
        tok = self.take()
        if tok == '!':
            return '(w16 (N.sub 65535 %s))' % self.unary()
        if tok == '*':     # dereference of a closure argument
            return self.unary()
        if tok == '(':
            e = self.parse(0)
            self.take(')')
            return e
        m = re.match(r'^(0b[01_]+|0x[0-9a-fA-F_]+|\d[\d_]*)(u16|usize|u32)?$', tok)
        if m:
            lit = m.group(1).replace('_', '')
            v = int(lit, 2) if lit.startswith('0b') else int(lit, 16) if lit.startswith('0x') else int(lit)
            return '%d' % v
        if re.match(r'^[A-Za-z_]\w*$', tok):
            if self.peek() == '(':
                if tok not in self.funs:
                    raise TranslateError('call of unknown function ' + tok)
                self.take('(')
                args = []
                if self.peek() != ')':
                    args.append(self.parse(0))
                    while self.peek() == ',':
                        self.take(',')
                        args.append(self.parse(0))
                self.take(')')
                if len(args) != self.funs[tok]:
                    raise TranslateError('arity of ' + tok)
                return '(%s %s)' % (tok, ' '.join(args))
            if tok in self.env:
                return self.env[tok]
            if tok in self.consts:
                return tok
            raise TranslateError('unknown identifier %s in expression' % tok)
        raise TranslateError('unexpected token %r' % tok)


def tr_expr(text, env, consts, funs):
    p = Expr(tokenize(text), env, consts, funs)
    e = p.parse(0)
    if p.peek() is not None:
        raise TranslateError('trailing tokens in expression %r' % text)
    return e


def tr_fn(name, sig, body, consts, funs):
    """fn name(a: u16, b: u16) -> u16 { let x = e; ... ; e }"""
    m = re.search(r'\(([^)]*)\)\s*->\s*u16', sig)
    if not m:
        raise TranslateError('signature of %s: %s' % (name, norm(sig)))
    params = []
    for p in split_top(m.group(1)):
        pm = re.match(r'^\s*(\w+)\s*:\s*u16\s*$', p)
        if not pm:
            raise TranslateError('parameter of %s: %s' % (name, p))
        params.append(pm.group(1))
    env = dict((p, p) for p in params)
    stmts = [x.strip() for x in body.split(';')]
    lets, final = stmts[:-1], stmts[-1]
    out = ''
    for st in lets:
        lm = re.match(r'^let\s+(\w+)\s*=\s*(.*)$', st, re.S)
        if not lm:
            raise TranslateError('statement of %s: %s' % (name, st))
        out += 'let %s := %s in\n  ' % (lm.group(1), tr_expr(lm.group(2), env, consts, funs))
        env[lm.group(1)] = lm.group(1)
    out += tr_expr(final, env, consts, funs)
    return 'Definition %s (%s : N) : N :=\n  %s.' % (name, ' '.join(params), out), len(params)


# ---------------------------------------------------------------------------------------------
EXTRA = [
    (r'\(\s*0\s*\.\.\s*SLOTS\s+as\s+u16\s*\)', 'range(0..SLOTS)'),
    (r'\.\s*find\s*\(\s*\|\s*i\s*\|', 'find(|i|'),
    (r'\.\s*expect\s*\(', 'expect'),
    (r'let\s+(\w+)\s*=\s*set\s*\(\s*(\w+)\s*,\s*(\w+)\s*,\s*(\w+)\s*\)', r'\1=set(\2,\3,\4)'),
    (r'let\s+val\s*=', 'val='),
    (r'let\s+modified\s*=', 'modified='),
    (r'Ok\s*\(\s*_\s*\)\s*=>\s*break\s+Some\s*\(\s*val\s*\)', 'Ok=>break Some(val)'),
    (r'Ok\s*\(\s*_\s*\)\s*=>\s*break', 'Ok=>break'),
    (r'Err\s*\(\s*changed\s*\)\s*=>\s*current\s*=\s*changed', 'Err(changed)=>current=changed'),
    (r'break\s+None', 'break None'),
    (r'(empty|full)\s*:\s*AtomicU16::new\s*\(\s*(\d+)\s*\)', r'\1=AtomicU16::new(\2)'),
    (r'(dequeue|enqueue)\s*\(\s*&\s*(?:self|me)\s*\.\s*(\w+)\s*\)', r'\1(\2)'),
    (r'(dequeue|enqueue)\s*\(\s*&\s*(?:self|me)\s*\.\s*(\w+)\s*,\s*([^)]*?)\s*\)', r'\1(\2,\3)'),
    (r'\*\s*self\s*\.\s*storage\s*\[\s*(\w+)\s+as\s+usize\s*-\s*1\s*\]\s*\.\s*get\s*\(\s*\)\s*=\s*Some\s*\(\s*val\s*\)', r'*storage[\1-1]=Some(val)'),
    (r'&\s*mut\s*\*\s*self\s*\.\s*storage\s*\[\s*(\w+)\s+as\s+usize\s*-\s*1\s*\]\s*\.\s*get\s*\(\s*\)', r'&mut *storage[\1-1]'),
    (r'\.\s*take\s*\(\s*\)', 'take()'),
    (r'\.\s*map\s*\(\s*\|\s*idx\s*\|', 'map(|idx|'),
    (r'\bresult\b(?=\s*\})', 'result'),
    (r'\bme\b(?=\s*$)', 'me'),
]

RAW_EXTRA = [
    (r'Box::from_raw\s*\(', 'Box::from_raw'),
    (r'Box::into_raw\s*\(', 'Box::into_raw'),
    (r'Box::default\s*\(\s*\)', 'Box::default()'),
    (r'\w+\s*\.\s*send\s*\(\s*info\s*\)', 'send(info)'),
    (r'\w+\s*\.\s*recv\s*\(\s*\)', 'recv()'),
    (r'\.\s*is_null\s*\(\s*\)', 'is_null()'),
    (r'\.\s*as_ref\s*\(\s*\)', 'as_ref()'),
    (r'assert!\s*\(', 'assert!'),
    (r'\breturn\b', 'return'),
    (r'\.\s*and_then\s*\(', 'and_then'),
]


def ords_of(sk, method):
    """orderings of the (unique) call of `method` in a skeleton"""
    hits = [t for t in sk if re.search(r'\.' + method + r'\(([A-Za-z,]*)\)$', t)]
    if len(hits) != 1:
        raise TranslateError('expected exactly one %s, found %r' % (method, hits))
    names = re.search(r'\(([A-Za-z,]*)\)$', hits[0]).group(1).split(',')
    for n in names:
        if n not in ORD:
            raise TranslateError('unknown ordering ' + n)
    return [ORD[n] for n in names]


def queue_code(name):
    if name == 'empty':
        return 0
    if name == 'full':
        return 1
    raise TranslateError('unknown queue ' + name)


def translate(repo, consts):
    src = open(repo + '/src/low_level/channel.rs').read()
    s = strip(src)
    s = re.sub(r'#\[cfg\(sighook_verif\)\]\s*\n[^\n]*\n', '\n', s)
    t = s.find('#[cfg(test)]')
    if t >= 0:
        s = s[:t]
    # the verification accessor is not part of the algorithm
    s = re.sub(r'pub fn verif_addrs', 'pub fn verif_addrs_cut', s)
    out = ['(* GENERATED by translator/channel.py from src/low_level/channel.rs and src/iterator/exfiltrator/raw.rs -- do not edit *)',
           'From Coq Require Import NArith List String Bool.',
           'Import ListNotations. Local Open Scope N_scope.']
    cvals = {}
    for name in ('SLOTS', 'BITS', 'MASK'):
        init, _ = find_const_item(s, name)
        init = init.strip().replace('_', '')
        if re.match(r'^0b[01]+$', init):
            v = int(init, 2)
        elif re.match(r'^\d+$', init):
            v = int(init)
        else:
            raise TranslateError('const %s = %s' % (name, init))
        cvals[name] = v
        out.append('Definition %s : N := %d.' % (name, v))
    out.append('Definition w16 (x : N) : N := N.modulo x 65536.')
    funs = {}
    for fn in ('get', 'set'):
        sig, body, _ = find_fn(s, fn)
        text, ar = tr_fn(fn, sig, body, cvals, funs)
        funs[fn] = ar
        out.append(text)

    # ---- dequeue
    _, dbody, _ = find_fn(s, 'dequeue')
    m = re.search(r'let\s+val\s*=\s*([^;]+);', dbody)
    if not m:
        raise TranslateError('dequeue: let val')
    out.append('Definition deq_val (current : N) : N :=\n  %s.' % tr_expr(m.group(1), {'current': 'current'}, cvals, funs))
    m = re.search(r'if\s+([^{]+)\{\s*break\s+None\s*;?\s*\}', dbody)
    if not m:
        raise TranslateError('dequeue: emptiness test')
    out.append('Definition deq_is_none (val : N) : bool :=\n  %s.' % tr_expr(m.group(1), {'val': 'val'}, cvals, funs))
    m = re.search(r'let\s+modified\s*=\s*([^;]+);', dbody)
    if not m:
        raise TranslateError('dequeue: let modified')
    out.append('Definition deq_modified (current : N) : N :=\n  %s.' % tr_expr(m.group(1), {'current': 'current'}, cvals, funs))
    m = re.search(r'compare_exchange_weak\s*\(\s*(\w+)\s*,\s*(\w+)\s*,', dbody)
    if not m or (m.group(1), m.group(2)) != ('current', 'modified'):
        raise TranslateError('dequeue: CAS operands')
    if not re.search(r'Ok\s*\(\s*_\s*\)\s*=>\s*break\s+Some\s*\(\s*val\s*\)', dbody):
        raise TranslateError('dequeue: result')
    sk_deq = skeleton(dbody, EXTRA)

    # ---- enqueue
    _, ebody, _ = find_fn(s, 'enqueue')
    m = re.search(r'\(\s*(\w+)\s*\.\.\s*([^)]+?)\)\s*\.\s*find\s*\(\s*\|\s*(\w+)\s*\|\s*([^)]*\)[^)]*)\)\s*\.\s*expect', ebody, re.S)
    if not m:
        raise TranslateError('enqueue: find')
    lo = tr_expr(m.group(1), {}, cvals, funs)
    hi = tr_expr(m.group(2), {}, cvals, funs)
    out.append('Definition enq_lo : N := %s.' % lo)
    out.append('Definition enq_hi : N := %s.' % hi)
    var = m.group(3)
    out.append('Definition enq_pred (current %s : N) : bool :=\n  %s.' % (var, tr_expr(m.group(4), {'current': 'current', var: var}, cvals, funs)))
    m = re.search(r'let\s+modified\s*=\s*([^;]+);', ebody)
    if not m:
        raise TranslateError('enqueue: let modified')
    out.append('Definition enq_modified (current empty val : N) : N :=\n  %s.' %
               tr_expr(m.group(1), {'current': 'current', 'empty': 'empty', 'val': 'val'}, cvals, funs))
    m = re.search(r'compare_exchange_weak\s*\(\s*(\w+)\s*,\s*(\w+)\s*,', ebody)
    if not m or (m.group(1), m.group(2)) != ('current', 'modified'):
        raise TranslateError('enqueue: CAS operands')
    sk_enq = skeleton(ebody, EXTRA)

    # ---- orderings as data
    el = ords_of(sk_enq, 'load')
    ec = ords_of(sk_enq, 'compare_exchange_weak')
    dl = ords_of(sk_deq, 'load')
    dc = ords_of(sk_deq, 'compare_exchange_weak')
    if len(el) != 1 or len(dl) != 1 or len(ec) != 2 or len(dc) != 2:
        raise TranslateError('ordering arity')
    out.append('(* memory orderings: 0 Relaxed, 1 Release, 2 Acquire, 3 AcqRel, 4 SeqCst *)')
    out.append('Definition enq_ord_load : N := %d.' % el[0])
    out.append('Definition enq_ord_cas_ok : N := %d.' % ec[0])
    out.append('Definition enq_ord_cas_fail : N := %d.' % ec[1])
    out.append('Definition deq_ord_load : N := %d.' % dl[0])
    out.append('Definition deq_ord_cas_ok : N := %d.' % dc[0])
    out.append('Definition deq_ord_cas_fail : N := %d.' % dc[1])
    out.append('Definition cas_is_weak : bool := true.')

    # ---- new / send / recv
    _, nbody, _ = find_fn(s, 'new', owner=r'impl<T> Channel<T>')
    sk_new = skeleton(nbody, EXTRA)
    inits = dict(re.findall(r'(empty|full)\s*:\s*AtomicU16::new\s*\(\s*(\d+)\s*\)', nbody))
    if set(inits) != {'empty', 'full'}:
        raise TranslateError('new: initial words')
    out.append('Definition new_init_empty : N := %d.' % int(inits['empty']))
    out.append('Definition new_init_full : N := %d.' % int(inits['full']))
    m = re.search(r'for\s+(\w+)\s+in\s+([^.{]+?)\s*\.\.\s*([^{]+?)\s*\{\s*enqueue\s*\(\s*&\s*me\s*\.\s*(\w+)\s*,\s*(\w+)\s+as\s+u16\s*\)\s*;\s*\}', nbody)
    if not m or m.group(1) != m.group(5):
        raise TranslateError('new: loop')
    out.append('Definition new_lo : N := %s.' % tr_expr(m.group(2), {}, cvals, funs))
    out.append('Definition new_hi : N := %s.' % tr_expr(m.group(3), {}, cvals, funs))
    out.append('Definition new_queue : N := %d.' % queue_code(m.group(4)))

    _, sbody, _ = find_fn(s, 'send', owner=r'impl<T> Channel<T>')
    sk_send = skeleton(sbody, EXTRA)
    m = re.search(r'if\s+let\s+Some\s*\(\s*(\w+)\s*\)\s*=\s*dequeue\s*\(\s*&\s*self\s*\.\s*(\w+)\s*\)\s*\{(.*)\}', sbody, re.S)
    if not m:
        raise TranslateError('send: dequeue')
    ivar, inner = m.group(1), m.group(3)
    out.append('Definition send_deq_queue : N := %d.' % queue_code(m.group(2)))
    m2 = re.search(r'\*\s*self\s*\.\s*storage\s*\[\s*(\w+)\s+as\s+usize\s*-\s*(\d+)\s*\]\s*\.\s*get\s*\(\s*\)\s*=\s*Some\s*\(\s*val\s*\)', inner)
    m3 = re.search(r'enqueue\s*\(\s*&\s*self\s*\.\s*(\w+)\s*,\s*(\w+)\s*\)', inner)
    if not m2 or not m3 or m2.group(1) != ivar or m3.group(2) != ivar or m2.start() > m3.start():
        raise TranslateError('send: cell write / enqueue')
    out.append('Definition send_cell_offset : N := %d.' % int(m2.group(2)))
    out.append('Definition send_enq_queue : N := %d.' % queue_code(m3.group(1)))

    _, rbody, _ = find_fn(s, 'recv', owner=r'impl<T> Channel<T>')
    sk_recv = skeleton(rbody, EXTRA)
    m = re.search(r'dequeue\s*\(\s*&\s*self\s*\.\s*(\w+)\s*\)\s*\.\s*map\s*\(\s*\|\s*(\w+)\s*\|\s*\{(.*)\}\s*\)', rbody, re.S)
    if not m:
        raise TranslateError('recv: dequeue')
    ivar, inner = m.group(2), m.group(3)
    out.append('Definition recv_deq_queue : N := %d.' % queue_code(m.group(1)))
    m2 = re.search(r'&\s*mut\s*\*\s*self\s*\.\s*storage\s*\[\s*(\w+)\s+as\s+usize\s*-\s*(\d+)\s*\]\s*\.\s*get\s*\(\s*\)\s*\}\s*\.\s*take\s*\(\s*\)\s*\.\s*expect\s*\(', inner)
    m3 = re.search(r'enqueue\s*\(\s*&\s*self\s*\.\s*(\w+)\s*,\s*(\w+)\s*\)', inner)
    if not m2 or not m3 or m2.group(1) != ivar or m3.group(2) != ivar or m2.start() > m3.start():
        raise TranslateError('recv: take / enqueue')
    out.append('Definition recv_cell_offset : N := %d.' % int(m2.group(2)))
    out.append('Definition recv_enq_queue : N := %d.' % queue_code(m3.group(1)))

    out.append('Local Open Scope string_scope.')
    for nm, sk in (('enqueue', sk_enq), ('dequeue', sk_deq), ('new', sk_new), ('send', sk_send), ('recv', sk_recv)):
        out.append(coq_string_list('skel_' + nm, sk))

    # ---- struct + unsafe impls
    m = re.search(r'pub\s+struct\s+Channel\s*<\s*T\s*>\s*\{([^}]*)\}', s)
    if not m:
        raise TranslateError('struct Channel')
    fields = [norm(f).replace(' ', '') for f in split_top(m.group(1)) if f.strip()]
    out.append(coq_string_list('channel_fields', fields))
    impls = []
    for tr in ('Send', 'Sync'):
        m = re.search(r'unsafe\s+impl\s*<\s*([^>]*)>\s*' + tr + r'\s+for\s+Channel\s*<\s*T\s*>\s*\{\s*\}', s)
        if not m:
            raise TranslateError('unsafe impl %s for Channel' % tr)
        impls.append('%s: %s' % (tr, norm(m.group(1))))
    out.append(coq_string_list('channel_unsafe_impls', impls))

    # ---- raw.rs: publication of the channel pointer
    r = strip(open(repo + '/src/iterator/exfiltrator/raw.rs').read())
    r = re.sub(r'#\[cfg\(sighook_verif\)\]\s*\n[^\n]*\n', '\n', r)
    sk = {}
    for nm, fn, owner in (('slot_drop', 'drop', r'Drop for Slot'), ('raw_store', 'store', r'Exfiltrator for WithRawSiginfo'),
                          ('raw_load', 'load', r'Exfiltrator for WithRawSiginfo'), ('raw_init', 'init', r'Exfiltrator for WithRawSiginfo')):
        _, body, _ = find_fn(r, fn, owner=owner)
        sk[nm] = skeleton(body, RAW_EXTRA)
        out.append(coq_string_list('skel_' + nm, sk[nm]))
    out.append('Local Open Scope N_scope.')
    out.append('Definition slot_drop_load_ord : N := %d.' % ords_of(sk['slot_drop'], 'load')[0])
    out.append('Definition slot_store_load_ord : N := %d.' % ords_of(sk['raw_store'], 'load')[0])
    out.append('Definition slot_load_load_ord : N := %d.' % ords_of(sk['raw_load'], 'load')[0])
    out.append('Definition slot_init_load_ord : N := %d.' % ords_of(sk['raw_init'], 'load')[0])
    out.append('Definition slot_init_swap_ord : N := %d.' % ords_of(sk['raw_init'], 'swap')[0])
    m = re.search(r'pub\s+struct\s+Slot\s*\(\s*([^)]*)\)', r)
    if not m:
        raise TranslateError('struct Slot')
    out.append('Definition slot_type : string := %s%%string.' % coq_string(norm(m.group(1)).replace(' ', '')))
    return '\n'.join(out) + '\n'
